"""C18 — simplifiers stay within tolerance and preserve the topology they promise.

proof   : lean/GeosModel/Props/C18.lean
            part 1: theorems about the model of DouglasPeuckerLineSimplifier (Model/Simplify/DP.lean), for every
                    distance function / tolerance / input (dp_subseq, dp_endpoints, dp_within, dp_ring_2tol, ...)
            part 2: soundness of the exact contract checkers for TPS / polygon hull / coverage simplification
tie     : correspondence
            dp        GEOSSimplify_r vs. the model run on hardware doubles with the formula of
                      Distance::pointToSegment: results must be vertex-for-vertex (bit) identical
            tps/hull/coverage   generated valid inputs through the C API; the Lean driver checks the contract on
                      (input, output) exactly and answers `ok`
            jump      ComponentJumpChecker::hasJump (both overloads) on hand-built TaggedLineStrings vs. Model/Simplify/Jump.lean (exact)
            vsindex   index::VertexSequencePackedRtree (build / remove / query / getBounds) vs. Model/Simplify/VertexIndex.lean;
                      theorems about both models: Props/C18Index.lean
A dp disagreement is first judged by the property-level oracle (`dporacle`: subsequence, endpoints, every vertex
within tolerance / 2*tolerance of the result): if the oracle fails, that input is a concrete violation of the
property; otherwise only the model/implementation tie is broken.  For the contract streams any answer other than
`ok` *is* a violated contract on that input."""
import json, os
import verif
from verif import log

LEVEL = "proof"
PROPS = ["GeosModel.Props.C18", "GeosModel.Props.C18Index"]
DRV = "drv_c18"
DIRECT = {"jump": ("ComponentJumpChecker::hasJump", "GeosModel.Jump.hasJumpSection / hasJumpSegs"),
          "vsindex": ("index::VertexSequencePackedRtree (build / remove / query / getBounds)", "GeosModel.VSPR")}


def harness_replay(exe, case, work):
    """re-run one case line on the implementation -> (fresh case line, expect)"""
    p = os.path.join(work, "replay-%d.txt" % os.getpid())
    os.makedirs(work, exist_ok=True)
    with open(p, "w") as f:
        f.write(case + "\n")
    rc, out = verif.sh([exe, "replay", p], timeout=120)
    lines = [l for l in out.split("\n") if "\t" in l]
    if rc != 0 or not lines:
        return None, "harness-error:" + out[-300:]
    c, e = lines[-1].split("\t", 1)
    return c, e.strip()


def driver(stream, case):
    rc, lines = verif.run_driver_lines(stream, [case], driver_exe=DRV)
    return lines[0] if lines else "driver-error"


def with_output(case, expect):
    return case.split(" | ")[0] + " | " + expect


def dp_disagrees(exe, case, work):
    c, e = harness_replay(exe, case, work)
    if c is None:
        return True, e, "", case
    m = driver("dp", c)
    return m != e, e, m, c


def components(tk):
    """split the geometry tokens `TAG ...` of a multi/collection into its top-level component token lists"""
    def seq_len(i):                       # tokens of `xy n ords` starting at i
        return 2 + 2 * int(tk[i + 1])
    def comp_len(i):
        t = tk[i]
        if t in ("L", "R", "P"):
            return 1 + seq_len(i + 1)
        if t == "Y":
            k, j = int(tk[i + 1]), i + 2
            for _ in range(k):
                j += seq_len(j)
            return j - i
        k, j = int(tk[i + 1]), i + 2
        for _ in range(k):
            j += comp_len(j)
        return j - i
    if tk[0] not in ("ML", "MY", "GC", "MP"):
        return None
    k, j, out = int(tk[1]), 2, []
    for _ in range(k):
        n = comp_len(j)
        out.append(tk[j:j + n])
        j += n
    return out


def shrink_dp(exe, case, work, still_bad=None):
    """reduce a dp case while `still_bad(case)` holds (default: model and implementation disagree): first isolate one
    component of a multi-geometry, then delete vertices of a single LineString / LinearRing"""
    if still_bad is None:
        still_bad = lambda c: dp_disagrees(exe, c, work)[0]
    tk = case.split(" | ")[0].split()
    head, g = tk[:3], tk[3:]
    try:
        for _ in range(3):
            comps = components(g)
            if not comps:
                break
            for c in comps:
                cand = " ".join(head + c)
                if still_bad(cand):
                    g = c
                    break
            else:
                break
    except Exception:
        return case
    if len(g) < 3 or g[0] not in ("L", "R") or g[1] != "xy":
        return " ".join(head + g)
    pts = g[3:]
    pts = [pts[i:i + 2] for i in range(0, len(pts), 2)]
    ring = g[0] == "R"
    def mk(ps):
        if ring:
            ps = ps[:-1] + [ps[0]] if ps else ps
        return " ".join(head + [g[0], "xy", str(len(ps))] + [t for p in ps for t in p])
    lo = 4 if ring else 2
    changed, budget = True, 400
    while changed and len(pts) > lo and budget > 0:
        changed = False
        for i in range(len(pts) - (2 if ring else 1), -1, -1):
            if len(pts) <= lo or budget <= 0:
                break
            cand = pts[:i] + pts[i + 1:]
            if ring and i == 0:
                cand = cand[:-1] + [cand[0]]
            budget -= 1
            if still_bad(mk(cand)):
                pts = cand if not ring else (cand[:-1] + [cand[0]])
                changed = True
    return mk(pts)


# ---- shrinking of contract-stream cases (tps / hull): drop elements, holes, vertices while the contract still fails

def parse_geom(tk, i=0):
    """GTree tokens -> (tree, next index); tree = (tag, [pts]) for L/R/P, ('Y', [rings]), (multi tag, [children])"""
    def seq(i):
        n = int(tk[i + 1])
        pts = [(tk[i + 2 + 2 * k], tk[i + 3 + 2 * k]) for k in range(n)]
        return pts, i + 2 + 2 * n
    t = tk[i]
    if t in ("L", "R", "P"):
        pts, j = seq(i + 1)
        return (t, pts), j
    if t == "Y":
        k, j, rings = int(tk[i + 1]), i + 2, []
        for _ in range(k):
            r, j = seq(j)
            rings.append(r)
        return ("Y", rings), j
    k, j, ch = int(tk[i + 1]), i + 2, []
    for _ in range(k):
        c, j = parse_geom(tk, j)
        ch.append(c)
    return (t, ch), j


def show_geom(g):
    def seq(pts):
        return "xy %d" % len(pts) + "".join(" %s %s" % p for p in pts)
    t, body = g
    if t in ("L", "R", "P"):
        return t + " " + seq(body)
    if t == "Y":
        return "Y %d" % len(body) + "".join(" " + seq(r) for r in body)
    return "%s %d" % (t, len(body)) + "".join(" " + show_geom(c) for c in body)


def geom_variants(g):
    """smaller geometries, most drastic first"""
    t, body = g
    if t == "Y":
        for h in range(len(body) - 1, 0, -1):
            yield ("Y", body[:h] + body[h + 1:])
        for ri, r in enumerate(body):
            if len(r) > 4:
                for v in range(len(r) - 1):
                    q = r[:v] + r[v + 1:]
                    if v == 0:
                        q = q[:-1] + [q[0]]
                    yield ("Y", body[:ri] + [q] + body[ri + 1:])
    elif t == "L":
        if len(body) > 2:
            for v in range(len(body)):
                yield ("L", body[:v] + body[v + 1:])
    elif t in ("ML", "MY", "GC"):
        if len(body) > 1:
            for c in range(len(body) - 1, -1, -1):
                yield (t, body[:c] + body[c + 1:])
        for ci, c in enumerate(body):
            for v in geom_variants(c):
                yield (t, body[:ci] + [v] + body[ci + 1:])


def shrink_contract(exe, stream, case, work, budget=260):
    """greedy reduction of a `T …` / `H …` case; every candidate is re-run on the implementation and re-judged by the driver"""
    try:
        tk = case.split(" | ")[0].split()
        nhead = 3 if tk[0] == "T" else 5          # T tol srid / H outer mode param srid
        head = tk[:nhead]
        g, end = parse_geom(tk, nhead)
        if end != len(tk):
            return case
    except Exception:
        return case
    def bad(gg):
        c, e = harness_replay(exe, " ".join(head) + " " + show_geom(gg), work)
        if c is None:
            return None
        return c if driver(stream, c).startswith("FAIL") else None
    best = case
    changed = True
    while changed and budget > 0:
        changed = False
        for v in geom_variants(g):
            if budget <= 0:
                break
            budget -= 1
            c = bad(v)
            if c:
                g, best, changed = v, c, True
                break
    return best


def oracle_fails(exe, case, work):
    c, e = harness_replay(exe, case, work)
    if c is None:
        return False
    return driver("dporacle", with_output(c, e)).startswith("FAIL")


def geom_kind(case):
    tk = case.split()
    return tk[3] if len(tk) > 3 else "?"


def run(ctx):
    ctx.base_trust([
        "C18 Douglas-Peucker model (lean/GeosModel/Model/Simplify/DP.lean) is hand-written from DouglasPeuckerLineSimplifier.cpp; "
        "the driver instantiates it with DP.cxxOps at Lean `Float` (hardware binary64; Model/Simplify/Dist.lean: Distance::pointToSegment over the arithmetic interface Cxx.Math); "
        "translator tie: Distance::pointToSegment / LineSegment::distance / the body of simplifySection are regenerated from the C++ (translate/cxx2lean.py, spec dp_simplify) and "
        "proved equal to that model for every carrier (Props/C18Gen.lean); the recursion as a whole and simplify()'s ring post-step are tied by the dp stream only",
        "the DP theorems assume `>`/`<=` form a total preorder on the distances (no NaN distance); the 2*tol ring bound assumes the "
        "triangle-inequality laws of point-segment distance (hypothesis TriLaws, shown satisfiable on an exact instance)",
        "polygons whose rough DP result is not certainly valid (rings in contact / crossing) are repaired by GEOS with buffer(0); "
        "for those the dp stream accepts GEOS's answer (counted in evidence as dp_gate_unsure)",
        "TPS / hull / coverage algorithms are not modelled: their outputs are checked against exact contract checkers whose meaning "
        "is proved (`*_check_sound`); TPS distance tolerance is checked in Float with the code's own distance function; "
        "hull target parameters and 'same union up to tolerance' of coverage simplification are not checked",
        "contract streams use contact-free valid inputs (generator filtered with GEOS's robust LineIntersector and re-checked exactly by the driver)",
        "models of index::VertexSequencePackedRtree (Model/Simplify/VertexIndex.lean) and simplify::ComponentJumpChecker (Model/Simplify/Jump.lean) are "
        "hand-written from the C++ and tied by the direct streams vsindex / jump only (no translator); ordinates of the index are order keys of the doubles "
        "(the class only compares); the jump stream assumes the C++ orientation index is exact on its inputs (C07); RingHull / TPVWSimplifier / "
        "TaggedLineStringSimplifier themselves (the callers of these cores) are not modelled",
    ])
    proved = ctx.prove_generated([("dp_simplify", "GeosModel/Generated/DPSimplify.lean", "GeosModel.Props.C18Gen")], PROPS, extra_targets=(DRV,))
    ok, out = verif.build_geos("rel")
    if not ok:
        ctx.violation("GEOS does not build with -DGEOS_VERIF", {"kind": "build-failure", "log": out[-3000:]}, nofail=True)
        return
    exe, out = verif.build_harness("c18")
    if not exe:
        ctx.violation("harness c18 does not compile against the current tree",
                      {"kind": "tie-broken", "correspondence": "harness/c18.cpp", "log": out[-3000:]}, nofail=True)
        return
    quick = ctx.tier == "quick"
    plan = (("dp", 60000 if quick else 600000),
            ("tps", 8000 if quick else 100000),
            ("hull", 6000 if quick else 100000),
            ("coverage", 2400 if quick else 30000),
            # direct streams against two small decision cores of the simplifiers (models: Model/Simplify/Jump.lean, VertexIndex.lean)
            ("jump", 24000 if quick else 300000),
            ("vsindex", 4000 if quick else 50000))
    corr = {}
    found_input = False
    for stream, n in plan:
        r = verif.run_stream(exe, stream, ctx.seed, n, ctx.work, shards=min(verif.NPROC, 8), driver_exe=DRV)
        corr[stream] = {"cases": r["cases"], "disagreements": len(r["disagreements"]) + r.get("more_disagreements", 0),
                        "distribution": r["stats"]}
        ctx.cov["samples"] += r.get("samples", [])[:1]
        if r["error"]:
            ctx.violation("correspondence stream %s could not run: %s" % (stream, r["error"]),
                          {"kind": "tie-broken", "correspondence": stream, "detail": r["error"]}, nofail=True)
            continue
        if stream == "dp":
            # how often the vertex-for-vertex comparison was really applied (sample of shard 0)
            try:
                with open(os.path.join(ctx.work, "dp.0.cases")) as f:
                    sample = [l.rstrip("\n") for l in f][:2000]
                rc, gate = verif.run_driver_lines("dpgate", sample, driver_exe=DRV)
                corr[stream]["gate_sample"] = {k: gate.count(k) for k in ("sure", "unsure", "ERR")}
            except Exception as ex:
                corr[stream]["gate_sample"] = "unavailable: %r" % (ex,)
        seen = []
        tie_only = []
        for idx, case, exp, got in r["disagreements"]:
            if stream == "dp":
                verdict = driver("dporacle", with_output(case, exp))
                sig0 = {"stream": "dp", "oracle": verdict.split(":")[-1] if verdict.startswith("FAIL") else verdict, "geom": geom_kind(case)}
                if verdict.startswith("FAIL"):
                    if sig0 in seen:
                        continue
                    seen.append(sig0)
                    c2 = shrink_dp(exe, case, ctx.work, lambda c: oracle_fails(exe, c, ctx.work))
                    d, e2, m2, c2f = dp_disagrees(exe, c2, ctx.work)
                    v2 = driver("dporacle", with_output(c2f, e2))
                    if not v2.startswith("FAIL"):            # shrinking lost the property failure: keep the original
                        c2f, e2, m2, v2 = case, exp, got, verdict
                    sig = {"stream": "dp", "oracle": v2.split(":")[-1], "geom": geom_kind(c2f)}
                    found_input = True
                    ctx.violation("GEOSSimplify_r result violates the property (%s): %s" % (v2, c2f[:300]),
                                  {"kind": "failing-input", "stream": "dp", "case": c2f, "impl": e2, "model": m2, "oracle": v2,
                                   "replay_cmd": "%s replay <file with the case line>" % exe, "signature": sig}, signature=sig)
                else:
                    tie_only.append((case, exp, got, verdict))
            elif stream in DIRECT:
                # model and implementation of a decision core differ; whether the property fails is for tps / hull / coverage to show
                if stream in seen:
                    continue
                seen.append(stream)
                ctx.violation("correspondence stream %s no longer checks: %s differs from its Lean model (%s) on %d generated inputs%s"
                              % (stream, DIRECT[stream][0], DIRECT[stream][1], corr[stream]["disagreements"],
                                 "; a failing input of the simplifiers was found by another stream" if found_input else
                                 "; the contract streams found no violated guarantee in this run"),
                              {"kind": "tie-broken", "correspondence": stream, "case": case, "impl": exp[:2000], "model": got[:2000],
                               "replay_cmd": "%s replay <file with the case line> ; %s %s < file" % (exe, verif.driver_path(DRV), stream)},
                              nofail=True)
            else:
                kind = got.split(":", 1)[1] if got.startswith("FAIL:") else got
                sig = {"stream": stream, "contract": kind}
                if sig in seen:
                    continue
                seen.append(sig)
                if got.startswith("FAIL"):
                    found_input = True
                    if stream in ("tps", "hull"):
                        small = shrink_contract(exe, stream, case, ctx.work)
                        g2 = driver(stream, small)
                        if g2.startswith("FAIL"):
                            case, got = small, g2
                            kind = got.split(":", 1)[1]
                            sig = {"stream": stream, "contract": kind}
                    ctx.violation("%s: output violates the contract (%s)" % (stream, kind),
                                  {"kind": "failing-input", "stream": stream, "case": case, "checker": got,
                                   "replay_cmd": "%s replay <file with the case line> | cut -f1 | %s %s" % (exe, verif.driver_path(DRV), stream),
                                   "signature": sig}, signature=sig)
                elif got == "bad-input":
                    # the exact checker found the GENERATED input outside the contract's precondition (not strictly valid: two tiny rings of
                    # an arbitrary-double archipelago touch or overlap): the property says nothing about it.  Rare by construction; counted,
                    # and an alarm only if the generator has degenerated (more than 1 % of the stream)
                    nbad = sum(1 for d_ in r["disagreements"] if d_[3] == "bad-input") + (r.get("more_disagreements", 0) if len(r["disagreements"]) >= 50 else 0)
                    corr[stream]["generated_inputs_outside_precondition"] = nbad
                    if nbad > max(5, r["cases"] // 100):
                        ctx.violation("%s: %d of %d generated inputs are outside the precondition of the contract (generator degenerated)" % (stream, nbad, r["cases"]),
                                      {"kind": "tie-broken", "correspondence": stream, "case": case, "checker": got}, nofail=True)
                else:
                    ctx.violation("%s: the driver could not judge a generated case (%s)" % (stream, got),
                                  {"kind": "tie-broken", "correspondence": stream, "case": case, "checker": got}, nofail=True)
        if tie_only:
            # the implementation no longer agrees with the model but the property held on every disagreeing input:
            # search harder with the oracle alone on the whole stream output
            fails = oracle_sweep(ctx, stream)
            if fails:
                case, exp, verdict = fails[0]
                c2 = shrink_dp(exe, case, ctx.work, lambda c: oracle_fails(exe, c, ctx.work))
                c2f, e2 = harness_replay(exe, c2, ctx.work)
                v2 = driver("dporacle", with_output(c2f, e2)) if c2f else ""
                if not v2.startswith("FAIL"):
                    c2f, e2, v2 = with_output(case, exp), exp, verdict
                sig = {"stream": "dp", "oracle": v2.split(":")[-1], "geom": geom_kind(c2f)}
                found_input = True
                ctx.violation("GEOSSimplify_r result violates the property (%s): %s" % (v2, c2f[:300]),
                              {"kind": "failing-input", "stream": "dp", "case": c2f, "impl": e2, "model": driver("dp", c2f), "oracle": v2,
                               "replay_cmd": "%s replay <file with the case line>" % exe, "signature": sig}, signature=sig)
            else:
                case, exp, got, verdict = tie_only[0]
                c2 = shrink_dp(exe, case, ctx.work)
                d, e2, m2, c2f = dp_disagrees(exe, c2, ctx.work)
                if not d:
                    c2f, e2, m2 = case, exp, got
                ctx.violation("correspondence stream dp no longer checks: GEOSSimplify_r differs from the Douglas-Peucker model on %d "
                              "generated inputs (the property-level oracle found no violated guarantee among %d results)"
                              % (len(tie_only), corr[stream]["cases"]),
                              {"kind": "tie-broken", "correspondence": "dp", "case": c2f, "impl": e2, "model": m2, "oracle": verdict},
                              nofail=True)
    ctx.cov["support_correspondence"] = corr
    if not proved:
        lf = getattr(ctx, "lean_failure", None) or {}
        ctx.violation("Lean obligations for C18 no longer check: " + "; ".join(str(i) for i in lf.get("items", [])[:5])
                      + (" (a failing input was also found)" if found_input else ""),
                      {"kind": "proof-broken", "lean": lf}, nofail=True)


def oracle_sweep(ctx, stream):
    """run the property oracle over every (case, implementation result) of the dp stream still on disk"""
    fails = []
    k = 0
    while True:
        base = os.path.join(ctx.work, "%s.%d" % (stream, k))
        if not os.path.exists(base + ".cases"):
            break
        with open(base + ".cases") as fc, open(base + ".expect") as fe:
            cases = [l.rstrip("\n") for l in fc]
            exps = [l.rstrip("\n") for l in fe]
        lines = [with_output(c, e) for c, e in zip(cases, exps)]
        rc, got = verif.run_driver_lines("dporacle", lines, driver_exe=DRV, timeout=1200)
        for c, e, g in zip(cases, exps, got):
            if g.startswith("FAIL"):
                fails.append((c, e, g))
        k += 1
    ctx.cov["support_search"] = {"oracle": "dporacle", "results_checked": sum(1 for _ in range(k)), "failures": len(fails)}
    return fails


def replay(ctx, path):
    r = json.load(open(path))
    ok, out = verif.build_geos("rel")
    exe, out = verif.build_harness("c18")
    verif.lake_build([DRV])
    case = r.get("case")
    if not case or not exe:
        print("replay file has no case line (kind=%s)" % r.get("kind"))
        return 1 if r.get("kind") != "failing-input" else 2
    stream = {"D": "dp", "T": "tps", "H": "hull", "C": "coverage", "J": "jump", "V": "vsindex"}.get(case.split()[0], "dp")
    os.makedirs(ctx.work, exist_ok=True)
    c, e = harness_replay(exe, case, ctx.work)
    print("case :", (c or case)[:2000])
    print("impl :", e[:2000])
    if c is None:
        print("VIOLATION property=C18 replay=%s" % path)
        return 1
    if stream == "dp":
        m = driver("dp", c)
        v = driver("dporacle", with_output(c, e))
        print("model:", m[:2000])
        print("property oracle:", v)
        bad = v.startswith("FAIL") or (m != e and r.get("kind") == "tie-broken")
    elif stream in DIRECT:
        m = driver(stream, c)
        print("model:", m[:2000])
        bad = m != e
    else:
        m = driver(stream, c)
        print("contract checker:", m)
        bad = m != "ok"
    if bad:
        print("VIOLATION property=C18 replay=%s" % path)
        return 1
    return 0
