"""C01 — relate matrix and named predicates equal the exact DE-9IM on grid inputs.

proof : lean/GeosModel/Props/C01.lean — predicate layer (named predicates = their DE-9IM patterns,
        determined_stable, early_exit_eq_final, basic_*_final, envelope_exit_sound, exterior_check_irrelevant_*) for all matrices /
        event sequences.
transl: translate/im_preds.py -> Generated/IMPreds.lean -> Props/C01Gen.lean (geom::IntersectionMatrix predicates);
        translate/cxx2lean.py spec relate_pred -> Generated/RelatePred.lean -> Props/C01GenPred.lean (the predicate classes of RelateNG,
        their requirement flags and RelateNG::hasRequiredEnvelopeInteraction), regenerated from the current source on every run.
tie   : (1b) stream immatrix — the real geom::IntersectionMatrix (isXxx, matches, transpose) and GEOSRelatePatternMatch_r on random
            matrices / dimensions / patterns vs Base/IM, the object of the named_*_eq_pattern theorems
        (1) stream pred-sm  — the REAL RelatePredicate classes are driven with random event sequences and
            compared step by step with the Lean state machine;
        (1c) stream prep-core — the REAL prepared-polygon fast-path classes (contains / covers / containsProperly / intersects and the
            PreparedPolygon wrappers) against the decision core of Model/Relate/PrepPoly.lean (theorems Props/C01Prep.lean) on facts
            computed exactly on the lattice by the harness; a difference is re-examined with the exact reference matrix;
        (2) stream relate-grid — generated valid grid pairs through every relate path of the C API; the
            driver evaluates the independent exact reference matrix (Model/Relate/Ref.lean) and what the
            proved definitions assign to it.  A difference *is* a violation of C01 (impl != exact DE-9IM).
Known defects of RelateNG are matched by structural signatures against KNOWN_FINDINGS.json."""
import os, sys, json, glob
import verif, gtok
from verif import log

LEVEL = "proof"
PROPS = ["GeosModel.Props.C01", "GeosModel.Props.C01Prep"]
DRV = "drv_c01"
ENTRY = ["II", "IB", "IE", "BI", "BB", "BE", "EI", "EB", "EE"]


def split_case(case):
    parts = case.split(" | ")
    return parts[1], parts[2], (parts[3] if len(parts) > 3 else "")


def evaluate(exe, a, b, pats=""):
    """re-observe A|B in GEOS and ask the driver; returns (verdict line, observation) or (None, 'invalid')"""
    p = os.path.join(verif.BUILD, "work", "c01-replay-%d.txt" % os.getpid())
    with open(p, "w") as f:
        f.write("R | %s | %s | pat=%s\n" % (a, b, pats))
    rc, out = verif.sh([exe, "replay", p], timeout=120)
    line = out.strip().split("\n")[-1] if out.strip() else ""
    if rc != 0:
        return "crash rc=%d" % rc, line
    if not line.startswith("R |"):
        return None, "invalid"
    rc2, lines = verif.run_driver_lines("relate-grid", [line], driver_exe=DRV)
    return (lines[0] if lines else "driver-error"), line


def kind_of(verdict):
    """bad <key> impl=.. ref=.. -> (class, detail)"""
    t = verdict.split()
    if len(t) < 2 or t[0] != "bad":
        return verdict.split()[0] if verdict else "?", ""
    key = t[1]
    impl = ref = ""
    for x in t[2:]:
        if x.startswith("impl="): impl = x[5:]
        if x.startswith("ref="): ref = x[4:]
    if key in ("m", "m1", "m2", "m3", "m4", "pm", "mt"):
        ent = [ENTRY[i] for i in range(min(len(impl), len(ref), 9)) if impl[i] != ref[i]]
        if key == "mt":
            ent = sorted(e[::-1] for e in ent)     # report in the orientation of the transposed call
            return "matrix-swapped", ",".join(ent)
        cls = "matrix" if key in ("m", "m1", "pm") else "matrix-bnrule"
        if key == "pm": cls = "matrix-prepared"
        return cls, ",".join(ent)
    if key in ("P", "Q", "P-both-empty"):
        names = ["intersects", "disjoint", "touches", "crosses", "within", "contains", "overlaps", "equals", "covers", "coveredBy"]
        if key == "Q":
            names = ["intersects", "disjoint", "touches", "crosses", "within", "contains", "overlaps", "covers", "coveredBy", "containsProperly"]
        d = [names[i] for i in range(min(len(impl), len(ref), len(names))) if impl[i] != ref[i]]
        return ("pred" if key != "Q" else "pred-prepared"), ",".join(d)
    if key.startswith("pat"):
        return "pattern", ""
    return key, ""


def signature(a, b, verdict):
    """Structural key of a failing pair, used to match KNOWN_FINDINGS.json.
    class  : 'matrix' (some relate matrix differs from the exact one) | 'pred' (matrices agree, a named/prepared
             predicate or pattern match differs) | 'crash'
    gc     : a GeometryCollection is involved (RelateNG's union semantics for collections is a family of its own)
    collinearOverlap (gc = false): a segment of A and a segment of B overlap collinearly (exact test by the driver)
    emptyElem (class pred): an empty element is present in a collection"""
    cls, detail = kind_of(verdict)
    fa, fb = gtok.features(a), gtok.features(b)
    ovl = "?"
    for x in verdict.split():
        if x.startswith("ovl="): ovl = x[4:]
    gc = fa["gc"] or fb["gc"]
    coarse = "matrix" if cls.startswith("matrix") else ("pred" if cls in ("pred", "pred-prepared", "pattern") else cls)
    mixed = False
    if gc and coarse == "matrix":
        # The recorded family "RelateNG deviates from its union semantics for collections" needs a collection whose elements share
        # points.  A collection of pairwise disjoint elements is not in that family: it is keyed like a non-collection, plus — for
        # mixed-dimension collections, which have defects of their own — the matrix entries that differ (A's row letter first).
        if not (gtok.gc_self_interaction(a) or gtok.gc_self_interaction(b)):
            gc = False
            mixed = fa["mixedDim"] or fb["mixedDim"]
    sig = {"class": coarse, "gc": gc}
    if mixed:
        sig["mixedDimCollection"] = True
        sig["entries"] = detail
        # dimension of the operand that is NOT the mixed collection (the recorded defect needs a LINE whose ends sit on point elements)
        dims = "?"
        for x in verdict.split():
            if x.startswith("dims="): dims = x[5:]
        dd = dims.split(",")
        if fa["mixedDim"] and not fb["mixedDim"] and len(dd) == 2:
            sig["otherDim"] = dd[1]
        elif fb["mixedDim"] and not fa["mixedDim"] and len(dd) == 2:
            sig["otherDim"] = dd[0]
        else:
            sig["otherDim"] = "both"
    if coarse == "pred":
        sig["emptyElem"] = fa["emptyElem"] or fb["emptyElem"]
    if not gc:
        sig["collinearOverlap"] = (ovl == "1")
    return sig


def shrink(exe, a, b, verdict, pats):
    cls0 = kind_of(verdict)[0]
    best = (a, b, verdict)
    progress = True
    rounds = 0
    while progress and rounds < 6:
        progress = False
        rounds += 1
        for which in (0, 1):
            cur = best[which]
            for cand in gtok.shrink_candidates(cur):
                na, nb = (cand, best[1]) if which == 0 else (best[0], cand)
                v, _ = evaluate(exe, na, nb, pats)
                if v and v.startswith("bad") and kind_of(v)[0] == cls0:
                    best = (na, nb, v)
                    progress = True
                    break
            if progress:
                break
    return best


def run(ctx):
    ctx.base_trust([
        "the reference matrix GeosModel.Relate.refIM (exact arrangement sampling, Model/Relate/Ref.lean) is taken as the DEFINITION of the true DE-9IM; "
        "it is not proved equal to the point-set definition (would need Jordan-curve-level topology); it is independent of RelateNG's method and was cross-checked against the old RelateOp on disagreements",
        "collections use the union semantics documented in RelatePointLocator.h (area over line over point; faces decide interior/boundary)",
        "validity of generated inputs is filtered with GEOSisValid (a wrong 'valid' verdict could let an invalid input through)",
        "the geometric engine of RelateNG is not modelled: it is tied only by the relate-grid correspondence",
    ])
    # ---- translator: the IntersectionMatrix predicates are regenerated from the current source; Props/C01Gen proves them equal
    # to the model of Base/IM for all arguments
    sys.path.insert(0, os.path.join(verif.ROOT, "translate"))
    import im_preds
    props = list(PROPS)
    gen_ok = True
    try:
        im_preds.generate(verif.REPO, os.path.join(verif.ROOT, "lean", "GeosModel", "Generated", "IMPreds.lean"))
        props.append("GeosModel.Props.C01Gen")
    except (im_preds.Refuse, OSError) as ex:
        gen_ok = False
        ctx.violation("translate/im_preds.py refuses the current src/geom/IntersectionMatrix.cpp: %s (the generated model is stale; the `immatrix` "
                      "correspondence stream below still compares the compiled predicates with the model)" % ex,
                      {"kind": "tie-broken", "translator": "im_preds.py", "detail": str(ex)}, nofail=True)
    # the predicate layer of RelateNG (BasicPredicate / IMPredicate / the ten RelatePredicate classes / RelateMatrixPredicate / IMPatternMatcher /
    # RelateNG::hasRequiredEnvelopeInteraction) is regenerated by translate/cxx2lean.py (spec relate_pred); Props/C01GenPred proves every
    # regenerated function equal to the state machine of Model/Relate/Pred.lean + Model/Relate/EnvExit.lean for all arguments
    proved = ctx.prove_generated([("relate_pred", "GeosModel/Generated/RelatePred.lean", "GeosModel.Props.C01GenPred")], props, extra_targets=(DRV,))
    impreds = os.path.join(verif.ROOT, "lean", "GeosModel", "Generated", "IMPreds.lean")
    ctx.cov["translator"]["im_preds"] = {"generated": "GeosModel/Generated/IMPreds.lean", "bridge": "GeosModel.Props.C01Gen", "translator": "translate/im_preds.py",
                                         **({"functions": sum(1 for l in open(impreds) if l.startswith("def "))} if gen_ok else {"refused": True})}
    gen_diffs = []
    if gen_ok and not proved:
        # a gen_*_eq obligation may be what broke: enumerate the whole finite domain for a distinguishing argument
        okb, outb = verif.lake_build(["drv_c01gen"])
        if okb:
            rcg, outg = verif.sh([verif.driver_path("drv_c01gen")], timeout=600)
            gen_diffs = [l for l in outg.split("\n") if l.startswith("DIFF ")]
        ctx.cov["generated_vs_model_scan"] = {"built": bool(okb), "differences": gen_diffs[:12]}
    ok, out = verif.build_geos("rel")
    if not ok:
        ctx.violation("GEOS does not build with -DGEOS_VERIF", {"kind": "build-failure", "log": out[-3000:]}, nofail=True)
        return
    exe, out = verif.build_harness("c01")
    if not exe:
        ctx.violation("harness c01 does not compile against the current tree", {"kind": "tie-broken", "correspondence": "harness/c01.cpp", "log": out[-3000:]}, nofail=True)
        return
    quick = ctx.tier == "quick"
    corr = {}
    found_input = False
    for dl in gen_diffs[:6]:
        # the regenerated code disagrees with the DE-9IM definition at this argument: run the compiled implementation there
        kv = dict(t.split("=", 1) for t in dl.split()[2:] if "=" in t)
        mtx = kv.get("matrix", "FFFFFFFF2"); da = kv.get("dimA", "2"); db = kv.get("dimB", "2")
        pat = "T********" if "symbol" not in kv else (kv["symbol"] * 9)
        if "value" in kv:      # matches(int, char): reach it through matches(pattern) on a matrix holding that value
            v = int(kv["value"]); mtx = ({-1: "F", 0: "0", 1: "1", 2: "2"}.get(v, "F")) * 9
        rc, out = verif.sh([exe, "imcase", mtx, da, db, pat], timeout=60)
        lines = out.strip().split("\n")
        rc2, ans = verif.run_driver_lines("immatrix", lines[:1], driver_exe=DRV) if len(lines) >= 2 else (1, [])
        differs = len(lines) >= 2 and ans and ans[0] != lines[1]
        if differs:
            found_input = True
        ctx.violation("IntersectionMatrix.cpp no longer equals the DE-9IM definition (Props/C01Gen): %s%s" % (dl, " — confirmed on the compiled library" if differs else ""),
                      {"kind": "failing-input" if differs else "tie-broken", "stream": "impreds", "difference": dl,
                       "case": lines[0] if lines else None, "impl": lines[1] if len(lines) > 1 else None, "definition": ans[0] if ans else None,
                       "replay_cmd": "%s imcase %s %s %s %s" % (exe, mtx, da, db, pat)}, nofail=not differs, signature={"class": "impreds", "fn": dl.split()[1]})

    # ---- (1) predicate layer: real classes vs the Lean state machine
    r = verif.run_stream(exe, "pred-sm", ctx.seed, 200000 if quick else 4000000, ctx.work, shards=8, driver_exe=DRV)
    corr["pred-sm"] = {"cases": r["cases"], "disagreements": len(r["disagreements"]) + r.get("more_disagreements", 0), "distribution": r["stats"]}
    ctx.cov["samples"] += r.get("samples", [])[:1]
    if r["error"]:
        ctx.violation("stream pred-sm could not run: " + r["error"], {"kind": "tie-broken", "correspondence": "pred-sm", "detail": r["error"]}, nofail=True)
    else:
        seen_final = seen_mid = seen_flags = False
        for idx, case, exp, got in r["disagreements"]:
            if exp.split(" ")[0] != got.split(" ")[0] and not seen_flags:
                seen_flags = True
                ctx.violation("requirement flags of a predicate class differ from the model (Model/Relate/EnvExit.lean): impl %s, model %s"
                              % (exp.split(" ")[0], got.split(" ")[0]),
                              {"kind": "tie-broken", "correspondence": "pred-sm", "case": case, "impl": exp, "model": got,
                               "note": "flags = requireCovers(A) requireCovers(B) requireExteriorCheck(A) requireExteriorCheck(B) requireInteraction; "
                                       "envelope_exit_sound / exterior_check_irrelevant_* are proved for the model's flags"}, nofail=True)
            if exp.split(" ")[1:] == got.split(" ")[1:]:
                continue
            if exp[-1:] != got[-1:] and not seen_final:
                seen_final = True
                found_input = True
                ctx.violation("predicate class ends with a value different from the DE-9IM definition on the matrix its events build",
                              {"kind": "failing-input", "stream": "pred-sm", "case": case, "impl_trace": exp, "model_trace": got,
                               "note": "flags, then trace = value after init(dims), init(envs), each updateDimension, finish (u/t/f)"})
            elif exp[-1:] == got[-1:] and not seen_mid:
                seen_mid = True
                ctx.violation("predicate state machine differs from the model at an intermediate step (final value agrees)",
                              {"kind": "tie-broken", "correspondence": "pred-sm", "case": case, "impl_trace": exp, "model_trace": got}, nofail=True)

    # ---- (1b) geom::IntersectionMatrix (isXxx, matches, transpose) and GEOSRelatePatternMatch_r vs the IM model of the theorems
    r = verif.run_stream(exe, "immatrix", ctx.seed, 150000 if quick else 3000000, ctx.work, shards=8, driver_exe=DRV)
    corr["immatrix"] = {"cases": r["cases"], "disagreements": len(r["disagreements"]) + r.get("more_disagreements", 0), "distribution": r["stats"]}
    if r["error"]:
        ctx.violation("stream immatrix could not run: " + r["error"], {"kind": "tie-broken", "correspondence": "immatrix", "detail": r["error"]}, nofail=True)
    elif r["disagreements"]:
        idx, case, exp, got = r["disagreements"][0]
        found_input = True
        # the model side is the DE-9IM definition (named_*_eq_pattern, transpose algebra): a different answer is a wrong answer
        ctx.violation("IntersectionMatrix / GEOSRelatePatternMatch answer differs from the DE-9IM definition: impl %s, definition %s" % (exp, got),
                      {"kind": "failing-input", "stream": "immatrix", "case": case, "impl": exp, "model": got,
                       "fields": "M <matrix> <dimA> <dimB> <pattern> -> disjoint intersects touches crosses within contains equals overlaps covers coveredBy | matches capiMatch | transpose"},
                      signature={"class": "immatrix"})

    # ---- (1c) the decision core of the prepared-polygon fast paths (PreparedPolygonContains / Covers / ContainsProperly / Intersects and the
    # PreparedPolygon wrappers) vs Model/Relate/PrepPoly.lean on facts computed exactly on the lattice (theorems: Props/C01Prep.lean)
    r = verif.run_stream(exe, "prep-core", ctx.seed, 80000 if quick else 2000000, ctx.work, shards=8, driver_exe=DRV)
    corr["prep-core"] = {"cases": r["cases"], "disagreements": len(r["disagreements"]) + r.get("more_disagreements", 0), "distribution": r["stats"]}
    ctx.cov["samples"] += r.get("samples", [])[:1]
    if r["error"]:
        ctx.violation("stream prep-core could not run: " + r["error"], {"kind": "tie-broken", "correspondence": "prep-core", "detail": r["error"]}, nofail=True)
    else:
        names8 = ["PreparedPolygonContains", "PreparedPolygonCovers", "PreparedPolygonContainsProperly", "PreparedPolygonIntersects", None,
                  "PreparedPolygon::contains", "PreparedPolygon::covers", "PreparedPolygon::containsProperly", "PreparedPolygon::intersects"]
        seen_pc = []
        for idx, case, exp, got in sorted(r["disagreements"], key=lambda d: len(d[1])):
            which = [names8[i] for i in range(min(len(exp), len(got), 9)) if exp[i] != got[i] and names8[i]] or ["format"]
            if which in seen_pc or len(seen_pc) >= 4:
                continue
            seen_pc.append(which)
            a, b, obs = split_case(case)
            # is the pair a failing input of the property itself?  ask the exact reference (relate-grid path) about the prepared answers
            v, _ = evaluate(exe, a, b)
            confirmed = bool(v) and v.startswith("bad") and kind_of(v)[0] == "pred-prepared"
            if confirmed:
                found_input = True
            ctx.violation("prepared-polygon fast path answers %s, the decision core of Model/Relate/PrepPoly.lean on the exact lattice facts answers %s (%s differ)%s"
                          % (exp, got, ", ".join(which), ": the prepared predicates differ from the exact DE-9IM of this pair (%s)" % v if confirmed else ""),
                          {"kind": "failing-input" if confirmed else "tie-broken", "stream": "prep-core", "correspondence": "prep-core", "case": case, "impl": exp, "model": got,
                           "A": a, "B": b, "A_wkt": gtok.wkt(a), "B_wkt": gtok.wkt(b), "reference_verdict": v,
                           "fields": "K | target | test | tl=test component locations in the target, si/pr/np=segment intersection (any/proper/non-proper), rl=locations of the "
                                     "target's ring points in the test area, fc/fv=full contains/covers, pie/pu/d2/pg/ss/n=shape facts, ec/ei=envelope covers/intersects; "
                                     "answers: contains covers containsProperly intersects of the four classes, then of the PreparedPolygon wrappers"},
                          nofail=not confirmed, signature={"class": "prep-core", "answers": "+".join(which)})

    # ---- (2) whole-engine correspondence against the exact reference matrix
    n = 16000 if quick else 600000
    r = verif.run_stream(exe, "relate-grid", ctx.seed, n, ctx.work, shards=8, driver_exe=DRV, timeout=6000)
    corr["relate-grid"] = {"cases": r["cases"], "disagreements": len(r["disagreements"]) + r.get("more_disagreements", 0),
                           "distribution": {k: v for k, v in r["stats"].items() if not k.startswith("matrix_")},
                           "distinct_matrices": sum(1 for k in r["stats"] if k.startswith("matrix_"))}
    ctx.cov["samples"] += r.get("samples", [])[:2]
    if r["error"]:
        # a crash of the harness is a result: the input being processed is in <outbase>.current
        cur = sorted(glob.glob(os.path.join(ctx.work, "relate-grid.*.current")))
        crashed = None
        for c in cur:
            line = open(c).read().strip()
            if line:
                a, b, _ = split_case(line + " x")
                v, _ = evaluate(exe, a, b)
                if v and v.startswith("crash"):
                    crashed = (a, b, v)
                    break
        if crashed:
            found_input = True
            a, b, v = crashed
            ctx.violation("relate crashes on a valid grid pair (%s)" % v,
                          {"kind": "failing-input", "stream": "relate-grid", "A": a, "B": b, "A_wkt": gtok.wkt(a), "B_wkt": gtok.wkt(b), "result": v},
                          signature={"class": "crash"})
        else:
            ctx.violation("stream relate-grid could not run: " + r["error"], {"kind": "tie-broken", "correspondence": "relate-grid", "detail": r["error"]}, nofail=True)
    skipped = 0
    seen = []
    shrunk = 0
    for idx, case, exp, got in r["disagreements"]:
        if got.startswith("skip"):
            skipped += 1
            continue
        a, b, obs = split_case(case)
        pats = ""
        k = obs.find("pat=")
        if k >= 0:
            pats = ",".join(t[:9] for t in obs[k + 4:].split(","))
        sig0 = signature(a, b, got)
        if sig0 in seen:
            continue
        seen.append(sig0)
        if shrunk < 8:
            a, b, got = shrink(exe, a, b, got, pats)
            shrunk += 1
        sig = signature(a, b, got)
        if sig != sig0 and sig in seen:
            continue
        seen.append(sig)
        # (a pair matching a KNOWN finding is not recorded and is not a failing input for a broken proof / tie)
        if ctx.violation("relate differs from the exact DE-9IM: %s  [%s]" % (got, json.dumps(sig, sort_keys=True)),
                         {"kind": "failing-input", "stream": "relate-grid", "A": a, "B": b, "A_wkt": gtok.wkt(a), "B_wkt": gtok.wkt(b),
                          "verdict": got, "signature": sig}, signature=sig):
            found_input = True
    corr["relate-grid"]["skipped"] = skipped
    # ---- (3) the oracle itself against the expected matrices written by hand in the repository's XML suites
    rc, out = verif.sh([os.path.join(verif.ROOT, "bin", "xmlrelate-crosscheck")], timeout=1800)
    try:
        xr = json.load(open(os.path.join(verif.BUILD, "work", "xmlrelate.json")))
    except Exception:
        xr = {"error": out[-500:]}
    corr["oracle-vs-xml-suites"] = xr
    if rc != 0:
        ctx.violation("the reference oracle disagrees with a hand-written expected matrix of tests/xmltester (or the cross-check could not run)",
                      {"kind": "tie-broken", "correspondence": "oracle-vs-xml-suites", "output": out[-3000:]}, nofail=True)
    ctx.cov["support_correspondence"] = corr
    if not proved:
        lf = getattr(ctx, "lean_failure", None) or {}
        ctx.violation("Lean obligations for C01 no longer check: " + "; ".join(str(i) for i in lf.get("items", [])[:5]),
                      {"kind": "proof-broken", "lean": lf}, nofail=not found_input)


def replay(ctx, path):
    r = json.load(open(path))
    verif.build_geos("rel")
    exe, _ = verif.build_harness("c01")
    verif.lake_build([DRV])
    if "wkt_pairs" in r:          # known-finding replays: list of [wktA, wktB]
        rc = 0
        for wa, wb in r["wkt_pairs"]:
            pth = os.path.join(verif.BUILD, "work", "c01-wkt-%d.txt" % os.getpid())
            open(pth, "w").write("W | %s | %s\n" % (wa, wb))
            _, out = verif.sh([exe, "replay", pth], timeout=60)
            line = out.strip().split("\n")[-1]
            _, lines = verif.run_driver_lines("relate-grid", [line], driver_exe=DRV)
            print("A:", wa); print("B:", wb); print("verdict:", lines[0] if lines else "?")
            if not lines or lines[0] != "ok":
                rc = 1
        if rc:
            print("VIOLATION property=C01 replay=%s" % path)
        return rc
    if "A" in r:
        v, obs = evaluate(exe, r["A"], r["B"])
        print("A:", r.get("A_wkt")); print("B:", r.get("B_wkt")); print("verdict:", v)
        if v != "ok":
            print("VIOLATION property=C01 replay=%s" % path)
            return 1
    return 0
