"""C07 — robust planar predicates: orientation index, point-in-ring, segment/segment intersection, ring orientation.

proof   : lean/GeosModel/Props/C07.lean (the ported filter + double-double orientation, ray-crossing counter,
          computeIntersect and isCCW models equal the exact integer specifications on the 2^25 grid)
tie     : translator — translate/cxx2lean.py (spec kernel_c07) regenerates lean/GeosModel/Generated/KernelC07.lean from the
          current text of countSegment / getLocation / isPointInPolygon, the loops of locatePointInRing / isOnLine /
          locatePointInSurface, Envelope::intersects, isOnSegment, Orientation::index,
          orientationIndexFilter, DD::selfAdd / selfMultiply / operators, OrientationDD, CGAlgorithmsDD::orientationIndex,
          computeIntersect / computeCollinearIntersection; lean/GeosModel/Props/C07Gen.lean proves each equal to the
          hand-written model the theorems are about (every run);
          model — Model/Kernel/PointLocator.lean ports the general-purpose algorithm::PointLocator (point / line / polygon ring /
          polygon / collection walk with the Mod-2 rule); Props/C07.lean proves it equal to the specification; streams poly, ring
          (PointLocator token) and ploc (any geometry tree) tie it to the compiled class;
          correspondence — harness/c07.cpp runs generated lattice inputs (n * 2^k, |n| <= 2^25) through the real
          functions (C++ API and C API) and `drv_c07` answers with the exact specification; an extra stream feeds
          arbitrary finite doubles to the orientation predicate and is answered by the bit-level model.
On the grid streams the driver's answer *is* the specification, so a differing token there is a concrete failing
input for the property; on `orientarb` an index difference is first checked against the exact sign."""
import os, json
import verif
from verif import log

LEVEL = "proof"
PROPS = ["GeosModel.Props.C07"]
DRV = "drv_c07"
GENS = [("kernel_c07", "GeosModel/Generated/KernelC07.lean", "GeosModel.Props.C07Gen")]

QUICK = [("orient", 400000), ("orientarb", 150000), ("orientf", 50000), ("ring", 200000), ("poly", 150000), ("ploc", 150000), ("segseg", 250000), ("ccw", 100000)]
# thorough: ~75x quick; measured ~8 us/line (orient), ~25 us/line (orientarb), ~12 us/line (ring), ~7 us/line (segseg),
# ~10 us/line (ccw) on 8 shards of an idle 16-core machine => about 11-13 min in total
THOROUGH = [("orient", 30000000), ("orientarb", 6000000), ("orientf", 1000000), ("ring", 10000000), ("poly", 6000000), ("ploc", 5000000), ("segseg", 16000000), ("ccw", 5000000)]
CHUNK = 4000000          # lines per run_stream call (bounds disk and memory in the thorough tier)
MAX_PER_STREAM = 3       # violations reported per stream

ORIENT_TOK = ["index", "swap", "capi", "fs", "as"]
ORIENT_WHAT = {
    "index": "Orientation::index(A,B,P) is not the sign of the exact determinant",
    "swap": "Orientation::index(B,A,P) is not minus the sign of the exact determinant",
    "capi": "GEOSOrientationIndex_r differs from the sign of the exact determinant",
    "fs": "orientationIndexFilter answered (did not defer) with a wrong sign: the filter is unsound",
    "as": "antisymmetry broken: Orientation::index(B,A,P) != -Orientation::index(A,B,P)",
    "model": "driver line has unexpected shape",
}


def first_diff(exp, got):
    e, g = exp.split(), got.split()
    for i in range(max(len(e), len(g))):
        a = e[i] if i < len(e) else ""
        b = g[i] if i < len(g) else ""
        if a != b:
            return i, a, b
    return -1, "", ""


def seg_class(i, a, b):
    t = a or b
    for pre, cls in (("in:", "in"), ("close:", "close"), ("c:", "capi"), ("cp:", "capi")):
        if a.startswith(pre) or b.startswith(pre):
            return cls
    if i == 0:
        return "code"
    if i == 1:
        return "proper"
    if t.startswith("MODEL"):
        return "model"
    return "point"


def replay_pair(exe, stream, case):
    """(regenerated case line, implementation expect line, driver line) for one case line"""
    p = os.path.join(verif.BUILD, "work", "c07-replay-%d.txt" % os.getpid())
    os.makedirs(os.path.dirname(p), exist_ok=True)
    with open(p, "w") as f:
        f.write(case + "\n")
    rc, out = verif.sh([exe, "replay", stream, p], timeout=120)
    lines = [l for l in out.split("\n") if l.strip()]
    if rc != 0 or len(lines) < 2:
        return case, "harness-replay-failed rc=%d" % rc, ""
    regen, impl = lines[-2], lines[-1]
    rc2, glines = verif.run_driver_lines(stream, [regen], driver_exe=DRV)
    spec = glines[0] if glines else ""
    return regen, impl, spec


# ---------------------------------------------------------------------------- shrinking (ring / ccw)

def parse_ring_case(case):
    tk = case.split()
    if tk[0] == "R":
        n = int(tk[2])
        head, pt, co = tk[:2], tk[3:5], tk[5:]
    else:
        n = int(tk[2])
        head, pt, co = tk[:2], [], tk[3:]
    verts = [(co[2 * i], co[2 * i + 1]) for i in range(n)]
    return head, pt, verts


def make_ring_case(head, pt, verts):
    return " ".join(head + [str(len(verts))] + pt + [c for v in verts for c in v])


def shrink_ring(exe, stream, case, idx):
    """drop interior vertices while the same token keeps differing; the ring stays closed.  The ring is
    relabelled simple=0 (dropping vertices may destroy simplicity), so only tokens valid for any ring are shrunk."""
    limit = 4 if stream == "ring" else 2
    if idx < 0 or idx >= limit:
        return None
    try:
        head, pt, verts = parse_ring_case(case)
    except Exception:
        return None
    if len(verts) > 64:
        return None
    head = [head[0], "0"]
    c0 = make_ring_case(head, pt, verts)
    regen, impl, spec = replay_pair(exe, stream, c0)
    if first_diff(impl, spec)[0] != idx:
        return None
    best = (regen, impl, spec)
    changed = True
    while changed and len(verts) > 2:
        changed = False
        for i in range(len(verts) - 2, 0, -1):
            cand = verts[:i] + verts[i + 1:]
            regen, impl, spec = replay_pair(exe, stream, make_ring_case(head, pt, cand))
            if first_diff(impl, spec)[0] == idx:
                verts, best, changed = cand, (regen, impl, spec), True
    return best


# ---------------------------------------------------------------------------- per-stream disagreement handling

def tie_problem(ctx, stream, case, exp, got, why):
    ctx.violation("C07 correspondence stream %s no longer checks: %s" % (stream, why),
                  {"kind": "tie-broken", "correspondence": stream, "case": case, "impl": exp, "model": got, "detail": why},
                  nofail=True)


def failing(ctx, exe, stream, what, case, exp, got, sig):
    ctx.violation(what + " (" + json.dumps(sig, sort_keys=True) + ")",
                  {"kind": "failing-input", "stream": stream, "case": case, "impl": exp, "spec": got,
                   "replay_cmd": "%s replay %s <file with case line>  |  %s %s < <file with the regenerated case line>"
                                 % (exe, stream, verif.driver_path(DRV), stream),
                   "signature": sig}, signature=sig)


def handle_orient(ctx, exe, disagreements):
    seen, found = [], False
    for idx, case, exp, got in disagreements:
        if len(seen) >= MAX_PER_STREAM:
            break
        if "MODEL-DIFFERS-FROM-SPEC" in got or "NOT-ON-GRID" in got or len(got.split()) < 5:
            if "tie" not in seen:
                seen.append("tie")
                why = "driver reports MODEL-DIFFERS-FROM-SPEC" if "MODEL" in got else \
                      "generator left the 2^25 grid (NOT-ON-GRID)" if "NOT-ON-GRID" in got else "driver could not evaluate the case (%s)" % got
                tie_problem(ctx, "orient", case, exp, got, why)
            continue
        i, a, b = first_diff(exp, got)
        tok = ORIENT_TOK[i] if 0 <= i < 5 else "model"
        sig = {"stream": "orient", "token": tok}
        if sig in seen:
            continue
        seen.append(sig)
        found = True
        failing(ctx, exe, "orient", "grid input (|n| <= 2^25 times a common power of two): " + ORIENT_WHAT[tok] + "; impl %s spec %s" % (a, b),
                case, exp, got, sig)
    return found


def handle_orientarb(ctx, exe, disagreements):
    seen, found = [], False
    for idx, case, exp, got in disagreements:
        if len(seen) >= MAX_PER_STREAM:
            break
        e, g = exp.split(), got.split()
        if len(e) != 5 or len(g) != 5:
            if "tie" not in seen:
                seen.append("tie")
                tie_problem(ctx, "orientarb", case, exp, got, "unexpected line shape")
            continue
        tok = None
        if e[3] != g[3]:
            tok = "fs"
        elif e[4] != g[4]:
            tok = "as"
        if tok:
            sig = {"stream": "orientarb", "token": tok}
            if sig not in seen:
                seen.append(sig)
                found = True
                failing(ctx, exe, "orientarb", "finite doubles (outside the 2^25 grid clause): " + ORIENT_WHAT[tok] + "; impl %s" % exp, case, exp, got, sig)
            continue
        # an index token differs between implementation and bit-level model: ask for the exact sign
        rc, xl = verif.run_driver_lines("orientx", [case], driver_exe=DRV)
        try:
            ex = int(xl[0].strip())
        except Exception:
            ex = None
        want = None if ex is None else [str(ex), str(-ex), str(ex)]
        bad = None
        if want is not None:
            for j in range(3):
                if e[j] != want[j]:
                    bad = ORIENT_TOK[j]
                    break
        if bad:
            sig = {"stream": "orientarb", "token": bad}
            if sig not in seen:
                seen.append(sig)
                found = True
                failing(ctx, exe, "orientarb",
                        "orientation index is not the sign of the exact determinant; input is outside the 2^25 grid clause but the modelled algorithm is exact here"
                        " (exact sign %s, impl %s, model %s)" % (ex, exp, got), case, exp, got, sig)
        elif "tie" not in seen:
            seen.append("tie")
            tie_problem(ctx, "orientarb", case, exp, got,
                        "implementation and bit-level model (roundNE double-double) disagree on an index although the implementation agrees with the exact sign %s" % ex)
    return found


def handle_exact_stream(ctx, exe, stream, disagreements):
    """ring / poly / ploc / segseg / ccw: the driver answers with the exact specification on grid inputs (ploc: with the model of
    PointLocator, which is proved equal to the specification for polygons and lines and to the Mod-2 rule over the atomic elements)"""
    seen, found = [], False
    for idx, case, exp, got in disagreements:
        if len(seen) >= MAX_PER_STREAM:
            break
        if "MODEL-DIFFERS-FROM-SPEC" in got or got.strip() in ("bad-line", "nonfinite"):
            if "tie" not in seen:
                seen.append("tie")
                tie_problem(ctx, stream, case, exp, got,
                            "driver reports MODEL-DIFFERS-FROM-SPEC" if "MODEL" in got else "driver could not evaluate the case (%s)" % got)
            continue
        i, a, b = first_diff(exp, got)
        if stream == "segseg":
            cls = seg_class(i, a, b)
            sig = {"stream": stream, "token": cls, "impl": a if cls != "point" else "pt", "spec": b if cls != "point" else "pt"}
        else:
            sig = {"stream": stream, "token_index": i, "impl": a, "spec": b}
        if sig in seen:
            continue
        seen.append(sig)
        c2, impl, spec = case, exp, got
        if stream in ("ring", "ccw"):
            try:
                s = shrink_ring(exe, stream, case, i)
            except Exception as ex:          # shrinking is best effort
                log("shrink failed: %r" % (ex,))
                s = None
            if s:
                c2, impl, spec = s
        found = True
        what = {"ring": "point-in-ring: implementation differs from the exact even-odd / on-segment specification on a grid input",
                "poly": "point-in-polygon (SimplePointInAreaLocator / IndexedPointInAreaLocator / prepared XY / intersects / contains / PointLocator / prepared POINT intersects): implementation differs from the exact shell-minus-holes specification on a grid input",
                "ploc": "PointLocator (locate / intersects / GEOSPreparedIntersects of a prepared POINT) on a point, line, ring, polygon, MULTI* or collection: implementation differs from the exact location (polygons: shell minus holes; lines: end points of open chains are BOUNDARY; collections: Mod-2 rule over the elements) on a grid input",
                "segseg": "LineIntersector: implementation differs from the exact segment-segment specification on a grid input",
                "ccw": "Orientation::isCCW differs from the specification on a grid input"}[stream]
        failing(ctx, exe, stream, what + "; token %d impl %s spec %s" % (i, a, b), c2, impl, spec, sig)
    return found


def run(ctx):
    ctx.base_trust([
        "hand-written Lean models of orientationIndexFilter / double-double orientationIndex, RayCrossingCounter::countSegment, LineIntersector::computeIntersect, Orientation::isCCW (lean/GeosModel/Model/Kernel/*); all but isCCW, the indexed locator and the DD intersection point are proved equal to the definitions regenerated from the current C++ (Props/C07Gen.lean)",
        "translate/cxx2lean.py + translate/specs/kernel_c07.py (statement-by-statement translation of the C++ fragment; Z/M bookkeeping of LineIntersector dropped; constructors of DD / CoordinateXY stated by hand after a text check); reading of a C++ double operation as rnd(exact operation) (Model/Kernel/CxxDy.lean), decimal literals by correct rounding",
        "doubles are brought to integers over one common power of two by F64.scaleAll before the exact specification is evaluated",
        "roundNE models IEEE binary64 round-to-nearest-even without overflow / underflow (inputs are kept inside the range where none occurs)",
        "the harness and its generators (harness/c07.cpp): lattice inputs n*2^k with |n| <= 2^25, k in [-500,474]; one stream of arbitrary finite doubles",
    ])
    proved = ctx.prove_generated(GENS, PROPS, extra_targets=(DRV,))
    ok, out = verif.build_geos("rel")
    if not ok:
        ctx.violation("GEOS does not build with -DGEOS_VERIF", {"kind": "build-failure", "log": out[-3000:]}, nofail=True)
        return
    exe, out = verif.build_harness("c07")
    if not exe:
        ctx.violation("harness c07 does not compile against the current tree",
                      {"kind": "tie-broken", "correspondence": "harness/c07.cpp", "log": out[-3000:]}, nofail=True)
        return
    plan = QUICK if ctx.tier == "quick" else THOROUGH
    shards = min(verif.NPROC, 8)
    found_input = False
    for stream, total in plan:
        agg = {"cases": 0, "disagreements": 0, "distribution": {}}
        disagreements, error, done, rnd = [], None, 0, 0
        while done < total:
            n = min(CHUNK, total - done)
            seed = ctx.seed + 7919 * rnd          # distinct generator seeds per chunk
            r = verif.run_stream(exe, stream, seed, n, ctx.work, shards=shards, driver_exe=DRV)
            if r["error"]:
                error = r["error"]
                break
            agg["cases"] += r["cases"]
            agg["disagreements"] += len(r["disagreements"]) + r.get("more_disagreements", 0)
            for k, v in r["stats"].items():
                agg["distribution"][k] = agg["distribution"].get(k, 0) + v
            if rnd == 0:
                ctx.cov["samples"] += r.get("samples", [])[:1]
            disagreements += r["disagreements"]
            done += n
            rnd += 1
            if disagreements and stream != "orientf":
                break                             # enough to report; do not spend the budget on more of the same
        if stream == "orientf":
            agg = {"cases": agg["cases"], "filter_answer_differs_from_model": agg["disagreements"], "disagreements": 0,
                   "distribution": agg["distribution"],
                   "note": "informational: the filter's deferral pattern is a performance matter; soundness of its answers is checked in orient/orientarb (fs token)"}
            if error:
                agg["error"] = error
            ctx.cov["support_correspondence"][stream] = agg
            continue
        ctx.cov["support_correspondence"][stream] = agg
        if error:
            ctx.violation("correspondence stream %s could not run: %s" % (stream, error),
                          {"kind": "tie-broken", "correspondence": stream, "detail": error}, nofail=True)
            continue
        if not disagreements:
            continue
        log("stream %s: %d disagreement(s)" % (stream, agg["disagreements"]))
        if stream == "orient":
            found_input |= handle_orient(ctx, exe, disagreements)
        elif stream == "orientarb":
            found_input |= handle_orientarb(ctx, exe, disagreements)
        else:
            found_input |= handle_exact_stream(ctx, exe, stream, disagreements)
    if not proved:
        lf = getattr(ctx, "lean_failure", None) or {}
        if not found_input:
            ctx.violation("Lean obligations for C07 no longer check: " + "; ".join(str(i) for i in lf.get("items", [])[:5]),
                          {"kind": "proof-broken", "lean": lf}, nofail=True)
        else:
            ctx.violation("Lean obligations for C07 no longer check (a failing input was also found)", {"kind": "proof-broken", "lean": lf}, nofail=True)


def replay(ctx, path):
    r = json.load(open(path))
    if "case" not in r or "stream" not in r:
        print("replay file has no case line (kind=%s): %s" % (r.get("kind"), r.get("what")))
        return 1
    ok, out = verif.build_geos("rel")
    exe, out = verif.build_harness("c07")
    verif.lake_build([DRV])
    if not exe:
        print("harness c07 does not build")
        print("VIOLATION property=C07 replay=%s" % path)
        return 1
    stream = r["stream"]
    regen, impl, spec = replay_pair(exe, stream, r["case"])
    print("case :", regen)
    print("impl :", impl)
    print("spec :", spec)
    differs = impl != spec
    if stream == "orientarb" and differs:
        e, g = impl.split(), spec.split()
        if len(e) == 5 and len(g) == 5 and e[3] == g[3] and e[4] == g[4]:
            rc, xl = verif.run_driver_lines("orientx", [regen], driver_exe=DRV)
            print("exact:", xl[0] if xl else "")
    if stream == "orientf":
        differs = False
    if differs:
        print("VIOLATION property=C07 replay=%s" % path)
        return 1
    return 0
