"""C06 — buffer holds everything within distance d, nothing farther, and is valid.

proof : lean/GeosModel/Props/C06.lean
          CORE (FULL)  fillet_step_bound & co.  — segment count / angular step of addDirectedFillet, exact supremum 1.5 quanta
          CORE (FULL)  params_*                 — parameter normalisation of the C API entry points, totality, exact rejection conditions
          SPEC         d2Seg_exact, cos table soundness — the oracle's distance formula and tolerance table are exact / safe
        CORE (FULL)  Props/C06Rings.lean: assemble_covers_result & co. — the ring assembly (linkResultDirectedEdges, MaximalEdgeRing,
                     linkMinimalDirectedEdges, buildMinimalRings) loses no result edge and builds closed walks only
tie   : stream rings   — MaximalEdgeRing / MinimalEdgeRing called directly, and PolygonBuilder, on noded lattice arrangements whose
                         rings touch in single vertices, vs Model/Buffer/Rings.lean (directed-edge cycles + shell / hole flag)
        stream contact — as `buffer`, on inputs whose buffer OUTLINE TOUCHES ITSELF in single noded vertices for the chosen distance
                         (valid polygons with holes touching the shell / each other, distance 0; lattice-exact inputs with a
                         half-integer distance, e.g. grid points buffered by half the grid spacing)
        stream fillet  — raw offset curves of two-segment lines: number of arc vertices vs the Lean fillet model
        stream params  — accept/reject, stored and effective parameters through every C API entry point vs the Lean model
        stream buffer  — generated valid inputs through GEOSBuffer / WithStyle / WithParams / OffsetCurve / SingleSidedBuffer;
                         the driver evaluates the exact distance specification at exact rational sample locations and decides
                         membership in the RETURNED geometry exactly.  A contradiction *is* a failing input for C06
                         (the universal quantifier over locations is sampled: SPEC+C).
Known defects are matched by structural signatures against KNOWN_FINDINGS.json."""
import os, json, glob, subprocess, struct
import verif, gtok
from verif import log

LEVEL = "proof"
PROPS = ["GeosModel.Props.C06", "GeosModel.Props.C06Rings"]
DRV = "drv_c06"


def dec(h):
    return struct.unpack('>d', bytes.fromhex(h))[0]


def parts_of(case):
    return case.split(" | ")


def params_of(case):
    p = parts_of(case)
    return dict(t.split("=", 1) for t in p[2].split() if "=" in t)


def fields(verdict):
    t = verdict.split()
    f = {"clause": t[1] if len(t) > 1 else "?"}
    for x in t[2:]:
        if "=" in x:
            k, v = x.split("=", 1)
            f[k] = v
    return f


def stab_through_vertex(tokline):
    """Polygonal input: does the horizontal ray to the right of the rightmost vertex of some CONNECTED COMPONENT of rings pass
    exactly through a VERTEX of another component (same y bit pattern, larger x)?  Rings that share a point (a common vertex, or a
    vertex of one on a segment of the other) are one component: they are one subgraph of the buffer's planar graph, and
    SubgraphDepthLocater's stabbing line — whose depth of the nearest stabbed segment is exact only for vertex-free hits — starts
    at the rightmost coordinate of a SUBGRAPH."""
    from fractions import Fraction
    try:
        g = gtok.parse(tokline)[1]
    except Exception:
        return False
    rings = []
    def walk(e):
        if e[0] == "Y":
            for r in e[1]:
                pts = [(gtok._dec(p[0]), gtok._dec(p[1])) for p in r[1]]
                if pts:
                    rings.append(pts)
        elif e[0] in gtok.COLL:
            for x in e[1]:
                walk(x)
    walk(g)
    n = len(rings)
    comp = list(range(n))
    def find(i):
        while comp[i] != i:
            comp[i] = comp[comp[i]]
            i = comp[i]
        return i
    def on_ring(p, r):
        px, py = Fraction(p[0]), Fraction(p[1])
        for (a, b) in zip(r, r[1:]):
            if p == a or p == b:
                return True
            ax, ay, bx, by = Fraction(a[0]), Fraction(a[1]), Fraction(b[0]), Fraction(b[1])
            if (bx - ax) * (py - ay) == (by - ay) * (px - ax) and min(ax, bx) <= px <= max(ax, bx) and min(ay, by) <= py <= max(ay, by):
                return True
        return False
    if n <= 40:
        for i in range(n):
            for j in range(n):
                if i != j and find(i) != find(j) and any(on_ring(p, rings[j]) for p in rings[i]):
                    comp[find(i)] = find(j)
    groups = {}
    for i in range(n):
        groups.setdefault(find(i), []).append(i)
    for c, members in groups.items():
        pts = [p for i in members for p in rings[i]]
        mx = max(p[0] for p in pts)
        for (x, y) in pts:
            if x != mx:
                continue
            for c2, m2 in groups.items():
                if c2 != c and any(y2 == y and x2 > x for j in m2 for (x2, y2) in rings[j]):
                    return True
    return False


def signature(case, verdict):
    """Structural key of a failing buffer case (matched against KNOWN_FINDINGS.json).
    mode    : buf (area buffer) | ss (single-sided through GEOSBufferParams) | oc (GEOSOffsetCurve) | ssb (GEOSSingleSidedBuffer)
    mode buf, a sample location contradicts the specification:
      band  : e     = the side of the property that carries the tolerance e(q) (d > 0: a location within (1-e)d is missing;
                      d < 0: a location within (1-e)|d| of the boundary is kept)
              exact = the side that carries 1e-6 (d > 0: a location beyond (1+1e-6)d is contained; d < 0: a location farther
                      than (1+1e-6)|d| from the boundary is missing);   zero = distance 0
      tier  : doc   = only the documented bound is missed; the bound that follows from the fillet step (cos(3 pi / 8q),
                      fillet_step_bound) resp. the input-simplification allowance (1.01 d) still holds;  gross = even that is missed
      stabThroughVertex : (tier gross) the stabbing ray of SubgraphDepthLocater from the rightmost vertex of one CONNECTED COMPONENT of
              input rings passes exactly through a vertex of another component (rings sharing a point are one subgraph)
      qle5  : (band e) quadrant segments <= 5, where e(q) is smaller than the real chord error
      dTiny : (band exact, tier doc) |d| is below 2^-20 of the largest coordinate, where BufferOp's precision ladder is coarser than 1e-6 d
      selfCrossingRing: the input contains a CLOSED LineString that crosses / retraces itself (buffered as a ring by
              BufferCurveSetBuilder::addLinearRingSides, whose orientation / erosion heuristics assume a simple ring)
    mode buf, otherwise: clause = null | type | invalid | ring ...
    other modes: simpleOpenLines = false when the input linework is closed or not simple (two segments meet other than consecutive
              ones at their common vertex, or a point is repeated) or, for single-sided buffers, multi-part or coming within |d|
              of itself (a vertex within |d| of a segment it does not belong to); dTiny as above;
              clause shape = a result vertex / band location is wrong; reg = big when |d| exceeds the shortest segment"""
    kv = params_of(case)
    f = fields(verdict)
    mode = kv.get("mode", "buf")
    if mode == "buf" and kv.get("ss") == "1":
        mode = "ss"
    clause = f["clause"]
    selfx = f.get("selfx") == "1"
    tiny = f.get("tiny") == "1"
    ring = f.get("closed") == "1" and selfx
    if mode == "buf":
        if clause not in ("inner", "outer"):
            return {"mode": mode, "clause": clause, "selfCrossingRing": ring}
        sign = f.get("sign", "1")
        band = "zero" if sign == "0" else ("e" if (clause == "inner") == (sign == "1") else "exact")
        tier = f.get("tier", "?")
        try:
            q = int(f.get("q", kv.get("q", "8")))
        except ValueError:
            q = 8
        if band == "exact" and tier == "doc" and tiny:
            return {"mode": mode, "band": band, "tier": tier, "dTiny": True}
        if ring:
            return {"mode": mode, "band": band, "selfCrossingRing": True}
        sig = {"mode": mode, "band": band, "tier": tier, "selfCrossingRing": False}
        if tier == "gross":
            sig["stabThroughVertex"] = stab_through_vertex(parts_of(case)[1])
        if band == "e":
            sig["qle5"] = q <= 5
        return sig
    if mode == "ssb":
        # GEOSSingleSidedBuffer is deprecated since 3.3 and purely heuristic (intersection of a raw curve with the flat-cap
        # buffer boundary, end trimming by fixed percentages): one class
        if clause in ("crash", "timeout", "hang"):
            return {"mode": mode, "clause": clause}          # never part of the known heuristic family
        return {"mode": mode}
    try:
        parts = int(f.get("parts", "1"))
    except ValueError:
        parts = 1
    tin = parts_of(case)[1].split()
    container = len(tin) > 1 and tin[1] in ("ML", "MP", "MY", "GC")      # BufferBuilder::buffer takes the per-part path for these
    if selfx or f.get("closed") == "1" or (mode == "ss" and (parts > 1 or container or f.get("near") == "1")):
        # single-sided buffers / offset curves of linework that is closed, not simple or multi-part: one class per call — for the SHAPE of
        # the result (the recorded mechanisms: largest polygonized face, defective ring buffer, heuristic NULLs).  A result that is not even a
        # valid geometry is a different matter and gets its own key
        if clause == "invalid":
            return {"mode": mode, "clause": "invalid", "simpleOpenLines": False}
        return {"mode": mode, "simpleOpenLines": False}
    if tiny:
        return {"mode": mode, "simpleOpenLines": True, "dTiny": True}
    if clause == "side-end":
        # a vertex on the wrong side within the distance of a line end: the cap edge of the two-sided buffer was kept
        return {"mode": mode, "clause": "cap-edge-kept", "simpleOpenLines": True}
    if clause in ("far", "near", "side", "band-in", "band-out"):
        return {"mode": mode, "clause": "shape", "reg": f.get("reg", "?"), "simpleOpenLines": True}
    return {"mode": mode, "clause": clause, "simpleOpenLines": True}


def evaluate(exe, tin, par):
    """re-run the call in GEOS (harness replay) and ask the driver; returns (verdict, full case line)"""
    p = os.path.join(verif.BUILD, "work", "c06-replay-%d.txt" % os.getpid())
    os.makedirs(os.path.dirname(p), exist_ok=True)
    with open(p, "w") as f:
        f.write("B | %s | %s\n" % (tin, par))
    rc, out = verif.sh([exe, "replay", p], timeout=300)
    line = out.strip().split("\n")[-1] if out.strip() else ""
    if rc != 0:
        return "crash rc=%d" % rc, line
    if not line.startswith("B |"):
        return None, "invalid"
    case = line.split(" ## ")[0]
    rc2, lines = verif.run_driver_lines("buffer", [case], driver_exe=DRV)
    return (lines[0] if lines and lines[0] else "driver-error"), case


def shrink(exe, case, verdict):
    sig0 = signature(case, verdict)
    p = parts_of(case)
    best = (p[1], verdict, case)
    par = p[2]
    for _ in range(8):
        progress = False
        n = 0
        for cand in gtok.shrink_candidates(best[0]):
            n += 1
            if n > 60:
                break
            v, c2 = evaluate(exe, cand, par)
            if v and v.startswith("bad") and signature(c2, v) == sig0:
                best = (cand, v, c2)
                progress = True
                break
        if not progress:
            break
    return best


def describe(case, verdict):
    p = parts_of(case)
    kv = params_of(case)
    out = {"input_wkt": gtok.wkt(p[1])[:4000], "call": kv.get("mode"), "distance": dec(kv["d"]) if "d" in kv else None,
           "quadsegs": kv.get("q"), "cap": kv.get("cap"), "join": kv.get("join"), "mitre": dec(kv["mitre"]) if "mitre" in kv else None,
           "single_sided": kv.get("ss"), "verdict": verdict}
    return out


def all_disagreements(ctx, stream, first):
    """verif.run_stream keeps the first 50 disagreements only; known findings would crowd out new ones, so read the shard files
    and return one representative per signature (plus everything that is not a `bad` verdict)"""
    out, seen = [], []
    files = sorted(glob.glob(os.path.join(ctx.work, stream + ".*.cases")))
    if not files:
        return first
    for fc in files:
        base = fc[:-6]
        try:
            cases = open(fc, errors="replace").read().split("\n")
            exp = open(base + ".expect", errors="replace").read().split("\n")
            got = open(base + ".got", errors="replace").read().split("\n")
        except OSError:
            continue
        for i, (c, e_, g) in enumerate(zip(cases, exp, got)):
            if not c or e_ == g:
                continue
            if g.startswith("bad"):
                try:
                    sg = signature(c, g)
                except Exception:
                    sg = g
                if sg in seen:
                    continue
                seen.append(sg)
            elif len(out) > 200:
                continue
            out.append((i, c, e_, g))
    return out


def run_stats(ctx, n_shards):
    """tallies of asserted-in / asserted-out / free sample locations over the first shards (distribution only)"""
    tot = {"in": 0, "out": 0, "free": 0, "bnd": 0, "cases": 0}
    procs = []
    for k in range(n_shards):
        f = os.path.join(ctx.work, "buffer.%d.cases" % k)
        if not os.path.exists(f):
            continue
        procs.append(subprocess.Popen([verif.driver_path(DRV), "buffer-stats"], stdin=open(f, "rb"), stdout=subprocess.PIPE, stderr=subprocess.DEVNULL))
    for p in procs:
        try:
            out, _ = p.communicate(timeout=3000)
        except subprocess.TimeoutExpired:
            p.kill()
            continue
        for line in out.decode("utf-8", "replace").split("\n"):
            if line.startswith("stats"):
                tot["cases"] += 1
                for t in line.split()[1:]:
                    k, v = t.split("=")
                    tot[k] += int(v)
    return tot


def report_buffer_disagreements(ctx, exe, stream, first, seen, state):
    """one violation per structural signature; `seen` is shared between the streams that use the buffer case format"""
    found_input = False
    for idx, case, exp, got in all_disagreements(ctx, stream, first):
        if not got.startswith("bad"):
            if "tie" not in seen:
                seen.append("tie")
                ctx.violation("driver could not evaluate a buffer case: %s" % got[:200], {"kind": "tie-broken", "correspondence": stream, "case": case[:2000], "driver": got}, nofail=True)
            continue
        sig0 = signature(case, got)
        if sig0 in seen:
            continue
        seen.append(sig0)
        best_case, best_v = case, got
        is_known = any(k.get("signature") == sig0 for k in ctx.known)
        if not is_known and state["shrunk"] < 6 and fields(got)["clause"] not in ("null",):
            tin, v, c2 = shrink(exe, case, got)
            best_case, best_v = c2, v
            state["shrunk"] += 1
        sig = signature(best_case, best_v)
        if sig != sig0 and sig in seen:
            continue
        if sig != sig0:
            seen.append(sig)
        p = parts_of(best_case)
        if ctx.violation("buffer result contradicts the distance specification: %s  [%s]" % (best_v[:160], json.dumps(sig, sort_keys=True)),
                         dict({"kind": "failing-input", "stream": stream, "case": "B | %s | %s" % (p[1], p[2]), "signature": sig}, **describe(best_case, best_v)),
                         signature=sig):
            found_input = True
    return found_input


def run(ctx):
    ctx.base_trust([
        "C06 is claimed at SPEC+C strength: the universal quantifier over LOCATIONS is sampled (about 200 exact rational locations per buffer: "
        "low-discrepancy points in the inflated envelope, points just inside (1-e)d and just outside (1+1e-6)d along normals of input segments "
        "and around input vertices); only the fillet and parameter cores are FULL theorems about faithful models",
        "the distance specification (Model/Buffer/Spec.lean) is the definition of the right answer: exact squared distances over integers "
        "(doubles are exact dyadic rationals), inner claims = polygon interiors + one/two-sided slabs + join / cap sectors, outer claims = "
        "beyond (1+1e-6)d of every slab, beyond sqrt(1+limit^2)d of every mitre vertex, beyond sqrt(2)d of every square cap vertex",
        "tolerance e(q) = 0.015 + 1 - cos(pi/(4q)) is bounded on the safe side by a verified rational lower bound of cos (half-angle iteration, "
        "theorem cosLB_sound; uses Mathlib's Real.cos and pi < 3.141593); absolute slack of 16 ulps of the largest coordinate is added to every radius",
        "chord-sagitta fact 'a polygonal arc with angular step a stays within r(1-cos(a/2)) of the circle' interprets fillet_step_bound; it is not proved",
        "flat caps and mitre/bevel joins: inner claims only while |d| <= shortest input segment (OffsetSegmentGenerator.cpp: 'non-round joins only "
        "really make sense for relatively small buffer distances'); single-sided results and offset curves are checked at their vertices only",
        "the zero-distance clause is checked only when the polygons of the input form a valid polygonal set (buffer(0) of overlapping polygons "
        "is a repair heuristic, not covered by the property); negative distances on overlapping polygons assert only the must-contain side",
        "input validity is filtered with GEOSisValid; result validity is GEOSisValid plus an exact light ring check (closed, >= 4 points, non-zero area, "
        "exact simplicity for rings of <= 80 points)",
        "input simplification, closing-segment factors, inverted-ring / hole removal and the precision-retry ladder are exercised, not modelled",
        "translator tie (Props/C06Gen.lean): C++ double is an abstract carrier, instantiated with exact rationals (angles) or the binary64 value model "
        "(parameter objects); (int) x = truncation, cos, Angle::sinCosSnap, std::isfinite are function parameters; the C API functions are translated as the "
        "lambda they pass to `execute` (shape of `execute` checked textually: try { return f(); } catch → error value), up to the construction of "
        "BufferOp / OffsetCurve / BufferBuilder; GEOSBuffer_r (Geometry::buffer → BufferOp::bufferOp) and GEOSBufferParams_create_r (`new`) are not translated",
    ])
    # translator tie: BufferParameters (defaults, setters, getters), the OffsetSegmentGenerator constructor / init / addDirectedFillet, the
    # OffsetCurve constructor and the C API parameter plumbing are regenerated from the current C++ (translate/specs/buffer_params.py) and
    # proved equal to Model/Buffer/Params.lean / Fillet.lean (Props/C06Gen.lean); streams `params` and `fillet` exercise the same functions
    proved = ctx.prove_generated([("buffer_params", "GeosModel/Generated/BufferParams.lean", "GeosModel.Props.C06Gen")], PROPS, extra_targets=(DRV,))
    ok, out = verif.build_geos("rel")
    if not ok:
        ctx.violation("GEOS does not build with -DGEOS_VERIF", {"kind": "build-failure", "log": out[-3000:]}, nofail=True)
        return
    exe, out = verif.build_harness("c06")
    if not exe:
        ctx.violation("harness c06 does not compile against the current tree", {"kind": "tie-broken", "correspondence": "harness/c06.cpp", "log": out[-3000:]}, nofail=True)
        return
    quick = ctx.tier == "quick"
    corr = {}
    found_input = False
    broken = []

    # ---- (1) parameter handling
    r = verif.run_stream(exe, "params", ctx.seed, 24000 if quick else 600000, ctx.work, shards=8, driver_exe=DRV)
    corr["params"] = {"cases": r["cases"], "disagreements": len(r["disagreements"]) + r.get("more_disagreements", 0), "distribution": r["stats"]}
    ctx.cov["samples"] += r.get("samples", [])[:1]
    if r["error"]:
        ctx.violation("stream params could not run: " + r["error"], {"kind": "tie-broken", "correspondence": "params", "detail": r["error"]}, nofail=True)
    else:
        seen = set()
        for idx, case, exp, got in r["disagreements"]:
            accept_differs = (exp.split()[:1] in (["rej"], ["null"])) != (got.split()[:1] in (["rej"], ["null"]))
            key = (case.split()[0], accept_differs)
            if key in seen:
                continue
            seen.add(key)
            if accept_differs and exp.split()[:1] not in (["rej"], ["null"]):
                found_input = True
                ctx.violation("a parameter combination the model rejects is accepted by the C API (or the reverse): %s impl=%s model=%s" % (case, exp, got),
                              {"kind": "failing-input", "stream": "params", "case": case, "impl": exp, "model": got},
                              signature={"mode": "params", "clause": "accept", "entry": case.split()[0]})
            else:
                broken.append("params")
                ctx.violation("parameter handling differs from Model/Buffer/Params.lean: %s impl=%s model=%s" % (case, exp, got),
                              {"kind": "tie-broken", "correspondence": "params", "case": case, "impl": exp, "model": got}, nofail=True)
        # regression guard for /repo commit 1591a29d6 (styles below 1 used to be accepted; cap 0 made the line buffer EMPTY):
        # GEOSBufferWithStyle(LINESTRING (0 0, 10 0), 1, 8, /*cap*/ 0, 1, 5) must be rejected (Lean: params_total, reject_iff_withStyle)
        probe = os.path.join(ctx.work, "capzero.txt")
        with open(probe, "w") as f:
            f.write("B | WKT LINESTRING (0 0, 10 0) | mode=buf api=1 d=%s q=8 cap=0 join=1 mitre=4014000000000000 ss=0 left=1 pv=1\n" % "3ff0000000000000")
        rc, outp = verif.sh([exe, "replay", probe], timeout=60)
        line = outp.strip().split("\n")[-1] if outp.strip() else ""
        if "st=ok" in line:
            found_input = True
            ctx.violation("GEOSBufferWithStyle accepts endCapStyle 0 (returns %s for LINESTRING (0 0, 10 0), d = 1): an accepted parameter combination "
                          "is not a legal configuration (Lean: params_total)" % gtok.wkt(line.split(" ## ")[0].split(" | ")[-1])[:80],
                          {"kind": "failing-input", "stream": "params", "case": "W 8 0 1 4014000000000000", "observed": line[:400],
                           "replay_case": "B | WKT LINESTRING (0 0, 10 0) | mode=buf api=1 d=3ff0000000000000 q=8 cap=0 join=1 mitre=4014000000000000 ss=0 left=1 pv=1"},
                          signature={"mode": "params", "clause": "enum-below-range-accepted"})

    # ---- (2) fillet counting
    r = verif.run_stream(exe, "fillet", ctx.seed, 24000 if quick else 600000, ctx.work, shards=8, driver_exe=DRV)
    dis = [d for d in r["disagreements"] if d[3] != "edge"]
    corr["fillet"] = {"cases": r["cases"], "disagreements": len(dis), "near_rounding_boundary_skipped": len(r["disagreements"]) - len(dis), "distribution": r["stats"]}
    ctx.cov["samples"] += r.get("samples", [])[:1]
    if r["error"]:
        ctx.violation("stream fillet could not run: " + r["error"], {"kind": "tie-broken", "correspondence": "fillet", "detail": r["error"]}, nofail=True)
    elif dis:
        broken.append("fillet")
        idx, case, exp, got = dis[0]
        t = dec(case.split()[1])
        fillet_note = {"kind": "tie-broken", "correspondence": "fillet", "case": case, "total_angle_in_quanta": t, "impl_interior_vertices": exp, "model_interior_vertices": got,
                       "count": len(dis)}
    else:
        fillet_note = None

    # ---- (3) buffers against the distance specification
    n = 1600 if quick else 48000
    r = verif.run_stream(exe, "buffer", ctx.seed, n, ctx.work, shards=8, driver_exe=DRV, timeout=6000)
    corr["buffer"] = {"cases": r["cases"], "disagreements": len(r["disagreements"]) + r.get("more_disagreements", 0), "distribution": r["stats"]}
    ctx.cov["samples"] += [{"case": s["case"][:300], "impl": s["impl"], "model": s["model"]} for s in r.get("samples", [])[:2]]
    if r["error"]:
        cur = sorted(glob.glob(os.path.join(ctx.work, "buffer.*.current")))
        crashed = None
        for c in cur:
            line = open(c).read().strip()
            if line:
                p = parts_of(line)
                v, c2 = evaluate(exe, p[1], p[2])
                if v and v.startswith("crash"):
                    crashed = (line, v)
                    break
        if crashed:
            found_input = True
            ctx.violation("buffer crashes on a valid input (%s)" % crashed[1],
                          dict({"kind": "failing-input", "stream": "buffer", "case": crashed[0]}, **describe(crashed[0] + " | st=? | 0 GC 0", crashed[1])),
                          signature={"mode": params_of(crashed[0]).get("mode", "buf"), "clause": "crash"})
        else:
            ctx.violation("stream buffer could not run: " + r["error"], {"kind": "tie-broken", "correspondence": "buffer", "detail": r["error"]}, nofail=True)
    else:
        try:
            corr["buffer"]["sample_locations"] = run_stats(ctx, 2 if quick else 4)
        except Exception as ex:          # statistics only
            corr["buffer"]["sample_locations"] = {"error": repr(ex)}
    seen = []
    state = {"shrunk": 0}
    if report_buffer_disagreements(ctx, exe, "buffer", r["disagreements"], seen, state):
        found_input = True

    # ---- (4) the same check on inputs whose buffer outline touches itself in single noded vertices (harness/c06contact.h): the
    # PolygonBuilder branch for maximal edge rings through nodes of degree > 2, which generic-position inputs never reach
    r = verif.run_stream(exe, "contact", ctx.seed, 480 if quick else 6400, ctx.work, shards=8, driver_exe=DRV, timeout=6000)
    corr["contact"] = {"cases": r["cases"], "disagreements": len(r["disagreements"]) + r.get("more_disagreements", 0), "distribution": r["stats"]}
    if r["error"]:
        ctx.violation("stream contact could not run: " + r["error"], {"kind": "tie-broken", "correspondence": "contact", "detail": r["error"]}, nofail=True)
    else:
        touching = int(r["stats"].get("result_outline_touches_itself", 0))
        corr["contact"]["results_whose_outline_touches_itself"] = touching
        if report_buffer_disagreements(ctx, exe, "contact", r["disagreements"], seen, state):
            found_input = True

    # ---- (5) ring assembly against Model/Buffer/Rings.lean
    r = verif.run_stream(exe, "rings", ctx.seed, 8000 if quick else 150000, ctx.work, shards=8, driver_exe=DRV)
    corr["rings"] = {"cases": r["cases"], "disagreements": len(r["disagreements"]) + r.get("more_disagreements", 0), "distribution": r["stats"]}
    ctx.cov["samples"] += r.get("samples", [])[:1]
    rings_note = None
    if r["error"]:
        ctx.violation("stream rings could not run: " + r["error"], {"kind": "tie-broken", "correspondence": "rings", "detail": r["error"]}, nofail=True)
    elif r["disagreements"]:
        broken.append("rings")
        # the arrangement is a valid polygonal geometry: buffer(arrangement, 0) must return the same point set — replay the first few
        # disagreeing arrangements through the buffer check to obtain a failing input of the property itself
        for idx, case, exp, got in r["disagreements"][:12]:
            tparts = [x for x in case.split(" | ") if x.startswith("T ")]
            if not tparts:
                continue
            par = "mode=buf api=0 d=0000000000000000 q=8 cap=1 join=1 mitre=4014000000000000 ss=0 left=1 pv=1"
            v, c2 = evaluate(exe, tparts[0][2:], par)
            if v and (v.startswith("bad") or v.startswith("crash")):
                sig = signature(c2, v) if v.startswith("bad") else {"mode": "buf", "clause": "crash"}
                if sig in seen:
                    found_input = True
                    break
                seen.append(sig)
                if ctx.violation("buffer(g, 0) of a valid polygon arrangement whose rings touch in single vertices contradicts the distance specification "
                                 "(ring assembly differs from Model/Buffer/Rings.lean: GEOS rings %s, model %s): %s  [%s]" % (exp[:120], got[:120], v[:160], json.dumps(sig, sort_keys=True)),
                                 dict({"kind": "failing-input", "stream": "buffer", "case": "B | %s | %s" % (tparts[0][2:], par), "signature": sig,
                                       "rings_case": case[:1500], "impl_rings": exp[:600], "model_rings": got[:600]}, **describe(c2, v)),
                                 signature=sig):
                    found_input = True
                break
        idx, case, exp, got = r["disagreements"][0]
        rings_note = {"kind": "tie-broken", "correspondence": "rings", "case": case[:20000], "impl_rings": exp[:20000], "model_rings": got[:20000],
                      "count": len(r["disagreements"]) + r.get("more_disagreements", 0)}
    ctx.cov["support_correspondence"] = corr
    if fillet_note is not None:
        ctx.violation("number of fillet vertices differs from Model/Buffer/Fillet.lean (t = %.9g quanta: code %s, model %s interior vertices)" %
                      (fillet_note["total_angle_in_quanta"], fillet_note["impl_interior_vertices"], fillet_note["model_interior_vertices"]),
                      fillet_note, nofail=not found_input)
    if rings_note is not None:
        ctx.violation("ring assembly (MaximalEdgeRing / MinimalEdgeRing / PolygonBuilder) differs from Model/Buffer/Rings.lean in %d cases: GEOS %s, model %s" %
                      (rings_note["count"], rings_note["impl_rings"][:150], rings_note["model_rings"][:150]), rings_note, nofail=not found_input)
    if not proved:
        lf = getattr(ctx, "lean_failure", None) or {}
        ctx.violation("Lean obligations for C06 no longer check: " + "; ".join(str(i) for i in lf.get("items", [])[:5]),
                      {"kind": "proof-broken", "lean": lf}, nofail=not found_input)


def replay(ctx, path):
    r = json.load(open(path))
    verif.build_geos("rel")
    exe, _ = verif.build_harness("c06")
    verif.lake_build([DRV])
    rc = 0
    case = r.get("replay_case") or r.get("case")
    if r.get("stream") in ("buffer", "contact") or r.get("replay_case"):
        p = parts_of(case)
        v, c2 = evaluate(exe, p[1], p[2])
        print("input  :", r.get("input_wkt", p[1][:300]))
        print("params :", p[2])
        if c2 and c2 != "invalid":
            print("result :", gtok.wkt(parts_of(c2)[-1])[:1500])
        print("verdict:", v)
        if r.get("replay_case"):
            # parameter finding: an illegal style was accepted
            if c2 and "st=ok" in c2:
                rc = 1
        elif v != "ok":
            rc = 1
    elif r.get("correspondence") == "rings":
        _, lines = verif.run_driver_lines("rings", [case], driver_exe=DRV)
        print("case :", case[:600])
        print("impl (recorded):", r.get("impl_rings"))
        print("model:", lines[0] if lines else "?")
        if (lines[0] if lines else "") != r.get("impl_rings"):
            rc = 1
    elif r.get("correspondence") in ("fillet", "params") or r.get("stream") == "params":
        stream = r.get("correspondence") or r.get("stream")
        _, lines = verif.run_driver_lines(stream, [case], driver_exe=DRV)
        print("case :", case)
        print("impl (recorded):", r.get("impl") or r.get("impl_interior_vertices"))
        print("model:", lines[0] if lines else "?")
        if (lines[0] if lines else "") != str(r.get("impl") or r.get("impl_interior_vertices")):
            rc = 1
    if rc:
        print("VIOLATION property=C06 replay=%s" % path)
    return rc
