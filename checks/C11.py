"""C11 — readers never crash, hang or touch memory out of bounds on any input.

proof   : lean/GeosModel/Props/C11.lean — about the reader MODELS (WKB/HEX: Model/WKB/Read.lean, WKT: Model/WKT/Read.lean):
          totality (the fuel supplied is never exhausted), `reject_or_wf` / `wkt_reject_or_wf` (whatever is returned
          satisfies every constructor invariant), the depth bounds, the LINEAR allocation bound of the WKB reader model
          (`alloc_linear`: at most 4 bytes per input byte, every input, no depth hypothesis; child vectors grow by the children
          actually read since /repo a208e3db7) — and the NEGATIVE results (`depth_unbounded`, `wkt_depth_unbounded`): the
          "bounded stack" clause is false of the model of the current code.  Memory safety of the models is by construction.
translator: translate/specs/wkb_guards.py regenerates the bounds check of every primitive read of ByteOrderDataInStream.h, the header part of
          WKBReader::readGeometry and the count guards / child loops of the WKBReader::read* functions into Generated/WkbGuards.lean on every
          run; Props/C11Gen.lean proves them equal to the model's pattern-matching reads, `readHeader`, `readColl` (+ spec wkb_words of C09:
          getUnsigned, minMemSize, the dispatch switch); `prepare` refuses a nesting-depth counter or a vector sized from a claimed count
support : everything else about the real C++ is runtime evidence (harness/c11.cpp):
            wkb-fuzz, hex-fuzz, wkt-fuzz, geojson-fuzz   ASan+UBSan+LSan build, every input in a forked child under
                CPU / stack / heap limits; verdict class and decoded tree compared with the models (GeoJSON: crash-only)
            witness families (release build)              the witnesses of the negative theorems, the regression witness
                `wkb-over` (nested over-claimed element counts: quadratic allocation before a208e3db7, `alloc_over_linear`
                now; must stay inside the linear memory budget — a recurrence is a VIOLATION, the finding is recorded as
                fixed) and linear references, run at sizes up to 1 MiB; stack-overflow thresholds and resource ratios measured
A result `crash` / `hang` / `oom` / `leak` is something the property forbids outright: the input is shrunk and reported
with a signature.  A verdict/tree mismatch without a crash is a broken tie, unless the implementation returned a tree
that violates the constructor invariants (then that input is the failing input)."""
import os, json, resource, subprocess, time
from concurrent.futures import ThreadPoolExecutor
import verif
from verif import log

LEVEL = "proof"
PROPS = ["GeosModel.Props.C11"]
DRV = "drv_c11"
STREAMS = ["wkb-fuzz", "hex-fuzz", "wkt-fuzz", "geojson-fuzz"]
FUZZ_MAX_DEPTH = 1500          # below the ASan build's stack-overflow thresholds (about 2 200 WKT / 3 800 WKB levels)
MIB = 1 << 20
DEEP = 400                     # "deep nesting" for signatures: model depth of the shrunk input


def rss_budget_kb(n):          # "a constant multiple of the input size": 256 x input + 16 MiB
    return (16 * MIB + 256 * n) // 1024


def cpu_budget_s(n):           # "time linear in the input" for the reader call alone (release build): 2 us / byte + 1 s
    return 1.0 + 2e-6 * n


# ------------------------------------------------------------------ harness / driver plumbing
def tmpfile(ctx, name):
    os.makedirs(ctx.work, exist_ok=True)
    return os.path.join(ctx.work, name)


def harness_lines(exe, ctx, lines, env=None, timeout=1800):
    p = tmpfile(ctx, "replay-%d-%d.txt" % (os.getpid(), int(time.time() * 1e6) % 10 ** 9))
    with open(p, "w") as f:
        f.write("\n".join(lines) + "\n")
    e = dict(os.environ)
    e.update(env or {})
    r = subprocess.run([exe, "replay", p], stdout=subprocess.PIPE, stderr=subprocess.PIPE, env=e, timeout=timeout)
    os.remove(p)
    out = [l for l in r.stdout.decode("utf-8", "replace").split("\n") if l != ""]
    return out if len(out) == len(lines) else None


def driver_lines(stream, lines):
    rc, out = verif.run_driver_lines(stream, lines, driver_exe=DRV, timeout=1800)
    while out and out[-1] == "":
        out.pop()
    return out if rc == 0 and len(out) == len(lines) else None


def probe(exe, family, param, env=None, timeout=600):
    e = dict(os.environ)
    e.update(env or {})
    try:
        r = subprocess.run([exe, "probe", family, str(param)], stdout=subprocess.PIPE, stderr=subprocess.PIPE, env=e, timeout=timeout)
        return json.loads(r.stdout.decode().strip().split("\n")[-1])
    except Exception as ex:
        return {"family": family, "param": param, "class": "probe-failed", "detail": repr(ex), "len": 0, "rss_grow_kb": 0, "cpu_s": 0, "cpu_read_s": -1}


def gen_case(exe, family, param):
    r = subprocess.run([exe, "gen", family, str(param)], stdout=subprocess.PIPE, timeout=120)
    return r.stdout.decode().strip()


def is_runtime_failure(line):
    return line.split(" ")[0].split("@")[0] in ("crash", "hang", "oom", "leak")


def model_resource(case):
    out = driver_lines("resource", [case])
    d = {"len": 0, "depth": 0, "alloc": 0}
    if out:
        for t in out[0].split():
            if "=" in t:
                k, v = t.split("=", 1)
                try:
                    d[k] = int(v)
                except ValueError:
                    pass
    return d


def signature_of(case, impl):
    """structured key of a runtime failure: the known families by the model's own resource accounting, anything else by
    sanitizer class + top GEOS frame"""
    reader = case.split(" ")[0]
    rd = "wkb" if reader == "hex" else reader
    head = impl.split(" ")
    kind = head[0].split("@")[0]
    phase = head[0].split("@")[1] if "@" in head[0] else ("exercise" if len(head) > 1 and "@exercise" in head[1] else "read")
    res = model_resource(case)
    if kind == "crash" and len(head) > 1 and head[1].startswith("stack-overflow") and res["depth"] >= DEEP:
        return {"reader": rd, "class": "stack-overflow-deep-nesting"}, res
    # (no model-based "superlinear-allocation" class any more: the model's accounting is linear, `alloc_linear`, so an
    #  oom of the WKB reader is never explained by the model and is reported under its own oom signature)
    if kind == "hang" and res["depth"] >= DEEP:
        return {"reader": rd, "class": "superlinear-time-deep-nesting"}, res
    cls = head[1] if kind == "crash" and len(head) > 1 else kind
    frame = head[2] if kind == "crash" and len(head) > 2 else (head[1] if kind == "leak" and len(head) > 1 else "-")
    return {"reader": rd, "class": kind + ":" + cls if kind == "crash" else kind, "phase": phase, "frame": frame}, res


# ------------------------------------------------------------------ delta debugging on the payload
def hex_to_bytes(h):
    return b"" if h == "-" else bytes.fromhex(h)


def bytes_to_hex(b):
    return b.hex() if b else "-"


def ddmin(data, pred_batch, budget_s=90):
    """classic ddmin over a byte string; pred_batch(list of candidates) -> list of bool, evaluated in one harness run"""
    t0 = time.time()
    n = 2
    while len(data) >= 2 and time.time() - t0 < budget_s:
        size = max(1, len(data) // n)
        chunks = [(i, min(len(data), i + size)) for i in range(0, len(data), size)]
        cands = [data[:a] + data[b:] for a, b in chunks]
        if n > 2:
            cands += [data[a:b] for a, b in chunks]
        cands = [c for c in cands if len(c) < len(data)][:256]
        res = pred_batch(cands)
        hit = next((c for c, ok in zip(cands, res) if ok), None)
        if hit is not None:
            data = hit
            n = max(2, n - 1)
        elif size == 1:
            break
        else:
            n = min(len(data), n * 2)
    return data


def shrink_case(exe, ctx, case, keep):
    """shrink the payload of `case` while keep(case', impl line, model line) holds"""
    t = case.split(" ")
    if len(t) < 4:
        return case
    head = t[:3]
    if len(t[3]) > 2 * 300000:
        return case

    def batch(cands):
        lines = [" ".join(head + [bytes_to_hex(c)]) for c in cands]
        if not lines:
            return []
        impl = harness_lines(exe, ctx, lines) or [""] * len(lines)
        model = driver_lines(head[0] + "-fuzz", lines) or [""] * len(lines)
        return [bool(i) and keep(l, i, m) for l, i, m in zip(lines, impl, model)]
    small = ddmin(hex_to_bytes(t[3]), batch)
    return " ".join(head + [bytes_to_hex(small)])


def all_disagreements(work, stream, limit=400):
    out, k = [], 0
    while os.path.exists(os.path.join(work, "%s.%d.cases" % (stream, k))):
        b = os.path.join(work, "%s.%d" % (stream, k))
        try:
            with open(b + ".cases", errors="replace") as fc, open(b + ".expect", errors="replace") as fe, open(b + ".got", errors="replace") as fg:
                for c, e, g in zip(fc, fe, fg):
                    if e != g:
                        out.append((c.rstrip("\n"), e.rstrip("\n"), g.rstrip("\n")))
                        if len(out) >= limit:
                            return out
        except OSError:
            pass
        k += 1
    return out


def worst_of(work, stream):
    worst, k = {}, 0
    while os.path.exists(os.path.join(work, "%s.%d.res" % (stream, k))):
        try:
            d = json.load(open(os.path.join(work, "%s.%d.res" % (stream, k))))
            for key, v in d.items():
                if key not in worst or v["value"] > worst[key]["value"]:
                    worst[key] = v
        except Exception:
            pass
        k += 1
    return worst


# ------------------------------------------------------------------ reporting of one disagreement of a fuzz stream
def report_fuzz(ctx, exe, stream, dis, seen):
    found = 0
    runtime = [d for d in dis if is_runtime_failure(d[1])]
    mism = [d for d in dis if not is_runtime_failure(d[1])]
    # (a) crash / hang / oom / leak: the property's own condition fails on this input
    groups = {}
    for c, e, g in runtime:
        key = " ".join(e.split(" ")[:3])
        if key not in groups or len(c) < len(groups[key][0]):  # shortest input per (class, frame)
            groups[key] = (c, e, g)
    for key, (c, e, g) in sorted(groups.items(), key=lambda kv: len(kv[1][0]))[:6]:
        kind = e.split(" ")[0]
        c2 = shrink_case(exe, ctx, c, lambda l, i, m: " ".join(i.split(" ")[:3]) == key) if kind != "hang" else c
        impl = (harness_lines(exe, ctx, [c2]) or [e])[0]
        if " ".join(impl.split(" ")[:3]) != key:
            c2, impl = c, e
        sig, res = signature_of(c2, impl)
        k = json.dumps(sig, sort_keys=True)
        if k in seen:
            continue
        seen.add(k)
        detail = ""
        try:
            r = subprocess.run([exe, "replay", "/dev/stdin"], input=(c2 + "\n").encode(), stdout=subprocess.PIPE, stderr=subprocess.PIPE,
                               env=dict(os.environ, C11_VERBOSE="1"), timeout=300)
            detail = r.stderr.decode("utf-8", "replace")[-3500:]
        except Exception:
            pass
        if ctx.violation("%s reader: %s on a %d-byte input (%s)" % (c2.split(" ")[0], impl[:120], len(hex_to_bytes(c2.split(" ")[3])), json.dumps(sig)),
                         {"kind": "failing-input", "stream": stream, "flavour": "asan", "case": c2, "impl": impl, "model": g,
                          "model_resource": res, "signature": sig, "sanitizer_report": detail,
                          "replay_cmd": "%s replay <file with the case line>" % exe}, signature=sig):
            found += 1
    # (b) verdict / tree mismatch: ill-formed geometry returned -> failing input; otherwise the tie is broken
    ill, plain = [], []
    oks = [d for d in mism if d[1].startswith("ok ")]
    wf = driver_lines("wf-check", [d[1][3:] for d in oks]) if oks else []
    for d, w in zip(oks, wf or []):
        (ill if w == "ill-formed" else plain).append(d)
    plain += [d for d in mism if not d[1].startswith("ok ")]
    if ill:
        c, e, g = min(ill, key=lambda d: len(d[0]))

        def keep(l, i, m):
            if not i.startswith("ok ") or i == m:
                return False
            w = driver_lines("wf-check", [i[3:]])
            return bool(w) and w[0] == "ill-formed"
        c2 = shrink_case(exe, ctx, c, keep)
        impl = (harness_lines(exe, ctx, [c2]) or [e])[0]
        model = (driver_lines(stream, [c2]) or [g])[0]
        sig = {"reader": "wkb" if c2.startswith("hex") else c2.split(" ")[0], "class": "ill-formed-geometry-returned"}
        k = json.dumps(sig, sort_keys=True)
        if k not in seen:
            seen.add(k)
            if ctx.violation("%s reader returned a geometry that violates the constructor invariants (the model rejects the input): %s" % (c2.split(" ")[0], impl[:160]),
                             {"kind": "failing-input", "stream": stream, "flavour": "asan", "case": c2, "impl": impl, "model": model, "signature": sig,
                              "theorem": "reject_or_wf / wkt_reject_or_wf hold of the model; the implementation's result is not WFG"}, signature=sig):
                found += 1
    if plain:
        c, e, g = min(plain, key=lambda d: len(d[0]))
        c2 = shrink_case(exe, ctx, c, lambda l, i, m: i != m and not is_runtime_failure(i) and i.split(" ")[0] == e.split(" ")[0] and m.split(" ")[0] == g.split(" ")[0])
        impl = (harness_lines(exe, ctx, [c2]) or [e])[0]
        model = (driver_lines(stream, [c2]) or [g])[0]
        ctx.violation("stream %s: implementation and reader model disagree without a crash (%d cases); shrunk: impl=%s model=%s" % (stream, len(plain), impl[:100], model[:100]),
                      {"kind": "tie-broken", "correspondence": stream, "flavour": "asan", "case": c2, "impl": impl, "model": model,
                       "failing_input_for_property_found": bool(found)}, nofail=not found)
    return found


# ------------------------------------------------------------------ witness families on the release build
def bisect_first(pred, lo, hi):
    """least x in (lo, hi] with pred(x), given not pred(lo) and pred(hi)"""
    while hi - lo > 1:
        mid = (lo + hi) // 2
        if pred(mid):
            hi = mid
        else:
            lo = mid
    return hi


def nest_family(exe, fam, per_level, fixed, moderate, quick):
    """depth witnesses of one reader: what happens at the moderate depth, the stack-overflow threshold within 1 MiB, and
    the reader's CPU time against the linear budget"""
    out = {"family": fam}
    dmax = (MIB - fixed) // per_level
    out["max_depth_within_1MiB"] = dmax
    out["at_moderate_depth"] = probe(exe, fam, moderate)
    fast = {"C11_CPU_BASE": "1", "C11_CPU_PER_MIB": "0", "C11_NO_EXERCISE": "1"}

    def overflows(d):
        r = probe(exe, fam, d, env=fast)
        return r["class"] == "crash" and "stack-overflow" in r.get("detail", "")
    top = dmax
    if overflows(dmax):
        top = bisect_first(overflows, 1, dmax)
        out["stack_overflow_threshold"] = top
        # the exact threshold moves by a few levels from run to run (stack randomisation): the replay uses a margin
        out["stack_overflow_replay_depth"] = min(dmax, top + max(64, top // 50))
        out["stack_overflow_probe"] = probe(exe, fam, out["stack_overflow_replay_depth"], env=fast)
        top -= max(8, top // 200)
    else:
        out["stack_overflow_threshold"] = None
    slow = {"C11_CPU_BASE": "60", "C11_CPU_PER_MIB": "0", "C11_NO_EXERCISE": "1"}
    timings, first_over, last_ok = [], None, 0
    d = 1000
    while True:
        d = min(d, top)
        r = probe(exe, fam, d, env=slow)
        t = r.get("cpu_read_s", -1)
        over = (r["class"] == "hang") or (t >= 0 and t > cpu_budget_s(r["len"]))
        timings.append({"depth": d, "len": r["len"], "class": r["class"], "reader_cpu_s": t, "budget_s": round(cpu_budget_s(r["len"]), 3)})
        if over:
            first_over = d
            break
        last_ok = d
        if d >= top:
            break
        d *= 2
    if first_over:
        def too_slow(x):
            r = probe(exe, fam, x, env=slow)
            t = r.get("cpu_read_s", -1)
            timings.append({"depth": x, "len": r["len"], "class": r["class"], "reader_cpu_s": t, "budget_s": round(cpu_budget_s(r["len"]), 3)})
            return r["class"] == "hang" or (t >= 0 and t > cpu_budget_s(r["len"]))
        lo, hi = last_ok, first_over
        for _ in range(2 if quick else 5):
            if hi - lo <= 50:
                break
            mid = (lo + hi) // 2
            if too_slow(mid):
                hi = mid
            else:
                lo = mid
        first_over = hi
    out["reader_time"] = timings
    out["time_budget_exceeded_from_depth"] = first_over
    return out


def over_family(exe, quick):
    """regression witness of the fixed finding wkb/superlinear-allocation (/repo a208e3db7): k nested collections, each claiming
    remaining/9 elements (9 k bytes).  With child vectors sized from the claimed count the reader took 4 k (k - 1) bytes
    (k = 4000: 36 KB -> 67 MB); now it must stay inside the linear budget at every k up to kbig.  When it does not, the least
    such k is bisected and reported (a VIOLATION: the signature is listed as fixed, not as known)."""
    out = {"family": "wkb-over", "expected": "linear: peak RSS growth <= 256 x input + 16 MiB (model: alloc_over_linear, <= 36 k bytes charged)"}
    kbig = 4000 if quick else 11000
    r = probe(exe, "wkb-over", kbig)
    out["at_k"] = r
    out["rss_budget_kb_at_k"] = rss_budget_kb(r["len"])
    out["rss_bytes_per_input_byte_at_k"] = round(r["rss_grow_kb"] * 1024.0 / max(1, r["len"]), 1)

    def over(k):
        p = probe(exe, "wkb-over", k)
        return p["class"] in ("oom", "hang") or p["rss_grow_kb"] > rss_budget_kb(p["len"])
    if r["class"] in ("oom", "hang") or r["rss_grow_kb"] > rss_budget_kb(r["len"]):
        k = bisect_first(over, 1, kbig)
        out["budget_exceeded_from_k"] = k
        out["at_threshold"] = probe(exe, "wkb-over", k)
    else:
        out["budget_exceeded_from_k"] = None
    return out


def wide_family(exe, fam, n):
    r = probe(exe, fam, n)
    r["rss_budget_kb"] = rss_budget_kb(r["len"])
    r["cpu_budget_s"] = round(cpu_budget_s(r["len"]), 3)
    r["rss_bytes_per_input_byte"] = round(r["rss_grow_kb"] * 1024.0 / max(1, r["len"]), 1)
    return r


def run_witnesses(ctx, exe_rel, quick, seen):
    moderate = 2000 if quick else 20000
    jobs = {
        "wkb-nest": lambda: nest_family(exe_rel, "wkb-nest", 9, 21, moderate, quick),
        "hex-nest": lambda: nest_family(exe_rel, "hex-nest", 18, 42, moderate, quick),
        "wkt-nest": lambda: nest_family(exe_rel, "wkt-nest", 20, 10, moderate, quick),
        "geojson-nest": lambda: nest_family(exe_rel, "geojson-nest", 45, 38, moderate, quick),
        "wkb-over": lambda: over_family(exe_rel, quick),
        "wkb-wide": lambda: wide_family(exe_rel, "wkb-wide", 49000),
        "wkt-wide": lambda: wide_family(exe_rel, "wkt-wide", 170000),
        "geojson-wide": lambda: wide_family(exe_rel, "geojson-wide", 170000),
        "wkt-longnum": lambda: wide_family(exe_rel, "wkt-longnum", 1000000),
        "geojson-array": lambda: wide_family(exe_rel, "geojson-array", 500000),
    }
    res = {}
    with ThreadPoolExecutor(max_workers=6) as ex:
        futs = {k: ex.submit(f) for k, f in jobs.items()}
        for k, f in futs.items():
            res[k] = f.result()
    found = 0

    def report(sig, what, obj):
        nonlocal found
        k = json.dumps(sig, sort_keys=True)
        if k in seen:
            return
        seen.add(k)
        obj = dict(obj)
        obj.update({"kind": "failing-input", "flavour": "rel", "signature": sig,
                    "replay_cmd": "%s probe %s %s   (8 MiB stack, release build)" % (exe_rel, obj.get("family"), obj.get("param"))})
        if ctx.violation(what, obj, signature=sig):
            found += 1
    for fam in ("wkb-nest", "hex-nest", "wkt-nest", "geojson-nest"):
        r = res[fam]
        rd = {"wkb-nest": "wkb", "hex-nest": "wkb", "wkt-nest": "wkt", "geojson-nest": "geojson"}[fam]
        th = r.get("stack_overflow_threshold")
        if th:
            p = r["stack_overflow_probe"]
            report({"reader": rd, "class": "stack-overflow-deep-nesting"},
                   "%s reader overflows the 8 MiB stack from about %d nested collections on (%d levels = %d bytes of input: %s)" %
                   (rd, th, p["param"], p["len"], p["class"] + " " + p.get("detail", "")),
                   {"family": fam, "param": p["param"], "reader": p.get("reader"), "len": p["len"], "impl": p["class"] + " " + p.get("detail", ""), "threshold_depth": th,
                    "theorem": "depth_unbounded / wkt_depth_unbounded: the model needs recursion depth proportional to the input length"})
        ov = r.get("time_budget_exceeded_from_depth")
        if ov:
            t = [x for x in r["reader_time"] if x["depth"] == ov][-1]
            top = (th - 1) if th else r["max_depth_within_1MiB"]
            report({"reader": rd, "class": "superlinear-time-deep-nesting"},
                   "%s reader: CPU time of the read call grows quadratically with the nesting depth (%d levels, %d bytes: %.2f s, linear budget %.2f s)" % (rd, ov, t["len"], t["reader_cpu_s"], t["budget_s"]),
                   {"family": fam, "param": min(top, ov * 5 // 4), "threshold_depth": ov, "len": t["len"], "impl": "reader cpu %.3f s" % t["reader_cpu_s"], "budget_s": t["budget_s"], "timings": r["reader_time"],
                    "cause": "GeometryCollection's constructor calls setSRID(getSRID()), which walks the whole subtree: d nested collections cost d^2/2 visits (and WKBReader::readGeometry calls setSRID again at every level)"})
        m = r["at_moderate_depth"]
        if m["class"] in ("crash", "oom", "leak") and not (th and m["param"] >= th):
            report({"reader": rd, "class": m["class"] + ":" + m.get("detail", "").split(" ")[0], "phase": "moderate-depth"},
                   "%s reader: %s %s at nesting depth %d" % (rd, m["class"], m.get("detail", ""), m["param"]), {"family": fam, "param": m["param"], "impl": m})
    r = res["wkb-over"]
    if r.get("budget_exceeded_from_k"):
        p = r["at_threshold"]
        report({"reader": "wkb", "class": "superlinear-allocation"},
               "wkb reader (regression of the fix a208e3db7): %d nested collections each claiming remaining/9 elements (%d bytes) make the reader take %d KiB (budget 256 x input + 16 MiB = %d KiB); at k = %d: %d KiB" %
               (r["budget_exceeded_from_k"], p["len"], p["rss_grow_kb"], rss_budget_kb(p["len"]), r["at_k"]["param"], r["at_k"]["rss_grow_kb"]),
               {"family": "wkb-over", "param": min(r["at_k"]["param"], r["budget_exceeded_from_k"] * 5 // 4), "threshold_k": r["budget_exceeded_from_k"], "len": p["len"], "impl": "peak RSS growth %d KiB, class %s" % (p["rss_grow_kb"], p["class"]),
                "budget_kb": rss_budget_kb(p["len"]),
                "theorem": "alloc_linear / alloc_over_linear hold of the model of the fixed code (<= 4 bytes charged per input byte, <= 36 k on this family): "
                           "the implementation no longer behaves like the model - child vectors are sized from the claimed element count again?"})
    for fam in ("wkb-wide", "wkt-wide", "geojson-wide", "wkt-longnum", "geojson-array"):
        p = res[fam]
        bad = p["class"] in ("crash", "hang", "oom", "leak", "probe-failed") or p["rss_grow_kb"] > p["rss_budget_kb"] or (p.get("cpu_read_s", -1) > p["cpu_budget_s"])
        if bad:
            rd = p.get("reader", fam.split("-")[0])
            report({"reader": rd, "class": "resource-budget:" + fam},
                   "%s reader exceeds the linear resource budget on the %s reference input (%d bytes): class %s, RSS +%d KiB, reader CPU %.2f s" %
                   (rd, fam, p["len"], p["class"], p["rss_grow_kb"], p.get("cpu_read_s", -1)), {"family": fam, "param": p["param"], "impl": p})
    ctx.cov["support_resource_witnesses"] = res
    return found


def witness_tie(ctx, exe_rel):
    """the C++ witness families are, byte for byte / token for token, the Lean witness families (negative depth theorems;
    wkb-over: regression witness of alloc_over_linear)"""
    lines = []
    for fam in ("wkb-nest", "wkb-over", "hex-nest", "wkt-nest"):
        for d in (0, 1, 2, 17, 300):
            c = gen_case(exe_rel, fam, d).split(" ")
            lines.append("%s %d %s" % (fam, d, c[3] if len(c) > 3 else "-"))
    got = driver_lines("witness-eq", lines) or []
    bad = [l[:60] for l, g in zip(lines, got) if g != "same"] if got else ["driver failed"]
    ctx.cov["witness_families_equal_lean_witnesses"] = {"checked": len(lines), "differ": bad}
    if bad:
        ctx.violation("the harness' witness families are not the Lean witnesses of depth_unbounded / alloc_over_linear / wkt_depth_unbounded: %s" % bad[:3],
                      {"kind": "tie-broken", "correspondence": "witness-eq", "differ": bad}, nofail=True)


# ------------------------------------------------------------------ run
def run(ctx):
    ctx.base_trust([
        "C11 is PARTIAL: the theorems are about the Lean reader models (WKB/HEX: Model/WKB/Read.lean + Resource.lean by the C09 builder, "
        "WKT: Model/WKT/Read.lean by the C10 builder); memory safety of the models is by construction (list pattern matching), memory safety "
        "of the C++ is only OBSERVED under AddressSanitizer + UBSan + LeakSanitizer on generated inputs",
        "GeoJSON reader and the vendored nlohmann parser are not modelled: crash-only fuzzing",
        "model comparison only for inputs <= 16 KiB (WKT: and no hexadecimal floats / digit strings > 420 characters, which the strtod model "
        "does not cover); larger inputs are crash-only",
        "each input runs in a forked child: CPU limit 3 s + 20 s/MiB, 8 MiB stack, 3 GiB heap (malloc hook under ASan, RLIMIT_AS in the release build); "
        "peak RSS via wait4; resource budgets (256 x input + 16 MiB, 2 us/byte + 1 s for the read call) are this check's reading of "
        "'constant multiple' / 'linear time'",
        "fuzz nesting depth <= %d (the ASan build overflows its stack at about 2 200 WKT / 3 800 WKB levels); deeper nesting is exercised by the witness "
        "families on the release build up to 1 MiB of input" % FUZZ_MAX_DEPTH,
        "circular-arc envelope arithmetic of the CircularString constructor: Float transcription in the driver (C09's oracle), applied to WKT results too",
    ])
    try:
        soft, hard = resource.getrlimit(resource.RLIMIT_STACK)
        want = 1 << 30
        resource.setrlimit(resource.RLIMIT_STACK, (want if hard == resource.RLIM_INFINITY else min(want, hard), hard))
    except Exception:
        pass
    # translator tie: the bounds checks / count guards / child loops of ByteOrderDataInStream.h and WKBReader.cpp (spec wkb_guards, bridged in
    # Props/C11Gen.lean); C11Gen composes with the regenerated getUnsigned / minMemSize / dispatch of C09's spec wkb_words (Props/C09Gen.lean),
    # so that spec is regenerated from the same tree here too
    proved = ctx.prove_generated([("wkb_guards", "GeosModel/Generated/WkbGuards.lean", "GeosModel.Props.C11Gen"),
                                  ("wkb_words", "GeosModel/Generated/WkbWords.lean", "GeosModel.Props.C09Gen")], PROPS, extra_targets=(DRV,))
    quick = ctx.tier == "quick"
    found = 0
    seen = set()
    ok_a, out_a = verif.build_geos("asan")
    ok_r, out_r = verif.build_geos("rel")
    if not (ok_a and ok_r):
        ctx.violation("GEOS does not build with -DGEOS_VERIF (%s)" % ("asan" if not ok_a else "rel"),
                      {"kind": "build-failure", "log": (out_a if not ok_a else out_r)[-3000:]}, nofail=True)
        return
    exe_a, out_a = verif.build_harness("c11", "asan")
    exe_r, out_r = verif.build_harness("c11", "rel")
    if not exe_a or not exe_r:
        ctx.violation("harness c11 does not compile against the current tree", {"kind": "tie-broken", "correspondence": "harness/c11.cpp",
                                                                              "log": (out_a if not exe_a else out_r)[-3000:]}, nofail=True)
        return
    if not os.path.exists(verif.driver_path(DRV)):
        ctx.violation("driver drv_c11 was not built", {"kind": "tie-broken", "lean": getattr(ctx, "lean_failure", None)}, nofail=True)
        return
    # witness families (release build) run while the fuzz streams use the other cores
    pool = ThreadPoolExecutor(max_workers=1)
    wit_future = pool.submit(run_witnesses, ctx, exe_r, quick, seen)
    shards = max(4, min(verif.NPROC - 2, 14))
    n = 16000 if quick else 45000
    maxlen = 65536 if quick else MIB
    corr = {}
    for stream in STREAMS:
        t0 = time.time()
        r = verif.run_stream(exe_a, stream, ctx.seed, n, ctx.work, shards=shards, driver_exe=DRV,
                             harness_args=(str(maxlen), str(FUZZ_MAX_DEPTH)), timeout=3400)
        ndis = len(r["disagreements"]) + r.get("more_disagreements", 0)
        st = r["stats"]
        corr[stream] = {"cases": r["cases"], "disagreements": ndis, "wall_s": round(time.time() - t0, 1),
                        "model_compared": st.get("flag_M", 0), "crash_only": st.get("flag_X", 0),
                        "accepted": st.get("result_ok", 0), "rejected": st.get("result_err", 0),
                        "runtime_failures": {k[7:]: v for k, v in st.items() if k.startswith("result_") and k[7:] not in ("ok", "err")},
                        "worst_ratios_asan_build": worst_of(ctx.work, stream),
                        "distribution": st}
        ctx.cov["samples"] += r.get("samples", [])[:1]
        if r["error"]:
            ctx.violation("stream %s could not run: %s" % (stream, r["error"][:400]),
                          {"kind": "tie-broken", "correspondence": stream, "detail": r["error"][-3000:]}, nofail=True)
            continue
        if ndis:
            found += report_fuzz(ctx, exe_a, stream, all_disagreements(ctx.work, stream), seen)
    ctx.cov["support_correspondence"] = corr
    try:
        found += wit_future.result()
    finally:
        pool.shutdown()
    witness_tie(ctx, exe_r)
    if not proved:
        lf = getattr(ctx, "lean_failure", None) or {}
        ctx.violation("Lean obligations for C11 no longer check: " + "; ".join(str(i) for i in lf.get("items", [])[:5]),
                      {"kind": "proof-broken", "lean": lf}, nofail=not found)


def replay(ctx, path):
    r = json.load(open(path))
    flavour = r.get("flavour", "asan")
    verif.build_geos(flavour)
    exe, out = verif.build_harness("c11", flavour)
    verif.lake_build([DRV])
    if not exe:
        print("harness does not build")
        return 1
    if r.get("family") and not r.get("case"):
        fam, param = r["family"], int(r["param"])
        sig = r.get("signature") or {}
        cls = sig.get("class", "")
        env = {"C11_NO_EXERCISE": "1", "C11_CPU_BASE": "60", "C11_CPU_PER_MIB": "0"}
        p = probe(exe, fam, param, env=env)
        print("probe :", json.dumps(p))
        bad = p["class"] in ("crash", "hang", "oom", "leak")
        if cls == "superlinear-allocation" or cls.startswith("resource-budget"):
            bad = bad or p["rss_grow_kb"] > rss_budget_kb(p["len"])
            print("budget: %d KiB" % rss_budget_kb(p["len"]))
        if cls == "superlinear-time-deep-nesting" or cls.startswith("resource-budget"):
            bad = bad or p.get("cpu_read_s", -1) > cpu_budget_s(p["len"])
            print("budget: %.2f s for the read call" % cpu_budget_s(p["len"]))
        if bad:
            print("VIOLATION property=C11 replay=%s" % path)
            return 1
        return 0
    case = r.get("case")
    if not case:
        print("replay file has no case (kind=%s): %s" % (r.get("kind"), r.get("what")))
        return 1
    stream = case.split(" ")[0] + "-fuzz"
    impl = harness_lines(exe, ctx, [case], env={"C11_VERBOSE": "1"})
    model = driver_lines(stream, [case])
    print("case  :", case[:300])
    print("impl  :", impl and impl[0][:300])
    print("model :", model and model[0][:300])
    if not impl or not model:
        print("VIOLATION property=C11 replay=%s no-failing-input-found" % path)
        return 1
    if is_runtime_failure(impl[0]):
        print("VIOLATION property=C11 replay=%s" % path)
        return 1
    if impl[0] != model[0]:
        ill = impl[0].startswith("ok ") and (driver_lines("wf-check", [impl[0][3:]]) or [""])[0] == "ill-formed"
        print("VIOLATION property=C11 replay=%s%s" % (path, "" if ill else " no-failing-input-found"))
        return 1
    return 0
