"""C03 — overlay results are valid and equal the Boolean combination of the inputs.

proof : lean/GeosModel/Props/C03.lean — CORE: isResultOfOp = Boolean combination of closure membership (all ops x 3x3
        locations), resultDimension rule, isEmptyResult soundness (envelopes disjoint => no common point), set algebra of
        the membership spec; SPEC: the cell-wise specification R = closure(boolop(A, B)) agrees with the plain Boolean
        combination for union / intersection, is invariant under the laws the check uses (A op A, A op EMPTY, swap), and
        the executable checker is sound (accepts => every face / 1-cell / node of the arrangement of A, B, R outside the
        tolerance band has the specified membership).
tie   : streams overlay-grid / overlay-dbl — generated valid pairs and collections through GEOSIntersection / Union /
        Difference / SymDifference (also swapped, A op A, A op EMPTY), GEOSUnaryUnion, GEOSUnionCascaded,
        GEOSDisjointSubsetUnion, GEOSCoverageUnion, GEOSClipByRect; the Lean driver evaluates the exact arrangement
        oracle (Model/Overlay/Spec.lean) on (A, B, result) plus validity, exception, type / dimension / emptiness rules
        (Model/Overlay/Core.lean) and the exact area identities.  A rejected record IS a violation of C03 on that input.
        stream overlay-input — the INPUT SIDE of OverlayNG (Model/Overlay/Clip.lean, Props/C03Clip.lean): one LineLimiter object driven
        through several lines, RobustClipEnvelopeComputer::getEnvelope, EdgeNodingBuilder::build with a recording noder (clipped /
        limited point lists bit for bit, depth delta, hole flag).
Genuine defects are matched by structural signatures against KNOWN_FINDINGS.json."""
import os, json, glob, re
import verif, gtok
from verif import log

LEVEL = "proof"
PROPS = ["GeosModel.Props.C03", "GeosModel.Props.C03Clip"]
DRV = "drv_c03"


def split_case(case):
    parts = case.split(" | ")
    return parts[1], parts[2], [p.split(" ", 1)[0] for p in parts[3:]]


def evaluate(exe, a, b, ops):
    """re-run the operations in GEOS and ask the driver; returns (list of 'bad ...' messages | None if inputs invalid, case line)"""
    p = os.path.join(verif.BUILD, "work", "c03-replay-%d.txt" % os.getpid())
    os.makedirs(os.path.dirname(p), exist_ok=True)
    with open(p, "w") as f:
        f.write("O | %s | %s | %s\n" % (a, b, " | ".join(ops)))
    rc, out = verif.sh([exe, "replay", p], timeout=120)
    line = out.strip().split("\n")[-1] if out.strip() else ""
    if rc != 0:
        return ["bad %s crash rc=%d" % (ops[0] if ops else "?", rc)], line
    if not line.startswith("O |"):
        return None, "invalid"
    rc2, lines = verif.run_driver_lines("overlay-grid", [line], driver_exe=DRV)
    v = lines[0] if lines else "driver-error"
    if v == "ok":
        return [], line
    return v.split(" ;; "), line


def parse_msg(m):
    """'bad <op:variant> <clause> k=v ...' -> dict"""
    t = m.split()
    d = {"opv": t[1] if len(t) > 1 else "?", "clause": t[2] if len(t) > 2 else "?", "raw": m}
    d["op"] = d["opv"].split(":")[0]
    d["variant"] = re.sub(r"\d+$", "", d["opv"].split(":")[1]) if ":" in d["opv"] and d["op"] != "clip" else ""
    for x in t[3:]:
        if "=" in x:
            k, v = x.split("=", 1)
            d[k] = v
    if d["clause"] == "exception" and len(t) > 3:
        d["exc"] = t[3]
    return d


def corner_hit(d, a):
    """GEOSClipByRect only: does the linework of the input pass exactly through a corner of the clip rectangle — a vertex on the corner, or
    a corner lying on a segment (exact rational test on the bit patterns)?  That is the condition under which an end point of a clipped
    piece falls on a corner of the rectangle, where RectangleIntersection's position code is ambiguous (two edges at once)."""
    t = d["opv"].split(":")
    if len(t) < 6 or a is None:
        return False
    try:
        cs = [(_frac(x), _frac(y)) for x in (t[2], t[4]) for y in (t[3], t[5])]
        g = gtok.parse(a)[1]
    except Exception:
        return False
    if any(x is None or y is None for x, y in cs):
        return False
    chains = []
    def walk(e):
        tag = e[0]
        if tag in ("L", "R", "C", "P"):
            chains.append(e[1][1])
        elif tag == "Y":
            for r in e[1]:
                chains.append(r[1])
        else:
            for x in e[1]:
                walk(x)
    walk(g)
    for ch in chains:
        ps = []
        for p in ch:
            x, y = _frac(p[0]), _frac(p[1])
            if x is None or y is None:
                ps = []
                break
            ps.append((x, y))
        for i, p in enumerate(ps):
            if p in cs:
                return True
            if i + 1 < len(ps):
                q = ps[i + 1]
                for c in cs:
                    if (q[0] - p[0]) * (c[1] - p[1]) - (q[1] - p[1]) * (c[0] - p[0]) == 0 and \
                       min(p[0], q[0]) <= c[0] <= max(p[0], q[0]) and min(p[1], q[1]) <= c[1] <= max(p[1], q[1]):
                        return True
    return False


def _frac(h):
    from fractions import Fraction
    import struct
    v = struct.unpack('>d', bytes.fromhex(h))[0]
    return Fraction(v) if v == v and v not in (float("inf"), float("-inf")) else None


def self_noding(line):
    """Does the union of this operand's own elements have to create a node?  True iff two segments of the operand meet in a point
    that is not an end point of both (proper crossing, T-junction, collinear overlap), or a point element / line end lies in the
    interior of a segment of another element.  Exact rational arithmetic on the bit patterns.  This is the structural condition
    under which StructuredCollection's unionByDimension re-nodes the operand (and, with non-representable crossing points, moves
    its linework): without it the operand's linework goes into the overlay unchanged."""
    if line is None:
        return False
    try:
        g = gtok.parse(line)[1]
    except Exception:
        return False
    segs, pts = [], []           # (element id, p, q), (element id, p)
    eid = [0]
    def seq_pts(sq):
        out = []
        for p in sq[1]:
            x, y = _frac(p[0]), _frac(p[1])
            if x is None or y is None:
                return None
            out.append((x, y))
        return out
    def walk(e):
        tag = e[0]
        if tag in ("L", "R", "C", "P"):
            ps = seq_pts(e[1])
            eid[0] += 1
            if ps is None:
                return
            if tag == "P":
                pts.extend((eid[0], p) for p in ps)
            else:
                segs.extend((eid[0], ps[i], ps[i + 1]) for i in range(len(ps) - 1) if ps[i] != ps[i + 1])
        elif tag == "Y":
            eid[0] += 1
            me = eid[0]
            for r in e[1]:
                ps = seq_pts(r)
                if ps:
                    segs.extend((me, ps[i], ps[i + 1]) for i in range(len(ps) - 1) if ps[i] != ps[i + 1])
        else:
            for x in e[1]:
                walk(x)
    walk(g)
    if len(segs) > 400:
        return True
    def orient(a, b, c):
        v = (b[0] - a[0]) * (c[1] - a[1]) - (b[1] - a[1]) * (c[0] - a[0])
        return (v > 0) - (v < 0)
    def inbox(a, b, p):
        return min(a[0], b[0]) <= p[0] <= max(a[0], b[0]) and min(a[1], b[1]) <= p[1] <= max(a[1], b[1])
    for i in range(len(segs)):
        e1, a, b = segs[i]
        for j in range(i + 1, len(segs)):
            e2, c, d = segs[j]
            o1, o2, o3, o4 = orient(a, b, c), orient(a, b, d), orient(c, d, a), orient(c, d, b)
            if o1 * o2 < 0 and o3 * o4 < 0:
                return True                                   # proper crossing
            if o1 == 0 and o2 == 0:                           # collinear: overlap in more than a point?
                lo1, hi1 = min(a, b), max(a, b); lo2, hi2 = min(c, d), max(c, d)
                if max(lo1, lo2) < min(hi1, hi2):
                    return True
                continue
            for p, (u, v) in ((c, (a, b)), (d, (a, b)), (a, (c, d)), (b, (c, d))):
                if orient(u, v, p) == 0 and inbox(u, v, p) and p != u and p != v:
                    return True                               # T-junction: an end point in the interior of the other segment
    for e1, p in pts:
        for e2, a, b in segs:
            if orient(a, b, p) == 0 and inbox(a, b, p) and p != a and p != b:
                return True
    return False


def signature(d, a=None, b=None):
    """Structural key of a failing record, used to match KNOWN_FINDINGS.json.
    class clip: + cornerHit (the linework of the input passes exactly through a corner of the clip rectangle: a vertex on it or a segment through it)
    class : pointset (a face / 1-cell / node of the arrangement has the wrong membership; dir = missing | extra)
            | invalid | exception (+ exc) | crash | emptyrule | emptytype | dim | type | area | clip
    gc    : an input is a GeometryCollection (handled by StructuredCollection in HeuristicOverlay.cpp)
    gc = true                      : + op (int uni dif sym uu dsu cu clip)
    gc = false, nearIncidence      : a vertex within rounding distance of a segment of the other input WITHOUT lying exactly on it / an
                                     overlap that is collinear only up to rounding (arbitrary doubles; driver flag inexact=1): the whole
                                     family of near-degenerate robustness failures is ONE key.  Exact contacts do not count.
    gc = false, not nearIncidence  : + op, dir, dims (sorted dimensions of the two operands)"""
    cl = d["clause"]
    sig = {"gc": d.get("gc") == "1"}
    if cl in ("face", "edge", "node"):
        sig["class"] = "pointset"
    else:
        sig["class"] = cl
    if cl == "exception":
        sig["exc"] = d.get("exc", "?")
    # nearIncidence = a (near-)degenerate contact of the two inputs that is NOT exact (a vertex within rounding distance of the other
    # input's linework without lying on it, edges collinear only up to rounding).  Exact contacts (grid inputs) are decided exactly by
    # the robust predicates: a failure there is not the recorded floating-noder robustness family
    near = d.get("inexact", d.get("near")) == "1"
    if not sig["gc"]:
        sig["nearIncidence"] = near
    if sig["gc"] and sig["class"] == "pointset" and d["op"] in ("int", "uni", "dif", "sym"):
        # the recorded collection defects of the binary operations all come from StructuredCollection re-noding an operand on its own:
        # they need an operand whose own elements meet away from common end points
        v = d.get("variant", "")
        sig["selfNoding"] = self_noding(a) if v in ("aa", "ae", "ea", "a") else (self_noding(a) or self_noding(b))
    if sig["gc"] and sig["class"] == "pointset" and d["op"] in ("int", "uni", "dif", "sym") and not sig.get("selfNoding") and near:
        # a collection whose own elements do not meet is not re-noded by StructuredCollection: an INEXACT near-incidence failure on it is the
        # recorded floating-noder robustness family of the non-collection case (thorough tier: 1 case in 40 000)
        return {"class": "pointset", "gc": False, "nearIncidence": True}
    if sig["gc"] and sig["class"] == "pointset" and d["op"] == "uu":
        # the recorded unary-union defect needs linework of one element running through another element (a line crossing a polygon ring):
        # a collection whose elements do not meet each other is not that family.  (Variant gab = the collection {A, B}: not refined.)
        sig["selfNoding"] = self_noding(a) if d.get("variant", "") == "a" else True
    if sig["gc"] or not near or sig["class"] != "pointset":
        sig["op"] = d["op"]
        if sig["class"] == "pointset" and not sig["gc"]:
            sig["dir"] = "extra" if d.get("inR") == "true" else "missing"
        if not sig["gc"]:
            try:
                sig["dims"] = ",".join(str(x) for x in sorted(int(x) for x in d.get("dims", "").split(",")))
            except ValueError:
                sig["dims"] = "?"
    if sig["class"] == "clip":       # GEOSClipByRect has one operand: the other operand's features are irrelevant
        return {"class": "clip", "op": "clip", "gc": sig["gc"], "cornerHit": corner_hit(d, a)}
    return sig


def same_kind(d0, d):
    return d["op"] == d0["op"] and d["variant"] == d0["variant"] and signature(d)["class"] == signature(d0)["class"] and \
        (d.get("inR") == d0.get("inR")) and d.get("near") == d0.get("near") and d.get("inexact") == d0.get("inexact") and d.get("gc") == d0.get("gc")


def shrink(exe, a, b, d0, budget=160):
    ops = [d0["opv"]]
    best = (a, b, d0)
    progress = True
    rounds = 0
    while progress and rounds < 8 and budget > 0:
        progress = False
        rounds += 1
        for which in (0, 1):
            for cand in gtok.shrink_candidates(best[which]):
                if budget <= 0:
                    break
                budget -= 1
                na, nb = (cand, best[1]) if which == 0 else (best[0], cand)
                msgs, _ = evaluate(exe, na, nb, ops)
                if not msgs:
                    continue
                ds = [parse_msg(m) for m in msgs]
                hit = [d for d in ds if same_kind(d0, d)]
                if hit:
                    best = (na, nb, hit[0])
                    progress = True
                    break
            if progress:
                break
    return best


def run(ctx):
    ctx.base_trust([
        "SPEC: the result is compared with closure(boolop(A, B)) cell by cell on the exact arrangement of all segments of A, B and the result "
        "(Model/Overlay/Spec.lean, integer arithmetic); the step from 'every cell' to 'every location' rests on: membership in A, B, R is constant "
        "on each cell of that arrangement (faces are connected sets bounded by the segments) — geometric fact, not proved",
        "closed-set semantics for mixed dimensions as documented for OverlayNG (area − line = area; line − area = closure of the part outside the closed area; "
        "non-strict mode: intersections keep their lower-dimensional parts); GeometryCollections are read as the union of their elements",
        "tolerance band = 1e-9 × largest |ordinate| of the inputs; when every intersection point of the inputs is representable no tolerance is granted at all",
        "inside the band membership of 1-cells / nodes is three-valued (Spec.lean `opts`): a wrong line piece that stays within 1e-9·magnitude of the specified result is not detected",
        "validity of inputs is filtered and validity of results is decided with GEOSisValid (plus a light exact check in the driver: rings closed, no proper crossings)",
        "GEOSClipByRect: geos_c.h documents 'not guaranteed to return valid results' — only the point set closure(A ∩ interior(rect)) is compared",
        "input side (stream overlay-input): RingClipper's crossing points are recomputed with Lean's binary64 `Float` (no theorem speaks about them); the "
        "traversal of Multi* operands is done by the driver (polysOf / linesOf); GeometryCollection operands and fixed precision models are not covered there",
        "the noding / labelling / ring assembly of OverlayNG and the fallback ladder of OverlayNGRobust are not modelled: tied only by correspondence; which rung answered is observed from outside by re-running the public building blocks (statistics only)",
    ])
    # translator tie: the three decision functions are regenerated from the current C++ and proved equal to Model/Overlay/Core.lean
    proved = ctx.prove_generated([("overlay_core", "GeosModel/Generated/OverlayCore.lean", "GeosModel.Props.C03Gen")], PROPS, extra_targets=(DRV,))
    ok, out = verif.build_geos("rel")
    if not ok:
        ctx.violation("GEOS does not build with -DGEOS_VERIF", {"kind": "build-failure", "log": out[-3000:]}, nofail=True)
        return
    exe, out = verif.build_harness("c03")
    if not exe:
        ctx.violation("harness c03 does not compile against the current tree", {"kind": "tie-broken", "correspondence": "harness/c03.cpp", "log": out[-3000:]}, nofail=True)
        return
    quick = ctx.tier == "quick"
    known_sigs = [k.get("signature") for k in ctx.known]
    corr = {}
    found_input = False
    seen = []
    shrunk = 0
    # ---- (1) CORE tie: the real OverlayNG::isResultOfOp / OverlayUtil::resultDimension / createEmptyResult (exhaustive)
    #          and OverlayUtil::isEmptyResult (random facts) against the Lean models the theorems are about
    r = verif.run_stream(exe, "overlay-core", ctx.seed, 40000 if quick else 400000, ctx.work, shards=4, driver_exe=DRV)
    corr["overlay-core"] = {"cases": r["cases"], "disagreements": len(r["disagreements"]) + r.get("more_disagreements", 0), "distribution": r["stats"]}
    core_broken = None
    if r["error"]:
        ctx.violation("stream overlay-core could not run: " + r["error"], {"kind": "tie-broken", "correspondence": "overlay-core", "detail": r["error"]}, nofail=True)
    elif r["disagreements"]:
        idx, case, exp, got = r["disagreements"][0]
        core_broken = {"kind": "tie-broken", "correspondence": "overlay-core", "case": case, "impl": exp, "model": got,
                       "note": "R op l0 l1 = OverlayNG::isResultOfOp; D op d0 d1 = OverlayUtil::resultDimension; T d = createEmptyResult type; E op|boxA|boxB = OverlayUtil::isEmptyResult"}
    # ---- (1b) INPUT-SIDE tie: what EdgeNodingBuilder hands to the noder.  One LineLimiter object driven through several lines,
    #           RobustClipEnvelopeComputer::getEnvelope, and EdgeNodingBuilder::build with a recording noder (clipped / limited point
    #           lists bit for bit, depth delta, hole flag) against Model/Overlay/Clip.lean (theorems: Props/C03Clip.lean)
    r = verif.run_stream(exe, "overlay-input", ctx.seed, 6000 if quick else 80000, ctx.work, shards=4, driver_exe=DRV)
    corr["overlay-input"] = {"cases": r["cases"], "disagreements": len(r["disagreements"]) + r.get("more_disagreements", 0), "distribution": r["stats"]}
    input_broken = []
    if r["error"]:
        ctx.violation("stream overlay-input could not run: " + r["error"], {"kind": "tie-broken", "correspondence": "overlay-input", "detail": r["error"]}, nofail=True)
    else:
        NOTE = {"LS": "LineLimiter: ONE limiter object, limit() called for each line in turn; model Clip.limitSeq (= a fresh limiter per line, limitSeq_eq_map); "
                      "a difference means a section with a vertex / segment that is not the line's (limit_points_from_input) or a lost inside vertex (limit_keeps_inside)",
                "CE": "RobustClipEnvelopeComputer::getEnvelope(a, b, target); model Clip.robustClipEnv; the envelope must protect every shell AND hole segment whose "
                      "envelope meets the target (robustClipEnv_protects)",
                "EI": "EdgeNodingBuilder::build with a recording noder: per segment string 'E <geomIndex> <dim> <depthDelta> <isHole> <n> <keys>'; model Clip.addPolygonRing / "
                      "addLines (clip = RingClipper in binary64, depth delta from Orientation::isCCW of the ORIGINAL ring, clipped_ring_orientation_differs)"}
        kinds = []
        for idx, case, exp, got in r["disagreements"]:
            k = case.split(" ", 1)[0]
            if k in kinds:
                continue
            kinds.append(k)
            input_broken.append({"kind": "tie-broken", "correspondence": "overlay-input/" + k, "case": case[:4000], "impl": exp[:3000], "model": got[:3000], "note": NOTE.get(k, "")})
    # ---- (2) whole-engine correspondence against the exact point-set oracle
    plan = (("overlay-grid", 4000 if quick else 40000), ("overlay-dbl", 2000 if quick else 24000))
    for stream, n in plan:
        r = verif.run_stream(exe, stream, ctx.seed, n, ctx.work, shards=16, driver_exe=DRV, timeout=6000)
        st = r["stats"]
        corr[stream] = {"cases": r["cases"], "disagreements": len(r["disagreements"]) + r.get("more_disagreements", 0),
                        "records": sum(v for k, v in st.items() if k.startswith("op_")) + sum(v for k, v in st.items() if k.startswith("exception_") and not k.startswith("exception_class")),
                        "distribution": st}
        ctx.cov["samples"] += [{"case": s["case"][:300], "impl": s["impl"], "model": s["model"]} for s in r.get("samples", [])[:1]]
        # how many results matched exactly / only inside the tolerance band / needed new vertices (sample of shard 0)
        try:
            lines = open(os.path.join(ctx.work, "%s.0.cases" % stream)).read().split("\n")[:150]
            lines = [l for l in lines if l]
            _, outl = verif.run_driver_lines("overlay-stats", lines, driver_exe=DRV)
            acc = {}
            for l in outl:
                for kv in l.split():
                    if "=" in kv:
                        k, v = kv.split("=", 1)
                        if v.isdigit():
                            acc[k] = acc.get(k, 0) + int(v)
            corr[stream]["exactness_sample"] = dict(acc, cases=len(lines))
        except Exception as ex:
            corr[stream]["exactness_sample"] = {"error": repr(ex)}
        if r["error"]:
            cur = sorted(glob.glob(os.path.join(ctx.work, stream + ".*.current")))
            crashed = None
            for c in cur:
                line = open(c).read().strip()
                if line:
                    a, b, ops = split_case(line)
                    for o in ops:
                        msgs, _ = evaluate(exe, a, b, [o])
                        if msgs and "crash" in msgs[0]:
                            crashed = (a, b, o, msgs[0])
                            break
                if crashed:
                    break
            if crashed:
                found_input = True
                a, b, o, v = crashed
                ctx.violation("overlay crashes on valid input (%s)" % v,
                              {"kind": "failing-input", "stream": stream, "A": a, "B": b, "ops": [o], "A_wkt": gtok.wkt(a), "B_wkt": gtok.wkt(b), "result": v},
                              signature={"class": "crash", "op": o.split(":")[0]})
            else:
                ctx.violation("stream %s could not run: %s" % (stream, r["error"]), {"kind": "tie-broken", "correspondence": stream, "detail": r["error"]}, nofail=True)
            continue
        classes = {}
        # run_stream keeps only the first 50 disagreements; the (frequent) collection defects would hide rarer classes,
        # so every answer file of the stream is scanned here
        dis = []
        for k in range(16):
            base = os.path.join(ctx.work, "%s.%d" % (stream, k))
            if not os.path.exists(base + ".got"):
                continue
            with open(base + ".cases", errors="replace") as fc, open(base + ".got", errors="replace") as fg:
                for i, (c, g) in enumerate(zip(fc, fg)):
                    g = g.rstrip("\n")
                    if g != "ok":
                        dis.append((i, c.rstrip("\n"), "ok", g))
        corr[stream]["disagreements"] = len(dis)
        for idx, case, exp, got in dis:
            if not got.startswith("bad"):
                if "other" not in seen:
                    seen.append("other")
                    ctx.violation("driver could not evaluate a case of %s: %s" % (stream, got[:200]), {"kind": "tie-broken", "correspondence": stream, "case": case[:2000], "got": got}, nofail=True)
                continue
            a, b, ops = split_case(case)
            for m in got.split(" ;; "):
                d = parse_msg(m)
                sig0 = signature(d, a, b)
                key = json.dumps(sig0, sort_keys=True)
                classes[key] = classes.get(key, 0) + 1
                if sig0 in seen:
                    continue
                seen.append(sig0)
                if sig0 in known_sigs:          # recorded defect: no need to shrink, just note that it was seen
                    ctx.violation("overlay result violates the specification: %s" % d["raw"], {"kind": "failing-input", "A": a, "B": b, "ops": [d["opv"]]}, signature=sig0)
                    continue
                sa, sb, sd = a, b, d
                if shrunk < (8 if quick else 20) and d["clause"] != "area":
                    sa, sb, sd = shrink(exe, a, b, d, budget=90 if quick else 300)
                    shrunk += 1
                sig = signature(sd, sa, sb)
                if sig != sig0 and sig in seen:
                    continue
                if sig not in seen:
                    seen.append(sig)
                found_input = True
                ops1 = [sd["opv"]] if d["clause"] != "area" else ops
                _, line = evaluate(exe, sa, sb, ops1)
                res = ""
                if line.startswith("O |"):
                    t = line.split(" | ")[3].split(" ", 3)
                    res = gtok.wkt(t[3]) if len(t) > 3 and t[3] != "-" else "(exception %s)" % t[2]
                ctx.violation("overlay result violates the specification: %s  [%s]" % (sd["raw"], json.dumps(sig, sort_keys=True)),
                              {"kind": "failing-input", "stream": stream, "A": sa, "B": sb, "ops": ops1, "A_wkt": gtok.wkt(sa), "B_wkt": gtok.wkt(sb),
                               "result_wkt": res, "verdict": sd["raw"], "signature": sig}, signature=sig)
        corr[stream]["failure_classes"] = classes
    ctx.cov["support_correspondence"] = corr
    for ib in input_broken:
        # reported after the whole-engine streams: when they found a failing overlay input as well, this names the cause
        ctx.violation("the input preparation of OverlayNG no longer equals its Lean model (%s: %s)" % (ib["correspondence"], ib["note"][:160]), ib, nofail=True)
    if core_broken:
        ctx.violation("a decision function of OverlayNG no longer equals its Lean model (%s: impl %s, model %s)" % (core_broken["case"], core_broken["impl"], core_broken["model"]),
                      core_broken, nofail=True)
    if not proved:
        lf = getattr(ctx, "lean_failure", None) or {}
        ctx.violation("Lean obligations for C03 no longer check: " + "; ".join(str(i) for i in lf.get("items", [])[:5]),
                      {"kind": "proof-broken", "lean": lf}, nofail=not found_input)


def replay(ctx, path):
    r = json.load(open(path))
    verif.build_geos("rel")
    exe, _ = verif.build_harness("c03")
    verif.lake_build([DRV])
    rc = 0
    items = []
    if "wkt_cases" in r:          # known-finding replays: list of [wktA, wktB, [ops]]
        for wa, wb, ops in r["wkt_cases"]:
            pth = os.path.join(verif.BUILD, "work", "c03-wkt-%d.txt" % os.getpid())
            os.makedirs(os.path.dirname(pth), exist_ok=True)
            open(pth, "w").write("W | %s | %s | %s\n" % (wa, wb, " | ".join(ops)))
            _, out = verif.sh([exe, "replay", pth], timeout=60)
            line = out.strip().split("\n")[-1]
            if not line.startswith("O |"):
                print("A:", wa); print("B:", wb); print("verdict: inputs rejected (%s)" % line[:80]); rc = 1
                continue
            a, b, _ = split_case(line)
            items.append((a, b, ops))
    elif "A" in r:
        items.append((r["A"], r["B"], r.get("ops", ["int:ab", "uni:ab", "dif:ab", "sym:ab"])))
    for a, b, ops in items:
        msgs, line = evaluate(exe, a, b, ops)
        print("A:", gtok.wkt(a)); print("B:", gtok.wkt(b))
        if line.startswith("O |"):
            for rec in line.split(" | ")[3:]:
                t = rec.split(" ", 3)
                print("  %s valid=%s exc=%s -> %s" % (t[0], t[1], t[2], gtok.wkt(t[3]) if t[3] != "-" else "-"))
        print("verdict:", "ok" if msgs == [] else msgs)
        if msgs != []:
            rc = 1
    if rc:
        print("VIOLATION property=C03 replay=%s" % path)
    return rc
