"""C17 — MakeValid always returns a valid geometry and preserves valid input.

proof : lean/GeosModel/Props/C17.lean — CORE: GeometryFixer's type dispatch and keep-collapsed decision table
        (fix_dispatch_total, fix_dim_le, fix_no_collapse, collapse_kept_iff, fix_collection_keeps, fix_nest, collapse_in_collection_kept_iff, fix_empty_atomic) + consistency lemmas of the contract predicates;
        collection_dropped_keep_collapsed (`fixDropping`: the behaviour before fixCollection handed keep-collapsed down, regression reference), buildRoute_isSome_iff.
trans : Props/C17Gen.lean, C17GenMV.lean — the per-type functions of GeometryFixer.cpp, getResult and MakeValid::build, regenerated from the
        source on every run (translate/specs/geometry_fixer.py, make_valid.py), equal the dispatch model for every shape.
tie   : stream makevalid — the valid/invalid generators of C05 (structurally well-formed inputs only) through
        GEOSMakeValidWithParams: LINEWORK, STRUCTURE keepCollapsed off / on.  The driver scales input and output doubles
        exactly to one integer grid and checks the contract: output valid by the C05 reference (independent of
        GEOSisValid, which is also compared), dimension <= input, envelope within input envelope, valid input comes
        back topologically equal (exact reference DE-9IM of C01), linework: every input vertex on the output,
        structure: membership of 24x24 samples = documented region (non-zero-winding shells, holes meeting the fixed
        shell subtracted, other holes added), collapses inside collections kept when requested (regression clause `keep-collapsed`),
        result type = dispatch model, idempotence (computed with GEOS).
        12 % of the inputs are `cut trees` (harness/c17nest.h): one shell ring walking a tree of boxes joined by zero-width cuts — children
        inside (keyhole rings, 2..7 nesting levels, alternating direction) or beside (the shell repairs into several parts) — plus hole
        rings derived from the boxes (swallowing a box / a subtree, inside, equal, shifted).
        stream hole-class — the real (private) GeometryFixer::fixRing / fixHoles / classifyHoles against Model/Fix/Holes.lean
        (Props/C17Holes.lean: the point set the hole phase builds for any oracle, = the documented one for a sound oracle, = the
        expectation of the area clause) with the exact oracle `holeMeetsShell` of the area clause.
A broken clause on a generated input IS a violation of C17.  Known defects are matched by structural signatures."""
import os, json, glob
import verif, gtok
from verif import log

LEVEL = "proof"
PROPS = ["GeosModel.Props.C17", "GeosModel.Props.C17Holes"]
DRV = "drv_c17"
STREAM = "makevalid"
HOLE_STREAM = "hole-class"


def evaluate(exe, geom, method, keep):
    """re-run MakeValid on a geometry token line -> (verdict, case line)"""
    p = os.path.join(verif.BUILD, "work", "c17-replay-%d.txt" % os.getpid())
    os.makedirs(os.path.dirname(p), exist_ok=True)
    with open(p, "w") as f:
        if geom.startswith("W "):
            f.write("W %s %s %s\n" % (method, keep, geom[2:]))
        else:
            f.write("M | %s | ? | method=%s keep=%s\n" % (geom, method, keep))
    rc, out = verif.sh([exe, "replay", p], timeout=300)
    line = out.strip().split("\n")[-1] if out.strip() else ""
    if rc != 0:
        return "crash rc=%d" % rc, line
    if not line.startswith("M |"):
        return None, line
    rc2, lines = verif.run_driver_lines(STREAM, [line], driver_exe=DRV)
    return (lines[0] if lines else "driver-error"), line


def fields(v):
    d = {}
    for x in v.split():
        if "=" in x:
            k, val = x.split("=", 1)
            d[k] = val
    return d


def signature(verdict):
    """Structural key of a broken clause.
    clause : terminates | returns-geometry | output-finite | output-valid | isvalid-vs-ref | dimension | envelope | valid-input-preserved |
             vertex-kept | area | keep-collapsed | dispatch | idempotent | crash
    method : L (linework) | S (structure);  keep: keepCollapsed (structure only)
    finite : all input ordinates finite;  invalidLinearRing / pointRing: the input contains an invalid LinearRing element /
    a polygon ring all of whose points coincide (exact, from the driver);  emptyOutput: the result is empty;
    ringRetracesEdge: some polygon ring runs over one of its own edges more than once;  retracedSameDirection: two of those passes point the same
    way (a piece of real boundary walked again — a spike laid along an edge; a zero-width cut or free spike has opposite passes only);
    code (output-valid clause): the rule(s) of the C05 reference the output breaks;  bothOrientations: some input polygon ring has faces of
    positive AND negative winding number (bufferByZero(geom, true) puts two orientation buffers together);  model / impl: result types of the dispatch clause;
    insideCollection (keep-collapsed clause): the collapse that was not kept although keepCollapsed is on is an element of a GeometryCollection"""
    t = verdict.split()
    if verdict.startswith("crash"):
        return {"clause": "crash"}
    if len(t) < 2 or t[0] != "bad":
        return {"clause": t[0] if t else "?"}
    d = fields(verdict)
    names = {"no-termination": "terminates", "crash-in-child": "crash", "null-result": "returns-geometry", "nonfinite-output": "output-finite", "output-invalid": "output-valid",
             "isvalid-disagrees-with-ref": "isvalid-vs-ref", "dimension": "dimension", "envelope": "envelope",
             "valid-input-changed": "valid-input-preserved", "vertex-lost": "vertex-kept", "area": "area", "dispatch": "dispatch",
             "keep-collapsed": "keep-collapsed",
             "idempotence": "idempotent"}
    sig = {"clause": names.get(t[1], t[1]), "method": d.get("method", "?"), "finite": d.get("finite") == "1"}
    if sig["method"] == "S":
        sig["keep"] = d.get("keep") == "1"
    if sig["clause"] == "returns-geometry":
        sig["invalidLinearRing"] = d.get("ring") == "1"
        sig["pointRing"] = d.get("ptring") == "1"
    if sig["clause"] == "idempotent":
        sig["emptyOutput"] = d.get("emptyout") == "1"
        sig["onlyMultiWrapping"] = d.get("idem") == "W"
    if sig["clause"] == "area":
        sig["ringRetracesEdge"] = d.get("retrace") == "1"
        sig["retracedSameDirection"] = d.get("rsame") == "1"
        if d.get("htouch") == "1":
            sig["holeTouchesSelfCrossingShell"] = True
    if sig["clause"] == "output-valid":
        sig["code"] = d.get("code", "?")
        sig["bothOrientations"] = d.get("lobes") == "1"
    if sig["clause"] == "keep-collapsed":
        sig["insideCollection"] = d.get("incoll") == "1"
    if sig["clause"] == "dispatch":
        mt, it = d.get("mt", "?"), d.get("it", "?")
        # the recorded finding "an empty polygonal result is typed as an empty collection", met at any depth of a collection: the two type
        # trees differ only where the model has polygon:empty and the implementation collection:empty
        if mt != it and mt.replace("polygon:empty", "collection:empty") == it.replace("polygon:empty", "collection:empty"):
            mt, it = "polygon:empty", "collection:empty"
        sig["model"] = mt[:40]
        sig["impl"] = it[:40]
    return sig


def all_disagreements(work, stream, shards, r):
    """verif.run_stream keeps the first 50 disagreements only (in shard order) and counts the rest; the recorded linework
    findings alone produce more than that in a quick run, so the later shards would never be looked at.  Re-read the
    shard files it leaves in the work directory and return every disagreement."""
    if not r.get("more_disagreements"):
        return r["disagreements"]
    res = []
    for k in range(shards):
        base = os.path.join(work, "%s.%d" % (stream, k))
        try:
            with open(base + ".cases", errors="replace") as fc, open(base + ".expect", errors="replace") as fe, open(base + ".got", errors="replace") as fg:
                for i, (c, e, g) in enumerate(zip(fc.read().split("\n"), fe.read().split("\n"), fg.read().split("\n"))):
                    if c and e != g:
                        res.append((i, c, e, g))
        except OSError:
            return r["disagreements"]
    return res if len(res) >= len(r["disagreements"]) else r["disagreements"]


def raw_keep(verdict, sig):
    """the keepCollapsed value the case was run with (the C API takes an int; the harness sometimes passes one other than 0/1)"""
    k = fields(verdict).get("kraw", "?")
    try:
        return str(int(k))
    except ValueError:
        return "1" if sig.get("keep") else "0"


def shrink(exe, geom, verdict):
    sig0 = signature(verdict)
    method, keep = sig0.get("method", "S"), raw_keep(verdict, sig0)
    best = (geom, verdict)
    progress, rounds = True, 0
    while progress and rounds < 8:
        progress = False
        rounds += 1
        try:
            cands = list(gtok.shrink_candidates(best[0]))
        except Exception:
            break
        for cand in cands[:50]:
            v, _ = evaluate(exe, cand, method, keep)
            if v and v.startswith("bad") and signature(v) == sig0:
                best = (cand, v)
                progress = True
                break
    return best


def safe_wkt(geom):
    try:
        return gtok.wkt(geom)
    except Exception:
        return "?"


def run(ctx):
    ctx.base_trust([
        "the repair algorithms (noding, polygonization, buffer by zero, overlay) are not modelled: only the contract of the result is checked, by correspondence",
        "validity of the output is decided by the C05 reference evaluator on exactly scaled doubles (see C05 trusted base); topological equality by the C01 reference matrix",
        "structure-method area semantics = GeometryFixer.h: non-zero-winding region of each fixed ring, holes that meet the fixed shell are subtracted, "
        "holes that do not are converted into polygons, a shell without area collapses the polygon; sampled on a 24x24 grid over the input envelope (points on input or output segments skipped)",
        "inputs are structurally well-formed (rings closed with 0 or >= 3 points as the constructors require); unclosed rings forced in through LinearRing::setPoints are excluded",
        "envelope / vertex tolerances: 2^-36 of the largest coordinate; idempotence and GEOSisValid of the output are computed by GEOS in the harness",
        "the dispatch model takes the kind of areal sub-results (Polygon vs MultiPolygon, holes erasing the shell) from the observed output",
        "translator (translate/cxx2lean.py + translate/cxx_ext.py, specs geometry_fixer / make_valid): input pointers = the model's Shape, "
        "results = Option Res, GeometryFactory::createX = the Res of that kind, accessors = the Shape field named in Model/Fix/Cxx.lean; "
        "fixRing, everything after the no-holes test of fixPolygonElement, ring->isValid(), OverlayNGRobust::Union and the recursive "
        "elemFixer.getResult() of fixCollection are oracles of the regenerated code (hypotheses of the bridge theorems), not translated",
    ])
    # translator tie: GeometryFixer's per-type decision functions + getResult, and MakeValid::build's dispatch, are regenerated
    # from the current source and proved equal to the dispatch model (Props/C17Gen.lean, Props/C17GenMV.lean); the `dispatch`
    # clause of the stream exercises the same functions on concrete inputs
    proved = ctx.prove_generated([("geometry_fixer", "GeosModel/Generated/GeometryFixer.lean", "GeosModel.Props.C17Gen"),
                                  ("make_valid", "GeosModel/Generated/MakeValid.lean", "GeosModel.Props.C17GenMV")], PROPS, extra_targets=(DRV,))
    ok, out = verif.build_geos("rel")
    if not ok:
        ctx.violation("GEOS does not build with -DGEOS_VERIF", {"kind": "build-failure", "log": out[-3000:]}, nofail=True)
        return
    exe, out = verif.build_harness("c17")
    hole_class_available = True
    if not exe:
        # the stream hole-class calls PRIVATE members of GeometryFixer by name (fixRing / fixHoles / classifyHoles): a behaviour-preserving
        # refactoring of that private interface must not raise an alarm — build without the stream and tie the hole phase through the
        # makevalid stream alone for this run (same policy as a refusal of the translator, DESIGN 8.9)
        exe, out2 = verif.build_harness("c17", extra=["-DC17_NO_HOLECLASS"])
        hole_class_available = False
        if not exe:
            ctx.violation("harness c17 does not compile against the current tree", {"kind": "tie-broken", "correspondence": "harness/c17.cpp", "log": (out + out2)[-3000:]}, nofail=True)
            return
        log("harness c17: the private hole-phase members of GeometryFixer are not reachable under their names; stream hole-class skipped for this run")
    quick = ctx.tier == "quick"
    n = 4800 if quick else 240000
    found_input = False
    r = verif.run_stream(exe, STREAM, ctx.seed, n, ctx.work, shards=8, driver_exe=DRV, timeout=12000)
    fam = {}
    for k, v in r["stats"].items():
        if k.startswith("family_"):
            base = k[7:].split("+")
            if len(base) == 1 and not base[0].startswith("rand_"):
                fam["templates_hit"] = fam.get("templates_hit", 0) + 1
            for m in base[1:]:
                fam["mutation_" + m] = fam.get("mutation_" + m, 0) + v
            if base[0].startswith("rand_"):
                fam[base[0]] = fam.get(base[0], 0) + v
    dist = {k: v for k, v in r["stats"].items() if not k.startswith("family_")}
    dist.update(fam)
    corr = {STREAM: {"cases": r["cases"], "disagreements": len(r["disagreements"]) + r.get("more_disagreements", 0), "distribution": dist}}
    ctx.cov["samples"] += [{"case": s["case"][:300], "impl": s["impl"], "model": s["model"]} for s in r.get("samples", [])[:2]]
    if r["error"]:
        crashed = None
        for c in sorted(glob.glob(os.path.join(ctx.work, STREAM + ".*.current"))):
            line = open(c).read().strip()
            parts = line.split(" | ")
            if len(parts) >= 4:
                f = fields(parts[3])
                v, _ = evaluate(exe, parts[1], f.get("method", "S"), f.get("keep", "0"))
                if v and v.startswith("crash"):
                    crashed = (parts[1], f, v)
                    break
        if crashed:
            found_input = True
            ctx.violation("MakeValid crashes (%s)" % crashed[2],
                          {"kind": "failing-input", "stream": STREAM, "geom": crashed[0], "wkt": safe_wkt(crashed[0]), "method": crashed[1].get("method"),
                           "keep": crashed[1].get("keep"), "result": crashed[2]}, signature={"clause": "crash"})
        else:
            ctx.violation("stream %s could not run: %s" % (STREAM, r["error"]), {"kind": "tie-broken", "correspondence": STREAM, "detail": r["error"]}, nofail=True)
    seen, shrunk = [], 0
    for idx, case, exp, got in all_disagreements(ctx.work, STREAM, 8, r):
        parts = case.split(" | ")
        if len(parts) < 4:
            continue
        geom = parts[1]
        sig0 = signature(got)
        if sig0 in seen:
            continue
        seen.append(sig0)
        if shrunk < 10 and got.startswith("bad"):
            geom, got = shrink(exe, geom, got)
            shrunk += 1
        sig = signature(got)
        if sig != sig0 and sig in seen:
            continue
        seen.append(sig)
        found_input = True
        method, keep = sig.get("method", "S"), raw_keep(got, sig)
        _, obs = evaluate(exe, geom, method, keep)
        op = obs.split(" | ") if obs else []
        ctx.violation("MakeValid breaks its contract: %s  [%s]" % (got, json.dumps(sig, sort_keys=True)),
                      {"kind": "failing-input", "stream": STREAM, "geom": geom, "wkt": safe_wkt(geom), "method": method, "keep": keep,
                       "output_wkt": (safe_wkt(op[2]) if len(op) > 2 and op[2] != "NULL" else "NULL"), "observed": op[3] if len(op) > 3 else "",
                       "verdict": got, "signature": sig}, signature=sig)
    # the hole phase of fixPolygonElement: which fixed holes the real classifyHoles subtracts / adds, against the model
    nh = 1200 if quick else 60000
    if hole_class_available:
        rh = verif.run_stream(exe, HOLE_STREAM, ctx.seed, nh, ctx.work, shards=8, driver_exe=DRV, timeout=12000)
        hd = all_disagreements(ctx.work, HOLE_STREAM, 8, rh)
        corr[HOLE_STREAM] = {"cases": rh["cases"], "disagreements": len(hd),
                             "distribution": {k: v for k, v in rh["stats"].items() if not k.startswith("family_")}}
    else:
        rh, hd = {"error": None}, []
        corr[HOLE_STREAM] = {"cases": 0, "disagreements": 0, "skipped": "the private members GeometryFixer::fixRing / fixHoles / classifyHoles are not reachable under "
                             "these names in the current tree; the hole phase is tied through the makevalid stream alone for this run"}
    if rh["error"]:
        ctx.violation("stream %s could not run: %s" % (HOLE_STREAM, rh["error"]), {"kind": "tie-broken", "correspondence": HOLE_STREAM, "detail": rh["error"]}, nofail=True)
    hole_failing = False
    for idx, case, exp, got in hd[:12]:
        parts = case.split(" | ")
        if len(parts) < 3:
            continue
        # a hole in the wrong list changes the point set unless it only touches: look for the broken clause of the contract
        for keep in ("0", "1"):
            v, obs = evaluate(exe, parts[1], "S", keep)
            if v and (v.startswith("bad") or v.startswith("crash")):
                sig = signature(v)
                if sig in seen:
                    hole_failing = True
                    break
                seen.append(sig)
                op = obs.split(" | ") if obs else []
                if ctx.violation("MakeValid breaks its contract (classifyHoles put a hole into the wrong list: %s): %s  [%s]" % (got, v, json.dumps(sig, sort_keys=True)),
                                 {"kind": "failing-input", "stream": HOLE_STREAM, "geom": parts[1], "wkt": safe_wkt(parts[1]), "method": "S", "keep": keep,
                                  "output_wkt": (safe_wkt(op[2]) if len(op) > 2 and op[2] != "NULL" else "NULL"), "hole_class": got, "verdict": v, "signature": sig}, signature=sig):
                    hole_failing = True
                    found_input = True
                break
        if hole_failing:
            break
    if hd and not hole_failing:
        ctx.violation("GeometryFixer::classifyHoles and Model/Fix/Holes.lean (oracle holeMeetsShell) disagree on %d inputs, e.g. %s; no broken clause of the contract found on them" % (len(hd), hd[0][3]),
                      {"kind": "tie-broken", "correspondence": HOLE_STREAM, "geom": hd[0][1].split(" | ")[1] if " | " in hd[0][1] else "", "verdict": hd[0][3]}, nofail=True)
    ctx.cov["support_correspondence"] = corr
    if not proved:
        lf = getattr(ctx, "lean_failure", None) or {}
        ctx.violation("Lean obligations for C17 no longer check: " + "; ".join(str(i) for i in lf.get("items", [])[:5]),
                      {"kind": "proof-broken", "lean": lf}, nofail=not found_input)


def replay(ctx, path):
    r = json.load(open(path))
    verif.build_geos("rel")
    exe, _ = verif.build_harness("c17")
    verif.lake_build([DRV])
    items = []
    if "cases" in r:                      # known-finding replays: list of {wkt, method, keep}
        items = [("W " + c["wkt"], c.get("method", "S"), str(c.get("keep", 0))) for c in r["cases"]]
    elif "geom" in r:
        items = [(r["geom"], r.get("method", "S"), str(r.get("keep", "0")))]
    rc = 0
    for g, m, k in items:
        v, obs = evaluate(exe, g, m, k)
        op = obs.split(" | ") if obs else []
        print("input   :", g[2:] if g.startswith("W ") else safe_wkt(g), " method=%s keep=%s" % (m, k))
        print("output  :", safe_wkt(op[2]) if len(op) > 2 and op[2] != "NULL" else "NULL")
        print("verdict :", v)
        if v != "ok":
            rc = 1
    if rc:
        print("VIOLATION property=C17 replay=%s" % path)
    return rc
