"""C13 — reentrant API: threads with own contexts and objects do not interfere.

proof   : lean/GeosModel/Props/C13.lean
            generic (all schedules, any number of threads, SC): no_race_of_discipline, transcript_eq_sequential,
            independent_of_discipline, reentrant_threads_do_not_interfere, refcount_unobserved;
            over the generated inventory: inventory_disciplined (every process-wide cell / mutable member is safe by
            its declared TYPE or is an exception named in the theorem statement).
tie (T) : translate/globals_inventory.py regenerates lean/GeosModel/Generated/Globals.lean on every run from the symbol
          tables of the freshly built libgeos.so / libgeos_c.so (rel flavour) and from the headers; the theorem is
          re-checked against it.  A new plain global / function static / mutable member breaks the proof.
          translate/shared_objects_inventory.py regenerates lean/GeosModel/Generated/SharedObjects.lean: every data member of the
          classes that live inside a prepared geometry / built index with the member functions that write it; theorem
          shared_objects_written_only_while_built demands that every writer is a build-phase function named in its statement
          (a query method that starts writing its object — memo, counter, scratch buffer — breaks the proof).
model   : Model/Conc/IndexedLocate.lean = IndexedPointInAreaLocator::locate on a built locator (ray-crossing counter of C07 fed
          with the reported segments); Proofs/Conc/IndexedLocate.lean: the answer does not depend on report order / extra
          segments and is the even-odd rule; Props: shared_built_locator_schedule_independent (all schedules).
          stream `sharedlocate` (direct correspondence): one lattice polygon, prepared and fully built before sharing, asked
          point predicates by 2..8 threads at once (different points, hundreds of rounds); every answer of every round must
          be the one the model's location implies.
support : harness/c13.cpp — 2..16 threads, own contexts, random scripts on private data and on shared pre-built immutable
          geometries, contexts created/destroyed inside the scripts; transcripts vs. the same script run alone (rel
          flavour); targeted scenarios for each race candidate; in the thorough tier (and in replays) the same under
          ThreadSanitizer (clang-14) to obtain concrete racing accesses.
The exceptions of class `raceCandidate` that are still `plain` in the inventory are reported as violations with a
signature per cell (they are real unsynchronised accesses on the pinned tree) — the coordinator fixes them or records
them in KNOWN_FINDINGS.json."""
import json, os, re, subprocess
import verif
from verif import log

LEVEL = "proof"
PROPS = ["GeosModel.Props.C13"]
DRV = "drv_c13"
GEN = os.path.join(verif.LEAN, "GeosModel", "Generated", "Globals.lean")
TRANSLATOR = os.path.join(verif.ROOT, "translate", "globals_inventory.py")
GEN2 = os.path.join(verif.LEAN, "GeosModel", "Generated", "SharedObjects.lean")
TRANSLATOR2 = os.path.join(verif.ROOT, "translate", "shared_objects_inventory.py")

# race-candidate cell -> (targeted scenario of harness/c13.cpp, functions that touch it, what happens, minimal fix)
CANDIDATES = {
    "GeometryFactory::_refCount": ("refcount", ["GeometryFactory::addRef", "GeometryFactory::dropRef"],
        "`mutable int _refCount` of the shared default GeometryFactory is ++/-- by every geometry constructor/destructor of every thread",
        "declare it `mutable std::atomic<int> _refCount;` (include <atomic>); addRef/dropRef stay as they are"),
    "(anonymous namespace)::requested": ("interrupt", ["Interrupt::cancel", "Interrupt::process", "Interrupt::request", "Interrupt::check", "Interrupt::interrupt"],
        "`bool requested` in Interrupt.cpp is written by GEOS_init_r -> Interrupt::cancel() in any thread while every poll of every other thread reads it",
        "`std::atomic<bool> requested{false};`"),
    "(anonymous namespace)::callback": ("interrupt", ["Interrupt::registerCallback", "Interrupt::process"],
        "`Callback* callback` in Interrupt.cpp is read by every poll and written by GEOS_interruptRegisterCallback",
        "`std::atomic<Interrupt::Callback*> callback{nullptr};` and load it once per process() call"),
    "GEOSversion::version": ("version", ["GEOSversion"],
        "`static char version[256]` is rewritten by snprintf on every call of GEOSversion() (same bytes; write/write race)",
        "return the string literal GEOS_CAPI_VERSION directly"),
    "CoordinateSequence::m_hasdim": ("hasz", ["CoordinateSequence::getDimension", "CoordinateSequence::hasZ"],
        "const getDimension() stores m_hasdim = true and then m_hasz = true on a sequence created with unknown dimension; a concurrent hasZ() on the same shared geometry can read hasdim=1, hasz=0 (wrong answer, shown as a model schedule in Props/C13)",
        "compute the dimension eagerly when the sequence is attached to a geometry, or store m_hasz before m_hasdim with release/acquire atomics"),
    "CoordinateSequence::m_hasz": ("hasz", ["CoordinateSequence::getDimension", "CoordinateSequence::hasZ"],
        "see CoordinateSequence::m_hasdim", "see CoordinateSequence::m_hasdim"),
    "GeometryCollection::flags": ("gcflags", ["GeometryCollection::setFlags"],
        "const setFlags() lazily fills `mutable CollectionFlags flags` (|= on bit-fields, then flagsCalculated = true) from any thread that asks getDimension()/hasZ()/hasM()/isDimensionStrict() of a shared collection",
        "compute the flags in the constructor (children are already there), or guard with std::call_once"),
}


def parse_generated():
    cells = []
    if not os.path.exists(GEN):
        return cells
    for m in re.finditer(r'\{ name := "((?:[^"\\]|\\.)*)", lib := "([^"]*)", kind := \.(\w+), ty := \.(\w+), decl := "((?:[^"\\]|\\.)*)", loc := "([^"]*)", size := (\d+) \}', open(GEN).read()):
        cells.append({"name": m.group(1), "lib": m.group(2), "kind": m.group(3), "ty": m.group(4), "decl": m.group(5), "loc": m.group(6)})
    return cells


def parse_exceptions():
    src = verif.strip_comments(open(os.path.join(verif.LEAN, "GeosModel", "Props", "C13.lean")).read())
    m = re.search(r"def exceptions[^\n]*:=\s*\[(.*?)\n\]", src, re.S)
    if not m:
        return {}
    return {a: b for a, b in re.findall(r'\("((?:[^"\\]|\\.)*)",\s*\.(\w+)\)', m.group(1))}


def parse_members():
    """members of Generated/SharedObjects.lean -> list of dict(name, ty, decl, loc, writers)"""
    out = []
    if not os.path.exists(GEN2):
        return out
    for m in re.finditer(r'\{ name := "((?:[^"\\]|\\.)*)", ty := \.(\w+), decl := "((?:[^"\\]|\\.)*)", loc := "([^"]*)", writers := \[([^\]]*)\] \}', open(GEN2).read()):
        out.append({"name": m.group(1), "ty": m.group(2), "decl": m.group(3), "loc": m.group(4), "writers": re.findall(r'"((?:[^"\\]|\\.)*)"', m.group(5))})
    return out


def parse_allowed_writers():
    src = verif.strip_comments(open(os.path.join(verif.LEAN, "GeosModel", "Props", "C13.lean")).read())
    m = re.search(r"def allowedWriters[^\n]*:=\s*\[(.*?)\n\]", src, re.S)
    if not m:
        return {}
    return {a: (re.findall(r'"((?:[^"\\]|\\.)*)"', b), c) for a, b, c in re.findall(r'\("((?:[^"\\]|\\.)*)",\s*\[([^\]]*)\],\s*\.(\w+)\)', m.group(1))}


def tsan_reports(text):
    """-> list of dict(kind, frames=[innermost GEOS function of each of the two accesses], block)"""
    out = []
    for blk in re.split(r"={18,}", text):
        if "WARNING: ThreadSanitizer:" not in blk:
            continue
        kind = re.search(r"WARNING: ThreadSanitizer: ([^\(\n]+)", blk).group(1).strip()
        tops = []
        # each access: header line "(Previous )?(atomic )?(write|read) of size N ..." followed by its stack
        for m in re.finditer(r"^\s*(?:Previous )?(?:atomic )?(?:write|read) of size[^\n]*\n((?:\s+#\d+ [^\n]*\n)+)", blk, re.I | re.M):
            fn = None
            for fr in re.findall(r"#\d+ (.+?) (?:/\S+|<null>)", m.group(1)):
                name = re.sub(r"\(.*", "", fr).strip()
                if "geos::" in name or name.startswith("GEOS"):
                    fn = name
                    break
            tops.append(fn or "?")
        out.append({"kind": kind, "frames": tops, "block": blk.strip()[:2500]})
    return out


def short_fn(fn):
    fn = re.sub(r"\(.*", "", fn)
    parts = [p for p in fn.split("::") if p]
    return "::".join(parts[-2:]) if parts else fn


def cell_of_report(rep):
    fr = " ".join(rep["frames"])
    if "Interrupt::registerCallback" in fr:
        return "(anonymous namespace)::callback"
    for cell, (_, fns, _, _) in CANDIDATES.items():
        if any(short_fn(f).split("::")[-1] in fr and short_fn(f).split("::")[0] in fr for f in fns):
            return cell
    return None


# ThreadSanitizer reports that belong to a recorded finding although they are not about one inventory cell: frames -> signature
KNOWN_MECHANISMS = [
    (("MCIndexSegmentSetMutualIntersector::", "SegmentSetMutualIntersector::setSegmentIntersector", "FastSegmentSetIntersectionFinder::"),
     {"class": "scenario-fails", "scenario": "sharedprep"},
     "per-call state (segment intersector pointer, query chains, counters) kept in the MCIndexSegmentSetMutualIntersector of a shared prepared geometry"),
]


def mechanism_of_report(rep):
    fr = [f for f in rep["frames"] if f and f != "?"]
    for pats, sig, what in KNOWN_MECHANISMS:
        if fr and all(any(p_ in f for p_ in pats) for f in fr):
            return sig, what
    return None, None


def run_tsan(ctx, args, timeout=1200):
    ok, out = verif.build_geos("tsan")
    if not ok:
        return None, "tsan flavour does not build: " + out[-1500:]
    exe, out = verif.build_harness("c13", "tsan")
    if not exe:
        return None, "harness c13 (tsan) does not compile: " + out[-1500:]
    env = {"TSAN_OPTIONS": "halt_on_error=0:exitcode=0:report_signal_unsafe=0:history_size=4:second_deadlock_stack=0"}
    rc, txt = verif.sh([exe] + list(args), timeout=timeout, env=env)
    return (rc, txt), None


def run_model_sl(case):
    rc, got = verif.run_driver_lines("sharedlocate", [case], driver_exe=DRV)
    got = [g for g in got if g != ""]
    return got[0] if got else "?"


def run_impl_sl(exe, work, case, times=6):
    """-> the first answer line that contains an X within `times` runs, else the last answer"""
    p = os.path.join(work, "sl-%d.txt" % os.getpid())
    with open(p, "w") as f:
        f.write(case + "\n")
    last = ""
    for _ in range(times):
        rc, txt = verif.sh([exe, "replay", p], timeout=300)
        lines = [l for l in txt.split("\n") if l.strip()]
        last = lines[-1] if lines else ""
        if rc != 0 or "X" in last:
            return last or ("crash rc=%d" % rc)
    return last


def sl_parse(case):
    tk = case.split()
    T, rounds, nr = int(tk[1]), int(tk[2]), int(tk[3])
    p = 4
    rings = []
    for _ in range(nr):
        n = int(tk[p]); rings.append(tk[p:p + 1 + 2 * n]); p += 1 + 2 * n
    pts = []
    for _ in range(T):
        k = int(tk[p]); pts.append([(tk[p + 1 + 2 * i], tk[p + 2 + 2 * i]) for i in range(k)]); p += 1 + 2 * k
    return rounds, rings, pts


def sl_make(rounds, rings, pts):
    s = ["SL", str(len(pts)), str(rounds), str(len(rings))]
    for r in rings:
        s += r
    for v in pts:
        s += [str(len(v))] + [c for q in v for c in q]
    return " ".join(s)


def shrink_sl(exe, work, case, exp):
    try:
        rounds, rings, pts = sl_parse(case)
    except Exception:
        return case, exp
    rounds = max(rounds, 2000)
    best = (sl_make(rounds, rings, pts), exp)
    changed, guard = True, 0
    while changed and guard < 40:
        changed = False
        guard += 1
        cands = []
        if len(pts) > 2:
            cands += [pts[:i] + pts[i + 1:] for i in range(len(pts))]
        for i, v in enumerate(pts):
            if len(v) > 1:
                cands += [pts[:i] + [v[:j] + v[j + 1:]] + pts[i + 1:] for j in range(len(v))]
        for c in cands[:24]:
            line = sl_make(rounds, rings, c)
            ans = run_impl_sl(exe, work, line)
            if "X" in ans:
                pts, best, changed = c, (line, ans), True
                break
    return best


def run(ctx):
    ctx.base_trust([
        "interleaving model (Model/Conc/Interleave.lean): sequential consistency only, no weak memory; race = two threads simultaneously enabled on conflicting non-atomic accesses",
        "premise of the property: an API call touches only its own context/objects, shared immutable geometries, and process-wide state; the inventory of process-wide state is complete because it is the linker's symbol table of the freshly built libraries (.data/.bss/.tdata/.tbss, locals included), plus every `mutable` member of geom / geom::prep / index::strtree headers",
        "translate/globals_inventory.py (readelf, c++filt, regex lookup of the declared type; fails loudly when a symbol cannot be resolved)",
        "exception list of inventory_disciplined: hand classification (neverWritten / notWrittenByConstMethods / excludedLazyIndex / perCallTemporary / legacyNonReentrantApi) justified by reading the source, not by proof",
        "multi-threaded harness and ThreadSanitizer runs are support: they see only the schedules that happen",
        "translate/shared_objects_inventory.py: textual scan (explicit list of headers: prepared geometries, point-in-area locators, FastSegmentSetIntersectionFinder, "
        "MCIndexSegmentSetMutualIntersector, IndexedFacetDistance, FacetSequence, TemplateSTRtree, MonotoneChain); writes through references / pointers passed to "
        "other functions are invisible to it; RelateNG's prepared mode is not inventoried",
        "Model/Conc/IndexedLocate.lean: the shared-memory footprint of locate() on a built locator (reads the index, everything else local to the call) is read off the "
        "source and guarded by the member inventory; stream sharedlocate ties answers, not footprints",
    ])
    ok, out = verif.build_geos("rel")
    if not ok:
        ctx.violation("GEOS does not build with -DGEOS_VERIF", {"kind": "build-failure", "log": out[-3000:]}, nofail=True)
        return
    # ---- sync: regenerate the inventory from the fresh libraries
    libdir = os.path.join(verif.geos_dir("rel"), "lib")
    before = {c["name"]: c for c in parse_generated()}
    with verif.Lock("lake"):
        rc, tout = verif.sh(["python3", TRANSLATOR, "--repo", verif.REPO, "--libdir", libdir, "--out", GEN], timeout=600)
    ctx.cov["translator"] = tout.strip()[-400:]
    translator_ok = rc == 0
    if not translator_ok:
        ctx.violation("globals inventory cannot be regenerated from the current tree (a symbol or `mutable` member could not be resolved): %s" % tout.strip()[-600:],
                      {"kind": "tie-broken", "translator": "translate/globals_inventory.py", "output": tout[-3000:]}, nofail=True)
    with verif.Lock("lake"):
        rc2, tout2 = verif.sh(["python3", TRANSLATOR2, "--repo", verif.REPO, "--out", GEN2], timeout=600)
    ctx.cov["translator_shared_objects"] = tout2.strip()[-400:]
    if rc2 != 0:
        translator_ok = False
        ctx.violation("the member inventory of the classes inside prepared geometries cannot be regenerated from the current tree (a header moved, or a data member line could not be parsed): %s" % tout2.strip()[-600:],
                      {"kind": "tie-broken", "translator": "translate/shared_objects_inventory.py", "output": tout2[-3000:]}, nofail=True)
    cells = parse_generated()
    exc = parse_exceptions()
    members = parse_members()
    allowed = parse_allowed_writers()
    proved = ctx.prove(PROPS, extra_targets=(DRV,)) and translator_ok
    plain = [c for c in cells if c["ty"] == "plain"]
    ctx.cov["inventory"] = {"cells": len(cells), "by_kind": {k: sum(1 for c in cells if c["kind"] == k) for k in sorted({c["kind"] for c in cells})},
                            "by_type_class": {k: sum(1 for c in cells if c["ty"] == k) for k in sorted({c["ty"] for c in cells})},
                            "exceptions_in_theorem": len(exc),
                            "exceptions_by_reason": {k: sum(1 for v in exc.values() if v == k) for k in sorted(set(exc.values()))},
                            "stale_exceptions": sorted(n for n in exc if not any(c["name"] == n and c["ty"] == "plain" for c in cells))}
    # cells that are plain and not excused: this is what makes inventory_disciplined fail
    unexcused = [c for c in plain if c["name"] not in exc]
    for c in unexcused:
        sig = {"class": "new-unsynchronised-shared-cell", "cell": c["name"]}
        ctx.violation("process-wide / shared-object cell `%s` (%s, %s) is ordinary non-atomic non-const memory and is not covered by inventory_disciplined" % (c["name"], c["decl"], c["loc"]),
                      {"kind": "proof-broken", "theorem": "GeosModel.Conc.inventory_disciplined", "cell": c, "signature": sig,
                       "hint": "make it const / std::atomic / thread_local, or guard it; the thorough tier runs ThreadSanitizer to look for a concrete racing schedule"},
                      nofail=True, signature=sig)
    # members of shared-after-build objects written by a function that is not a named build-phase function: this is what makes
    # shared_objects_written_only_while_built fail
    safe_ty = {"atomic", "mutex", "threadLocal", "constAfterInit", "guard"}
    bad_members = []
    for mb in members:
        if mb["ty"] in safe_ty:
            continue
        extra = [w for w in mb["writers"] if w not in allowed.get(mb["name"], ([], ""))[0]]
        if extra:
            bad_members.append((mb, extra))
    ctx.cov["shared_objects"] = {"members": len(members), "classes": len({m_["name"].rsplit("::", 1)[0] for m_ in members}),
                                 "safe_by_type": sum(1 for m_ in members if m_["ty"] in safe_ty),
                                 "written_by_some_function": sum(1 for m_ in members if m_["writers"]),
                                 "allowed_writer_entries": len(allowed),
                                 "by_reason": {k: sum(1 for v in allowed.values() if v[1] == k) for k in sorted({v[1] for v in allowed.values()})},
                                 "offending": [m_["name"] for m_, _ in bad_members]}
    for mb, extra in bad_members:
        sig = {"class": "shared-object-written-after-build", "member": mb["name"], "writers": sorted(extra)}
        ctx.violation("data member `%s` (%s, %s) of a class whose objects are shared once built is written by %s — not one of the build-phase "
                      "functions named in shared_objects_written_only_while_built" % (mb["name"], mb["decl"], mb["loc"], ", ".join(sorted(extra))),
                      {"kind": "proof-broken", "theorem": "GeosModel.Conc.shared_objects_written_only_while_built", "member": mb, "offending_writers": sorted(extra),
                       "signature": sig, "hint": "keep per-call state in locals of the call, or make the member std::atomic / guard it; stream `sharedlocate` "
                       "and the thorough tier (ThreadSanitizer) look for a concrete failing schedule"}, nofail=True, signature=sig)
    # ---- race candidates that are still plain: genuine findings on this tree
    found_input = False
    for name, why in sorted(exc.items()):
        if why != "raceCandidate":
            continue
        cell = next((c for c in cells if c["name"] == name and c["ty"] == "plain"), None)
        if not cell:
            continue
        scen, fns, what, fix = CANDIDATES.get(name, ("", [], "", ""))
        sig = {"class": "unsynchronised-shared-cell", "cell": name}
        found_input = True
        ctx.violation("data race by construction: %s — %s" % (name, what),
                      {"kind": "failing-input", "signature": sig, "cell": cell, "accessed_by": fns, "why_racy": what, "minimal_fix": fix,
                       "scenario": scen, "threads": 4, "iters": 3000,
                       "replay_cmd": "bin/check C13 --replay <this file>   (builds the tsan flavour, runs `c13 scenario %s 4 3000`, prints the ThreadSanitizer report)" % scen},
                      signature=sig)

    # ---- support: multi-threaded transcripts (rel)
    corr = {}
    exe, out = verif.build_harness("c13", "rel")
    if not exe:
        ctx.violation("harness c13 does not compile against the current tree", {"kind": "tie-broken", "correspondence": "harness/c13.cpp", "log": out[-3000:]}, nofail=True)
    else:
        quick = ctx.tier == "quick"
        n = 240 if quick else 6000
        r = verif.run_stream(exe, "threads", ctx.seed, n, ctx.work, shards=4, driver_exe=DRV, timeout=3000)
        corr["threads"] = {"cases": r["cases"], "disagreements": len(r["disagreements"]) + r.get("more_disagreements", 0), "distribution": r["stats"]}
        ctx.cov["samples"] += r.get("samples", [])[:2]
        if r["error"]:
            crashed = "harness exit" in r["error"]
            sig = {"class": "multithreaded-harness-crash"}
            ctx.violation("multi-threaded harness (own contexts, shared immutable geometries) %s: %s" % ("crashed" if crashed else "could not run", r["error"][:600]),
                          {"kind": "failing-input" if crashed else "tie-broken", "stream": "threads", "detail": r["error"][-3000:], "signature": sig},
                          nofail=not crashed, signature=sig if crashed else None)
            found_input = found_input or crashed
        seen = set()
        for idx, case, exp, got in r["disagreements"]:
            kind = (re.search(r"kind=(\S+)", exp) or re.search(r"(schedule-dependent)", got) or [None, "?"])[1]
            sig = {"class": "transcript-differs-from-sequential", "call": kind}
            if json.dumps(sig) in seen:
                continue
            seen.add(json.dumps(sig))
            found_input = True
            ctx.violation("a thread's transcript differs from the sequential run of the same script (%s): case %s -> %s (model: %s)" % (kind, case[:200], exp, got),
                          {"kind": "failing-input", "stream": "threads", "case": case, "impl": exp, "model": got, "signature": sig,
                           "replay_cmd": "%s replay <file with the case line>" % exe}, signature=sig)
        # ---- direct correspondence: a prepared polygon built before sharing, point predicates from all threads at once, against
        # the Lean model of IndexedPointInAreaLocator::locate
        nsl = 160 if quick else 6000
        r = verif.run_stream(exe, "sharedlocate", ctx.seed, nsl, ctx.work, shards=4, driver_exe=DRV, timeout=3000)
        corr["sharedlocate"] = {"cases": r["cases"], "disagreements": len(r["disagreements"]) + r.get("more_disagreements", 0), "distribution": r["stats"]}
        ctx.cov["samples"] += r.get("samples", [])[:1]
        if r["error"]:
            crashed = "harness exit" in r["error"]
            sig = {"class": "shared-prepared-polygon-point-predicates", "effect": "crash"}
            ctx.violation("stream sharedlocate (point predicates of one pre-built prepared polygon from several threads) %s: %s" % ("crashed" if crashed else "could not run", r["error"][:600]),
                          {"kind": "failing-input" if crashed else "tie-broken", "stream": "sharedlocate", "detail": r["error"][-3000:], "signature": sig},
                          nofail=not crashed, signature=sig if crashed else None)
            found_input = found_input or crashed
        seen_sl = set()
        for idx, case, exp, got in r["disagreements"]:
            sched = "X" in exp
            key = "schedule-dependent" if sched else "model-mismatch"
            if key in seen_sl:
                continue
            seen_sl.add(key)
            if sched:
                # shrink: fewer threads / fewer points while some answer still deviates (each candidate is tried several times)
                case2, exp2 = shrink_sl(exe, ctx.work, case, exp)
                sig = {"class": "shared-prepared-polygon-point-predicates", "effect": "schedule-dependent-answer"}
                found_input = True
                ctx.violation("point predicates (contains / intersects / covers / …XY / distance) of ONE prepared polygon that was fully built before sharing give answers "
                              "that differ from the sequential ones when %s threads ask different points at once: letters per thread %s, model (and sequential run) %s"
                              % (case2.split()[1], exp2, run_model_sl(case2)),
                              {"kind": "failing-input", "stream": "sharedlocate", "case": case2, "impl": exp2, "model": run_model_sl(case2), "signature": sig,
                               "replay_cmd": "bin/check C13 --replay <this file>  (runs the case 20 times)"}, signature=sig)
            else:
                ctx.violation("stream sharedlocate: the location the prepared point predicates report, asked alone, differs from Model/Conc/IndexedLocate.lean "
                              "(even-odd rule): implementation %s, model %s — the property (no interference) is not refuted by this, the correspondence is" % (exp, got),
                              {"kind": "tie-broken", "correspondence": "sharedlocate", "stream": "sharedlocate", "case": case, "impl": exp, "model": got}, nofail=True)
        # targeted scenarios in the rel flavour (a crash or a wrong answer is a failing execution)
        scen_res = {}
        scen_cell = {"refcount": "GeometryFactory::_refCount", "interrupt": "(anonymous namespace)::requested", "version": "GEOSversion::version",
                     "hasz": "CoordinateSequence::m_hasdim", "gcflags": "GeometryCollection::flags"}
        for scen in ("refcount", "interrupt", "version", "hasz", "gcflags", "sharedprep", "freshread"):
            iters = "80000" if scen in ("hasz", "gcflags") else ("60" if quick else "600") if scen == "freshread" else ("4000" if quick else "40000")
            rc, txt = verif.sh([exe, "scenario", scen, "8", iters], timeout=600)
            m = re.search(r"wrong_results=(\d+)", txt)
            scen_res[scen] = {"rc": rc, "wrong_results": int(m.group(1)) if m else None}
            if rc != 0 or (m and int(m.group(1)) > 0) or not m:
                # a wrong answer / crash caused by one of the named cells carries that cell's signature (same finding)
                sig = {"class": "unsynchronised-shared-cell", "cell": scen_cell[scen]} if scen in scen_cell else {"class": "scenario-fails", "scenario": scen}
                found_input = True
                what = {"sharedprep": "a PreparedPolygon whose indexes were all built before sharing is not safe for concurrent intersects(areal/lineal argument): FastSegmentSetIntersectionFinder::intersects keeps per-call state (segment intersector pointer, query chains) in the shared MCIndexSegmentSetMutualIntersector",
                        "freshread": "read-only questions (intersects, disjoint, extent, distance) asked by all threads at once about a FRESH shared immutable LineString give wrong answers: something is computed lazily inside a const path of the geometry",
                        "hasz": "GEOSHasZ_r / GEOSGeom_getCoordinateDimension_r on a shared geometry whose sequence was created with unknown dimension return WRONG answers (race on CoordinateSequence::m_hasdim / m_hasz)"}.get(scen, "scenario " + scen)
                ctx.violation("8 threads with own contexts: %s — exit code %d, %s" % (what, rc, (m.group(0) if m else txt[-200:].strip())),
                              {"kind": "failing-input", "scenario": scen, "threads": 8, "iters": int(iters), "rc": rc, "output": txt[-1500:], "signature": sig,
                               "replay_cmd": "%s scenario %s 8 %s" % (exe, scen, iters)}, signature=sig)
        corr["scenarios_rel"] = {"cases": len(scen_res), "disagreements": sum(1 for v in scen_res.values() if v["rc"] != 0 or v["wrong_results"]), "distribution": scen_res}

    # ---- support: ThreadSanitizer (thorough tier only; first build takes minutes)
    if ctx.tier != "quick":
        res, err = run_tsan(ctx, ["threads", str(ctx.seed), "60", os.path.join(ctx.work, "tsan")], timeout=2400)
        if err:
            ctx.cov["tsan"] = {"error": err[-600:]}
        else:
            reps = tsan_reports(res[1])
            for scen in ("refcount", "interrupt", "version", "hasz", "gcflags", "freshread"):
                r2, e2 = run_tsan(ctx, ["scenario", scen, "4", "6" if scen == "freshread" else "1500"], timeout=900)
                if r2:
                    reps += tsan_reports(r2[1])
            # the stream `sharedlocate` under TSan: racing accesses inside objects that were built before sharing
            r3, e3 = run_tsan(ctx, ["sharedlocate", str(ctx.seed), "12", os.path.join(ctx.work, "tsan-sl")], timeout=1800)
            if r3:
                reps += tsan_reports(r3[1])
            byc = {}
            for rep in reps:
                cell = cell_of_report(rep)
                msig, _ = mechanism_of_report(rep) if not cell else (None, None)
                key = cell or (("mechanism:" + json.dumps(msig, sort_keys=True)) if msig else ("unmapped:" + ",".join(sorted({short_fn(f) for f in rep["frames"]}))))
                byc.setdefault(key, []).append(rep)
            ctx.cov["tsan"] = {"reports": len(reps), "by_cell": {k: len(v) for k, v in byc.items()}}
            for key, v in byc.items():
                if key.startswith("mechanism:"):
                    msig, mwhat = mechanism_of_report(v[0])
                    found_input = True
                    ctx.violation("ThreadSanitizer: %s in %s — %s" % (v[0]["kind"], ", ".join(sorted({short_fn(f) for f in v[0]["frames"]})), mwhat),
                                  {"kind": "failing-input", "signature": msig, "tsan_report": v[0]["block"], "count": len(v)}, signature=msig)
                if key.startswith("unmapped:"):
                    sig = {"class": "tsan-race", "where": key[9:]}
                    found_input = True
                    ctx.violation("ThreadSanitizer: %s in %s (not one of the cells named in inventory_disciplined)" % (v[0]["kind"], key[9:]),
                                  {"kind": "failing-input", "signature": sig, "tsan_report": v[0]["block"], "count": len(v)}, signature=sig)
    ctx.cov["support_correspondence"] = corr
    if not proved:
        lf = getattr(ctx, "lean_failure", None) or {}
        if not unexcused and not bad_members and (lf or translator_ok):
            ctx.violation("Lean obligations for C13 no longer check: " + "; ".join(str(i) for i in lf.get("items", [])[:5]),
                          {"kind": "proof-broken", "lean": lf, "failing_input_also_found": found_input}, nofail=True)


def replay(ctx, path):
    r = json.load(open(path))
    if r.get("scenario"):
        res, err = run_tsan(ctx, ["scenario", r["scenario"], str(r.get("threads", 4)), str(r.get("iters", 3000))])
        if err:
            print(err)
            return 1
        reps = tsan_reports(res[1])
        want = (r.get("signature") or {}).get("cell")
        hit = [x for x in reps if (want is None or cell_of_report(x) == want)]
        print("scenario %s under ThreadSanitizer: %d reports, %d for %s" % (r["scenario"], len(reps), len(hit), want))
        if hit:
            print(hit[0]["block"][:3000])
            print("VIOLATION property=C13 replay=%s" % path)
            return 1
        if r.get("rc") or "sharedprep" == r["scenario"]:
            exe, _ = verif.build_harness("c13", "rel")
            rc, txt = verif.sh([exe, "scenario", r["scenario"], "8", "4000"], timeout=600)
            print(txt[-500:], "rc=", rc)
            if rc != 0 or not re.search(r"wrong_results=0\b", txt):
                print("VIOLATION property=C13 replay=%s" % path)
                return 1
        return 0
    if r.get("case") and r.get("stream") == "sharedlocate":
        verif.build_geos("rel")
        exe, _ = verif.build_harness("c13", "rel")
        verif.lake_build([DRV])
        work = os.path.join(verif.BUILD, "work")
        os.makedirs(work, exist_ok=True)
        model = run_model_sl(r["case"])
        print("case  :", r["case"])
        print("model :", model, " (location letters per thread, Model/Conc/IndexedLocate.lean)")
        bad = 0
        for i in range(20):
            ans = run_impl_sl(exe, work, r["case"], times=1)
            if ans != model:
                bad += 1
                if bad <= 3:
                    print("impl  :", ans, " (X = some answer of some round deviated from the point's sequential location)")
        print("20 runs, %d differ from the model" % bad)
        if bad:
            print("VIOLATION property=C13 replay=%s" % path)
            return 1
        return 0
    if r.get("case"):
        verif.build_geos("rel")
        exe, _ = verif.build_harness("c13", "rel")
        p = os.path.join(verif.BUILD, "work", "c13-replay-%d.txt" % os.getpid())
        os.makedirs(os.path.dirname(p), exist_ok=True)
        open(p, "w").write(r["case"] + "\n")
        bad = 0
        for i in range(20):
            rc, txt = verif.sh([exe, "replay", p], timeout=600)
            if rc != 0 or "ok" not in txt:
                bad += 1
                print(txt[-300:], "rc=", rc)
        print("20 runs, %d not ok" % bad)
        if bad:
            print("VIOLATION property=C13 replay=%s" % path)
            return 1
        return 0
    print("replay file names a broken proof/tie, nothing to execute:", r.get("what"))
    return 1 if r.get("no_failing_input_found") else 0
