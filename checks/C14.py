"""C14 — an interrupt at any checkpoint aborts cleanly and leaves the library usable.

proof : lean/GeosModel/Props/C14.lean — theorems about the protocol model Model/Interrupt/Proto.lean
        (literal transcription of Interrupt::{request,cancel,check,registerCallback,process}, GEOS_init_r,
        capi `execute`): interrupt_at_k, rerun_equals_clean, benign_callback_noop, pre_request,
        pre_request_zero_polls (edge), cancel_before_poll, callback_cancel_before_test, interrupted_iff, ...
tie   : (0) translator (every run): translate/cxx2lean.py (spec `interrupt`) regenerates Interrupt::{request,cancel,check,
            registerCallback,interrupt,process} and GEOS_interrupt{Request,Cancel,RegisterCallback} from the current source into
            lean/GeosModel/Generated/Interrupt.lean; Props/C14Gen.lean proves each equal to the function of the protocol model
            for all states / callbacks / poll indices (gen_*_eq), and gen_process_throws_iff / gen_process_clears for an
            arbitrary callback.  Refuses if the file-level state, its initial values, the GEOS_CHECK_FOR_INTERRUPTS macro or
            GEOS_init_r change shape.
        (1) stream `proto`: random call scripts drive the REAL geos::util::Interrupt functions (and GEOS_init_r)
            step by step; every observable (check(), previous callback, threw?) is compared with the model.
        (2) stream `ops` (ASan+LSan build): for ~45 interruptible operations of the C API (+ the old RelateOp via
            the C++ API) and generated inputs: a clean run with a counting callback gives N and the clean result;
            then for k in a stratified subset of 1..N (all k when N <= 7 quick / N <= 24 thorough) the callback requests at poll k, plus
            request-before-call, cancelled request, callback-cancel, GEOS_init_r-cancel and k = N+1.  Observed:
            error value returned, message contains "nterrupt", polls executed, flag after the call, a following
            benign call (no GEOS_interruptCancel in between) completes with the clean bytes after N polls, inputs'
            WKB unchanged, live heap did not grow / LeakSanitizer finds no new unreachable block.
            The Lean driver prints the model's prediction for the same case; the lines must be equal.
            k now also covers every distinct CALL-STACK CONTEXT of a poll (first / last / one middle occurrence): the same
            source line reached through different callers unwinds through different handlers.  Every 10th (op, input) pair
            is a dense-linework input (> 100000 candidate chain pairs) for an operation whose checkpoints fire only every
            100000th pair (noder of the overlay, noder inside the noding validation, EdgeSetIntersector).
        (3) stream `unwind`: the REAL noding::ValidatingNoder::computeNodes under injected failures (wrapped noder throws
            each exception class; validation fails; validation interrupted at each of its polls): the class and message
            of the exception that leaves must be what Model/Interrupt/Unwind.lean (`validateFrame`, theorems in
            Props/C14Unwind.lean) says.  A disagreement is turned into a property-level input by interrupting overlays
            of dense linework at every poll.
Because the model's prediction *is* the property's demand for that case (proved in Props/C14), every
disagreement on the `ops` stream is a concrete failing (operation, input, k)."""
import glob, json, os, re
import verif
from verif import log

LEVEL = "proof"
PROPS = ["GeosModel.Props.C14", "GeosModel.Props.C14Unwind"]
DRV = "drv_c14"
ASAN_ENV = {"ASAN_OPTIONS": "detect_leaks=1:abort_on_error=0:symbolize=1", "UBSAN_OPTIONS": "print_stacktrace=1"}


def short(fn):
    """operation::overlayng::OverlayNG::computeEdgeOverlay -> OverlayNG::computeEdgeOverlay"""
    at = ""
    if "@" in fn:
        fn, at = fn.split("@", 1)
        at = "@" + at
    parts = fn.split("::")
    return "::".join(parts[-2:]) + at


def parse_call(tok):
    """'int polls=3 req=0 msg=1' -> dict"""
    t = tok.split()
    d = {"kind": t[0] if t else "?"}
    for x in t[1:]:
        if "=" in x:
            k, v = x.split("=", 1)
            d[k] = v
    return d


def classify(case, impl, model):
    """Which demand of the property fails in this case? returns (class, detail)."""
    c = case.split()
    op, N, mode, k = c[1], int(c[4]), c[5], int(c[6])
    site = c[7] if len(c) > 7 else "-"
    pi, pm = impl.split(" ; "), model.split(" ; ")
    if len(pi) != 3 or len(pm) != 3:
        return "malformed-observation", {}
    i1, m1, i2, m2 = parse_call(pi[0]), parse_call(pm[0]), parse_call(pi[1]), parse_call(pm[1])
    tail_i = dict(x.split("=", 1) for x in pi[2].split())
    if i1["kind"] != m1["kind"]:
        if m1["kind"] == "int" and i1["kind"] == "done":
            return "interrupt-swallowed", {"polls_executed": i1.get("polls"), "result_same_as_clean": i1.get("same")}
        if m1["kind"] == "int" and i1["kind"] == "err":
            return "wrong-error-message", {}
        if m1["kind"] == "done" and i1["kind"] == "int":
            return "spurious-interrupt-" + mode, {}
        return "wrong-outcome", {}
    if i1.get("polls") != m1.get("polls"):
        return "interrupted-at-wrong-poll" if i1["kind"] == "int" else "poll-count-changed", {}
    if i1.get("req") != m1.get("req"):
        return ("request-not-cleared" if i1.get("req") == "1" else "request-lost"), {}
    if i1.get("same", "1") != m1.get("same", "1"):
        return "callback-changed-result", {}
    if i2["kind"] != m2["kind"]:
        return "following-call-" + ("interrupted" if i2["kind"] == "int" else "failed"), {}
    if i2.get("same", "1") != "1":
        return "rerun-differs-from-clean", {}
    if i2.get("polls") != m2.get("polls") or i2.get("req") != m2.get("req"):
        return "following-call-state", {}
    if tail_i.get("inputs") != "1":
        return "inputs-changed", {}
    if tail_i.get("leak", "0") != "0":
        where = tail_i["leak"].split(":", 1)[1] if ":" in tail_i["leak"] else "unknown"
        return "leak", {"allocated_in": [short(w) for w in where.split(",") if w]}
    return "other", {}


def signatures(case, cls, det):
    """One or more signatures for a failing case (a leak gives one per allocating function)."""
    c = case.split()
    site = c[7] if len(c) > 7 else "-"
    if cls == "leak":
        # provisional key (the stream runs with ASan's fast frame-pointer unwinder, whose allocation stacks are not reliable):
        # refined per group by re-running one case with the slow unwinder, see refine_leak()
        return [{"class": "leak", "op": c[1], "site": short(site)}]
    if cls == "interrupt-swallowed" and site.endswith("@OverlayNGRobust"):
        return [{"class": cls, "via": "OverlayNGRobust::Overlay catch(std::runtime_error)"}]
    if cls in ("poll-count-changed", "callback-changed-result"):
        return [{"class": cls, "op": c[1]}]
    if cls.startswith("spurious-interrupt") or cls in ("request-not-cleared", "request-lost", "following-call-interrupted", "following-call-state", "interrupted-at-wrong-poll"):
        return [{"class": cls}]          # protocol-level: independent of the poll site
    return [{"class": cls, "site": short(site)}]


def read_lines(p):
    with open(p, errors="replace") as f:
        l = f.read().split("\n")
    while l and l[-1] == "":
        l.pop()
    return l


def all_disagreements(work, stream):
    out = []
    for cf in sorted(glob.glob(os.path.join(work, stream + ".*.cases"))):
        base = cf[:-6]
        if not (os.path.exists(base + ".expect") and os.path.exists(base + ".got")):
            continue
        cs, ex, gt = read_lines(cf), read_lines(base + ".expect"), read_lines(base + ".got")
        for c, e, g in zip(cs, ex, gt):
            if e != g:
                out.append((c, e, g, base))
    return out


def lsan_excerpt(base, fn):
    """first LeakSanitizer block (top frames) mentioning fn, from the shard's report file"""
    for p in glob.glob(base + ".lsan.*"):
        try:
            txt = open(p, errors="replace").read()
        except OSError:
            continue
        for blk in txt.split("\n\n"):
            if "leak of" in blk and fn.split("::")[-1] in blk:
                lines = [re.sub(r"^\s*#\d+ 0x[0-9a-f]+ in ", "", l) for l in blk.split("\n")]
                return [l[:220] for l in lines[:9]]
    return []


def count_sites_in_source():
    n, files = 0, 0
    for root, _, fs in os.walk(os.path.join(verif.REPO, "src")):
        for f in fs:
            if f.endswith(".cpp"):
                try:
                    t = open(os.path.join(root, f), errors="replace").read()
                except OSError:
                    continue
                k = t.count("GEOS_CHECK_FOR_INTERRUPTS()")
                if k:
                    n += k
                    files += 1
    return n, files


def refine_leak(exe, case):
    """re-run one leaking case with the accurate (slow) unwinder -> list of allocating functions, [] if it does not leak again"""
    for attempt in range(3):
        impl, _ = run_one(exe, case, env=dict(ASAN_ENV, ASAN_OPTIONS=ASAN_ENV["ASAN_OPTIONS"] + ":fast_unwind_on_malloc=0"))
        m = re.search(r"leak=1:(\S+)", impl)
        if m:
            return sorted({short(w) for w in m.group(1).split(",") if w})
        log("refine_leak: no leak token on attempt %d for %s: %s" % (attempt + 1, case, impl[:200]))
    return []


def run_one(exe, case, env=None):
    """replay one case on implementation and model -> (impl, model)"""
    p = os.path.join(verif.BUILD, "work", "c14-one-%d.txt" % os.getpid())
    os.makedirs(os.path.dirname(p), exist_ok=True)
    with open(p, "w") as f:
        f.write(case + "\n")
    rc, out = verif.sh([exe, "replay", p], timeout=600, env=env or ASAN_ENV)
    lines = [l for l in out.strip().split("\n") if l and not l.startswith("note:")]
    impl = lines[-1] if lines else "harness-exit-%d" % rc
    if rc != 0:
        impl = "harness-exit-%d %s" % (rc, impl[:200])
    stream = "proto" if case.startswith("S") else "unwind" if case.startswith("W") else "ops"
    rc2, got = verif.run_driver_lines(stream, [case], driver_exe=DRV)
    return impl, (got[0] if got else "")


def run(ctx):
    ctx.base_trust([
        "C14 model (lean/GeosModel/Model/Interrupt/Proto.lean): its functions request/cancel/check/registerCallback/process are proved equal to the definitions regenerated from src/util/Interrupt.cpp and capi/geos_c.cpp on every run (translate/cxx2lean.py + translate/specs/interrupt.py + t4ext.py, trusted: the translator's reading of the C++ fragment, std::atomic treated as a plain variable — single thread); GEOS_init_r (only its statement list is checked) and capi `execute` remain hand transcriptions; all of it is also tied to the real functions by the `proto` script stream",
        "a callback is modelled by what it does to the flag (request / cancel / nothing per invocation); a callback that re-registers callbacks from inside process() is outside the model",
        "an operation is abstracted to (N polls, result) measured on the implementation; determinism of the operation (same N, same bytes on unchanged inputs) is an explicit hypothesis, probed by running every clean case twice",
        "'releases everything', 'inputs unchanged', 'rerun = clean' are runtime observations per (operation, input, k) under ASan/LSan on generated inputs (stratified k in quick) — not theorems",
        "LeakSanitizer (conservative stack scanning: may miss a leak, does not invent one); live-heap counter of the ASan allocator",
        "single-threaded use of the process-wide interrupt flag (concurrency is C13)",
    ])
    # translator tie: Generated/Interrupt.lean is rewritten from src/util/Interrupt.cpp + capi/geos_c.cpp and proved equal to the model
    proved = ctx.prove_generated([("interrupt", "GeosModel/Generated/Interrupt.lean", "GeosModel.Props.C14Gen")], PROPS, extra_targets=(DRV,))
    ok, out = verif.build_geos("asan")
    if not ok:
        ctx.violation("GEOS (asan flavour) does not build", {"kind": "build-failure", "log": out[-3000:]}, nofail=True)
        return
    exe, out = verif.build_harness("c14", "asan")
    if not exe:
        ctx.violation("harness c14 does not compile against the current tree", {"kind": "tie-broken", "correspondence": "harness/c14.cpp", "log": out[-3000:]}, nofail=True)
        return
    quick = ctx.tier == "quick"
    shards = min(verif.NPROC, 8)
    corr = {}
    found_input = False

    # ---- (1) structural tie: scripts against the real Interrupt functions
    n_proto = 40000 if quick else 800000
    r = verif.run_stream(exe, "proto", ctx.seed, n_proto, ctx.work, shards=shards, driver_exe=DRV, env=ASAN_ENV)
    corr["proto"] = {"cases": r["cases"], "disagreements": len(r["disagreements"]) + r.get("more_disagreements", 0), "distribution": r["stats"]}
    ctx.cov["samples"] += r.get("samples", [])[:1]
    if r["error"]:
        ctx.violation("correspondence stream proto could not run: %s" % r["error"][:500],
                      {"kind": "tie-broken", "correspondence": "proto", "detail": r["error"]}, nofail=True)
    elif r["disagreements"]:
        # shrink: shortest disagreeing script
        idx, case, exp, got = min(r["disagreements"], key=lambda d: len(d[1]))
        toks = case.split()
        bar = toks.index("|")
        head, ops = toks[:bar + 1], toks[bar + 1:]
        changed = True
        while changed and len(ops) > 1:
            changed = False
            for i in range(len(ops) - 1, -1, -1):
                cand = " ".join(head + ops[:i] + ops[i + 1:])
                a, b = run_one(exe, cand)
                if a != b:
                    ops = ops[:i] + ops[i + 1:]
                    changed = True
        case = " ".join(head + ops)
        impl, model = run_one(exe, case)
        # the model of process() is what every theorem is about; a different real process() is a failing input for the
        # property exactly when the script shows one of its demands broken
        sig = {"class": "interrupt-functions-differ-from-model", "first_diff": next((a + "/" + b for a, b in zip(impl.split(), model.split()) if a != b), "len")}
        found_input = True
        ctx.violation("geos::util::Interrupt functions behave differently from the protocol model on script: %s  impl: %s  model: %s" % (case, impl, model),
                      {"kind": "failing-input", "stream": "proto", "case": case, "impl": impl, "model": model, "signature": sig,
                       "replay_cmd": "%s replay <file with the case line>" % exe}, signature=sig)

    # ---- (3) exception transparency of ValidatingNoder (the handler between the polls of the noding validation and the API)
    r = verif.run_stream(exe, "unwind", ctx.seed, 480 if quick else 8000, ctx.work, shards=shards, driver_exe=DRV, env=ASAN_ENV)
    corr["unwind"] = {"cases": r["cases"], "disagreements": len(r["disagreements"]) + r.get("more_disagreements", 0), "distribution": r["stats"]}
    unwind_bad = None
    if r["error"]:
        ctx.violation("correspondence stream unwind could not run: %s" % r["error"][:500],
                      {"kind": "tie-broken", "correspondence": "unwind", "detail": r["error"]}, nofail=True)
    elif r["disagreements"]:
        unwind_bad = min(r["disagreements"], key=lambda d: len(d[1]))

    # ---- (2) operations under ASan/LSan
    # thorough: bigger inputs, all k when N <= 32: ~10 s per (op, input) under ASan -> 24 per shard on up to 16 shards
    oshards = shards if quick else min(verif.NPROC, 16)
    n_inputs = oshards * (60 if quick else 24)
    r = verif.run_stream(exe, "ops", ctx.seed, n_inputs, ctx.work, shards=oshards, driver_exe=DRV, env=ASAN_ENV,
                         harness_args=(ctx.tier,), timeout=3400)
    st = r["stats"]
    dis = [] if r["error"] else all_disagreements(ctx.work, "ops")
    sites = sorted({re.sub(r"\+0x[0-9a-f]+$", "", k[5:]) + re.search(r"(\+0x[0-9a-f]+)$", k).group(1) for k in st if k.startswith("site.") and re.search(r"\+0x[0-9a-f]+$", k)})
    n_src, n_files = count_sites_in_source()
    per_op_N = {}
    for k, v in st.items():
        if k.startswith("N."):
            _, op, b = k.split(".", 2)
            per_op_N.setdefault(op, {})[b] = v
    corr["ops"] = {"cases": r["cases"], "disagreements": len(dis),
                   "distribution": {"operation_input_pairs": sum(v for k, v in st.items() if k.startswith("inputs.")),
                                    "triples_op_input_k": st.get("mode.at", 0),
                                    "modes": {k[5:]: v for k, v in st.items() if k.startswith("mode.")},
                                    "N_buckets_all": {k[5:]: v for k, v in st.items() if k.startswith("Nall.")},
                                    "N_buckets_per_op": per_op_N,
                                    "polls_total_in_clean_runs": st.get("polls_total", 0),
                                    "poll_return_addresses_reached": len(sites),
                                    "poll_functions_reached": len({re.sub(r"\+0x[0-9a-f]+$", "", x) for x in sites}),
                                    "poll_macro_occurrences_in_src": n_src, "poll_site_files": n_files,
                                    "poll_sites": sites,
                                    "skipped": {k: v for k, v in st.items() if k.startswith("skip_")},
                                    "lsan_checks": st.get("lsan_checks", 0), "heap_grew_cases": st.get("heap_grew_cases", 0)}}
    ctx.cov["samples"] += r.get("samples", [])[:2]
    if r["error"]:
        ho = r.get("harness_output", "") or r["error"]
        if "UNATTRIBUTED-LEAK" in ho or "LeakSanitizer" in ho:
            m = re.search(r"unattributed leak allocated in: (\S+)", ho)
            where = [short(w) for w in (m.group(1).split(",") if m else ["unknown"])]
            for w in where:
                sig = {"class": "leak", "allocated_in": w}
                found_input = True
                ctx.violation("memory leaked by an uninterrupted or unattributed call (LeakSanitizer at exit), allocated in %s" % w,
                              {"kind": "failing-input", "stream": "ops", "signature": sig, "harness_tail": ho[-3000:]}, signature=sig)
        else:
            # a sanitizer abort / crash inside an interrupted operation is itself a failing input, but we cannot name it: report tie broken
            ctx.violation("correspondence stream ops could not run: %s" % r["error"][:800],
                          {"kind": "tie-broken", "correspondence": "ops", "detail": r["error"][-4000:]}, nofail=True)
    groups = {}
    for case, impl, model, base in dis:
        cls, det = classify(case, impl, model)
        for sig in signatures(case, cls, det):
            key = json.dumps(sig, sort_keys=True)
            g = groups.setdefault(key, {"sig": sig, "cases": [], "ops": set(), "sites": set()})
            g["cases"].append((case, impl, model, base))
            c = case.split()
            g["ops"].add(c[1])
            if len(c) > 7:
                g["sites"].add(short(c[7]))
    # leaks: replace the provisional (op, site) key by the allocating function found with the accurate unwinder
    for key in [k for k, g in groups.items() if g["sig"]["class"] == "leak"]:
        g = groups.pop(key)
        case = min(g["cases"], key=lambda t: (int(t[0].split()[3]), int(t[0].split()[4]), int(t[0].split()[6])))[0]
        fns = refine_leak(exe, case)
        for sig in ([{"class": "leak", "allocated_in": f} for f in fns] or [g["sig"]]):
            k2 = json.dumps(sig, sort_keys=True)
            g2 = groups.setdefault(k2, {"sig": sig, "cases": [], "ops": set(), "sites": set()})
            g2["cases"] += g["cases"]
            g2["ops"] |= g["ops"]
            g2["sites"] |= g["sites"]
    corr["ops"]["disagreement_classes"] = {k: len(g["cases"]) for k, g in groups.items()}
    for key, g in sorted(groups.items()):
        # smallest example: size, then N, then k
        case, impl, model, base = min(g["cases"], key=lambda t: (int(t[0].split()[3]), int(t[0].split()[4]), int(t[0].split()[6])))
        sig = g["sig"]
        c = case.split()
        what = {
            "interrupt-swallowed": "interrupt requested at poll k is consumed but the operation does NOT stop: it returns a normal result instead of the error value",
            "leak": "operation interrupted at poll k leaks memory (LeakSanitizer: unreachable blocks allocated in %s)" % sig.get("allocated_in"),
        }.get(sig["class"], "interrupt protocol demand broken: " + sig["class"])
        obj = {"kind": "failing-input", "stream": "ops", "case": case, "impl": impl, "spec": model, "signature": sig,
               "operation": c[1], "input": {"seed": c[2], "size": c[3]}, "N": int(c[4]), "mode": c[5], "k": int(c[6]),
               "poll_site": c[7] if len(c) > 7 else "-", "cases_with_this_signature": len(g["cases"]),
               "operations_affected": sorted(g["ops"]), "poll_sites_affected": sorted(g["sites"]),
               "replay_cmd": "bin/check C14 --replay <this file>"}
        if sig["class"] == "leak":
            obj["lsan_top_frames"] = lsan_excerpt(base, sig.get("allocated_in", ""))
        found_input = True
        ctx.violation("%s — %s on %s (N=%s, %s k=%s, site %s); %d cases, ops %s" % (
            what, json.dumps(sig), c[1], c[4], c[5], c[6], short(c[7]) if len(c) > 7 else "-", len(g["cases"]), ",".join(sorted(g["ops"]))),
            obj, signature=sig)
    if unwind_bad is not None:
        idx, case, exp, got = unwind_bad
        swallowed = [k for k, g in groups.items() if g["sig"].get("class") in ("interrupt-swallowed", "wrong-error-message")]
        if not swallowed:
            # the handler of ValidatingNoder no longer behaves like its model, and the ops stream did not show a property-level
            # failure: interrupt unions of dense linework at every poll
            hit = None
            for sd in range(1, 7):
                for op in ("union", "intersection"):
                    head = "O %s %d 4 " % (op, ctx.seed * 100 + sd)
                    impl, _ = run_one(exe, head + "0 clean 0")
                    m = re.search(r"done polls=(\d+)", impl)
                    if not m:
                        continue
                    N = int(m.group(1))
                    for k in range(1, N + 1):
                        c = head + "%d at %d -" % (N, k)
                        i2, m2 = run_one(exe, c)
                        if i2 != m2:
                            hit = (c, i2, m2)
                            break
                    if hit:
                        break
                if hit:
                    break
            if hit:
                c, i2, m2 = hit
                cls, det = classify(c, i2, m2)
                sig = {"class": cls, "via": "exception rewritten below OverlayNGRobust::Overlay"}
                found_input = True
                ctx.violation("interrupt requested at poll k does not stop the operation / is reported as another error (%s): %s" % (cls, c),
                              {"kind": "failing-input", "stream": "ops", "case": c, "impl": i2, "spec": m2, "signature": sig,
                               "unwind_case": case, "unwind_impl": exp, "unwind_model": got, "replay_cmd": "bin/check C14 --replay <this file>"}, signature=sig)
            else:
                ctx.violation("unwind: noding::ValidatingNoder::computeNodes lets a different exception out than its model says (case %s: impl %s, model %s); "
                              "no overlay of dense linework was found on which the interrupt protocol fails" % (case, exp, got),
                              {"kind": "tie-broken", "correspondence": "unwind", "case": case, "impl": exp, "model": got}, nofail=True)
    ctx.cov["support_correspondence"] = corr
    if not proved:
        lf = getattr(ctx, "lean_failure", None) or {}
        ctx.violation("Lean obligations for C14 no longer check: " + "; ".join(str(i) for i in lf.get("items", [])[:5]),
                      {"kind": "proof-broken", "lean": lf, "failing_input_also_found": found_input}, nofail=True)


def replay(ctx, path):
    r = json.load(open(path))
    ok, out = verif.build_geos("asan")
    exe, out = verif.build_harness("c14", "asan")
    verif.lake_build([DRV])
    if not exe or "case" not in r:
        print("nothing to replay (no case line in %s)" % path)
        return 1 if r.get("no_failing_input_found") else 0
    impl, model = run_one(exe, r["case"])
    print("case :", r["case"])
    print("impl :", impl)
    print("spec :", model)
    if impl != model:
        print("VIOLATION property=C14 replay=%s" % path)
        return 1
    return 0
