"""C08 — distance functions return the true minimum distance across all variants.

proof : lean/GeosModel/Props/C08.lean — exactness of the point/segment clamp formula, zero <=> contact,
        symmetry, minimum over facet pairs, Hausdorff = max-min, Frechet DP = recursive definition, and
        CORE bb_returns_min (the branch-and-bound nearest-neighbour loop returns a minimum).
tie   : correspondence stream `distance` — harness/c08.cpp sends generated grid-exact pairs through every
        distance entry point of the C API and writes inputs + answers into the case line; the Lean driver
        (drv_c08) evaluates the exact specification and prints `ok` or the violated clauses.  Because the
        driver checks the property's own condition against the exact value, every non-`ok` line is a
        concrete failing input for the property (or for the model, clause MODEL-*).
translator : translate/specs/distance_core.py regenerates Distance::pointToSegment / segmentToSegment, CoordinateXY::distance /
        equals2D / operator==, Envelope::distanceSquared / distance / intersects(p1,p2,q1,q2) into
        lean/GeosModel/Generated/DistanceCore.lean on every run; lean/GeosModel/Props/C08Gen.lean proves them equal (over Int,
        and over the reals where the code divides and takes square roots) to boxBox2, Kernel.envIntersects and the square roots of
        the exact rationals pointSeg2 / segSeg2 the property theorems are about.  The `distance` streams run the same C++ functions."""
import os, json, struct
import verif
from verif import log

LEVEL = "proof"
PROPS = ["GeosModel.Props.C08"]
DRV = "drv_c08"

ARITY = {'d': 1, 'ds': 1, 'di': 1, 'dis': 1, 'pa': 1, 'pb': 1, 'h': 1, 'hs': 1, 'f': 1, 'fs': 1,
         'np': 4, 'nps': 4, 'npa': 4, 'npb': 4, 'w': 2, 'wa': 2, 'wb': 2, 'hd': 2, 'hsd': 2, 'fd': 2, 'fsd': 2}


def dbl(hx):
    return struct.unpack('>d', bytes.fromhex(hx))[0]


def hexd(v):
    return '%016x' % struct.unpack('>Q', struct.pack('>d', float(v)))[0]


# ----------------------------------------------------------------------------- GTree tokens <-> python trees
def parse_seq(t, i):
    assert t[i] == 'xy', t[i]
    n = int(t[i + 1]); i += 2
    pts = [(t[i + 2 * k], t[i + 2 * k + 1]) for k in range(n)]
    return pts, i + 2 * n


def parse_g(t, i):
    tag = t[i]; i += 1
    if tag in ('P', 'L', 'R'):
        pts, i = parse_seq(t, i)
        return {'tag': tag, 'seqs': [pts]}, i
    if tag == 'Y':
        k = int(t[i]); i += 1; seqs = []
        for _ in range(k):
            pts, i = parse_seq(t, i); seqs.append(pts)
        return {'tag': tag, 'seqs': seqs}, i
    k = int(t[i]); i += 1; kids = []
    for _ in range(k):
        g, i = parse_g(t, i); kids.append(g)
    return {'tag': tag, 'kids': kids}, i


def show_g(g):
    if g['tag'] in ('P', 'L', 'R'):
        s = g['seqs'][0]
        return [g['tag'], 'xy', str(len(s))] + [c for p in s for c in p]
    if g['tag'] == 'Y':
        out = ['Y', str(len(g['seqs']))]
        for s in g['seqs']:
            out += ['xy', str(len(s))] + [c for p in s for c in p]
        return out
    out = [g['tag'], str(len(g['kids']))]
    for k in g['kids']:
        out += show_g(k)
    return out


def parse_case(line):
    t = line.split()
    i = 1
    a, i = parse_g(t, i)
    i += 1
    b, i = parse_g(t, i)
    res = []
    if i < len(t) and t[i] == 'R':
        i += 1
        while i < len(t):
            k = t[i]; i += 1
            if k in ('crash', 'harness-exception'):
                res.append((k, [])); continue
            n = ARITY.get(k, 1)
            if n == 4 and t[i] == 'E':
                res.append((k, ['E'])); i += 1; continue
            res.append((k, t[i:i + n])); i += n
    return a, b, res


def pair_of(case):
    a, b, _ = parse_case(case)
    return pair_tokens(a, b)


def pair_tokens(a, b):
    return "0 " + " ".join(show_g(a)) + " 0 " + " ".join(show_g(b))


def fmtnum(v):
    return str(int(v)) if v == int(v) and abs(v) < 1e15 else repr(v)


def wkt(g):
    def ps(s):
        return "(" + ", ".join(fmtnum(dbl(x)) + " " + fmtnum(dbl(y)) for x, y in s) + ")"
    tag = g['tag']
    if tag in ('P', 'L', 'R'):
        nm = {'P': 'POINT', 'L': 'LINESTRING', 'R': 'LINEARRING'}[tag]
        return nm + (" " + ps(g['seqs'][0]) if g['seqs'][0] else " EMPTY")
    if tag == 'Y':
        if not g['seqs'][0]:
            return "POLYGON EMPTY"
        return "POLYGON (" + ", ".join(ps(s) for s in g['seqs']) + ")"
    nm = {'MP': 'MULTIPOINT', 'ML': 'MULTILINESTRING', 'MY': 'MULTIPOLYGON', 'GC': 'GEOMETRYCOLLECTION'}[tag]
    if not g['kids']:
        return nm + " EMPTY"
    parts = [wkt(k) for k in g['kids']]
    if tag != 'GC':
        parts = [p.split(' ', 1)[1] for p in parts]
    return nm + " (" + ", ".join(parts) + ")"


def walk(g):
    yield g
    for k in g.get('kids', []):
        yield from walk(k)


def is_empty(g):
    if 'kids' in g:
        return all(is_empty(k) for k in g['kids'])
    return not g['seqs'][0]


def has_empty_element(g):
    return any(is_empty(x) for x in walk(g) if x is not g) or False


def has_zero_length_line(g):
    for x in walk(g):
        if x['tag'] in ('L', 'R') and len(x['seqs'][0]) >= 2 and len(set(x['seqs'][0])) == 1:
            return True
    return False


def has_polygon(g):
    return any(x['tag'] == 'Y' and x['seqs'][0] for x in walk(g))


def is_lineal(g):
    return g['tag'] in ('L', 'R', 'ML')


def basic_prepared(g):
    """PreparedGeometryFactory falls back to BasicPreparedGeometry for points, multipoints and collections"""
    return g['tag'] in ('P', 'MP', 'GC')


def env_of(g):
    xs = [dbl(p[0]) for x in walk(g) for sq in x.get('seqs', []) for p in sq]
    ys = [dbl(p[1]) for x in walk(g) for sq in x.get('seqs', []) for p in sq]
    return (min(xs), max(xs), min(ys), max(ys)) if xs else None


def geos_env_distance(e, f):
    """Envelope::distanceSquared as written in include/geos/geom/Envelope.h (branch-free form), in doubles"""
    dx = max(0.0, max(e[1], f[1]) - min(e[0], f[0]) - (e[1] - e[0]) - (f[1] - f[0]))
    dy = max(0.0, max(e[3], f[3]) - min(e[2], f[2]) - (e[3] - e[2]) - (f[3] - f[2]))
    return (dx * dx + dy * dy) ** 0.5


def gap_env_distance(e, f):
    """the same quantity from the two gaps (each a single rounding of a non-negative difference)"""
    dx = f[0] - e[1] if e[1] < f[0] else (e[0] - f[1] if f[1] < e[0] else 0.0)
    dy = f[2] - e[3] if e[3] < f[2] else (e[2] - f[3] if f[3] < e[2] else 0.0)
    return (dx * dx + dy * dy) ** 0.5


# ----------------------------------------------------------------------------- classification of a failing case
def classify(case, clauses):
    """map every violated clause of one case to a class name (a mechanism already understood) or 'other'"""
    a, b, res = parse_case(case)
    r1 = {k: v for k, v in res if k not in ('w', 'wa', 'wb')}
    zl = has_zero_length_line(a) or has_zero_length_line(b)
    emp = has_empty_element(a) or has_empty_element(b)
    d = dbl(r1['d'][0]) if 'd' in r1 and len(r1['d'][0]) == 16 else None
    out = {}
    for c in clauses:
        cls = 'other'
        if c.startswith('MODEL') or c.startswith('bad-') or c == 'harness-exception':
            cls = 'model'
        elif zl and (c.startswith('indexed') or c.startswith('prepared-') or c.startswith('nearest-prepared-')
                     or c.startswith('within-prepared-') or c == 'impl-crash'):
            cls = 'zero-length-line'
        elif c.startswith('hausdorff') and emp:
            cls = 'hausdorff-empty-element'
        elif c.startswith('nearest-prepared-') and c.endswith('-not-realising-distance') and d == 0.0:
            side = a if c.startswith('nearest-prepared-a') else b
            other = b if side is a else a
            if is_lineal(side) and has_polygon(other):
                cls = 'prepared-line-nearest-points-inside-polygon'
        elif c in ('prepared-a', 'prepared-b') and d:
            side = a if c == 'prepared-a' else b
            key = 'pa' if c == 'prepared-a' else 'pb'
            v = r1.get(key, ['E'])[0]
            if basic_prepared(side) and len(v) == 16 and abs(dbl(v) - d) <= 1e-8 * d:
                cls = 'basic-prepared-distance-rounding'
        elif c.startswith('within') and c.endswith('-false-but-distance<=threshold') and d is not None:
            key = {'within': 'w', 'within-prepared-a': 'wa', 'within-prepared-b': 'wb'}.get(c.rsplit('-false-but', 1)[0])
            bad = [v[0] for k, v in res if k == key and v[1] != '1' and dbl(v[0]) >= d]
            ea, eb = env_of(a), env_of(b)
            if bad and ea and eb and all(geos_env_distance(ea, eb) > dbl(t) >= gap_env_distance(ea, eb) for t in bad):
                cls = 'envelope-distance-rounding'
            elif bad and key in ('wa', 'wb') and all(t == r1['d'][0] for t in bad) and \
                    all(any(k == 'w' and v[0] == t and v[1] == '1' for k, v in res) for t in bad):
                # only the prepared (IndexedFacetDistance) variant, only exactly at the reported distance, and the unprepared test agrees with the distance
                cls = 'within-exactly-at-distance-rounding'
        out[c] = cls
    return out


WHAT = {
    'zero-length-line': "zero-length LineString (two identical vertices): IndexedFacetDistance skips zero-length segments, so "
                        "GEOSDistanceIndexed / GEOSPreparedDistance return inf or a non-minimal value and "
                        "GEOSPreparedNearestPoints crashes (empty location vector)",
    'hausdorff-empty-element': "Hausdorff distance wrong when a collection contains an EMPTY element: "
                               "DistanceToPoint::computeDistance resets the running minimum at the empty element",
    'prepared-line-nearest-points-inside-polygon': "GEOSPreparedNearestPoints of a prepared line lying inside a polygon returns "
                                                   "boundary points at positive distance although the distance is 0",
    'basic-prepared-distance-rounding': "GEOSPreparedDistance on a point/multipoint/collection (BasicPreparedGeometry) measures the distance "
                                        "between computed nearest points and is off by more than 1e-12 relative for translated coordinates",
    'envelope-distance-rounding': "Envelope::distance (branch-free formula max(..)-min(..)-width-width) rounds to a positive value for envelopes that touch or "
                                  "overlap, so GEOSDistanceWithin / GEOSPreparedDistanceWithin answer false at a threshold >= the true distance "
                                  "(e.g. threshold 0 for lines sharing a vertex); the bound is also used for pruning",
    'within-exactly-at-distance-rounding': "GEOSPreparedDistanceWithin false at a threshold exactly equal to the true (and reported) distance: "
                                           "the envelope heuristic of IndexedFacetDistance::isWithinDistance computes a distance one ulp too large",
}


# ----------------------------------------------------------------------------- re-running single pairs
def run_pair(exe, pair, work):
    """-> (full case line, driver answer)"""
    p = os.path.join(work, "c08-one-%d.txt" % os.getpid())
    with open(p, "w") as f:
        f.write(pair + "\n")
    rc, out = verif.sh([exe, "replay", p], timeout=120)
    lines = [l for l in out.split("\n") if l.strip()]
    if rc != 0 or not lines:
        return "", "harness-failed"
    case = lines[-1]
    rc2, ans = verif.run_driver_lines("distance", [case], driver_exe=DRV)
    return case, (ans[0] if ans else "driver-failed")


def clauses_of(ans):
    return ans[5:].split(",") if ans.startswith("FAIL ") else ([] if ans == "ok" else [ans])


def candidates(g):
    """smaller variants of a geometry tree"""
    if 'kids' in g:
        ks = g['kids']
        for i in range(len(ks)):
            if len(ks) > 1:
                yield {'tag': g['tag'], 'kids': ks[:i] + ks[i + 1:]}
        for i in range(len(ks)):
            if g['tag'] == 'GC' or len(ks) == 1:
                yield ks[i]
        for i in range(len(ks)):
            for c in candidates(ks[i]):
                if g['tag'] == 'GC' or c['tag'] == ks[i]['tag']:
                    yield {'tag': g['tag'], 'kids': ks[:i] + [c] + ks[i + 1:]}
    elif g['tag'] == 'Y':
        for i in range(1, len(g['seqs'])):
            yield {'tag': 'Y', 'seqs': g['seqs'][:i] + g['seqs'][i + 1:]}
        for r in range(len(g['seqs'])):
            s = g['seqs'][r]
            if len(s) > 4:
                for i in range(1, len(s) - 1):
                    yield {'tag': 'Y', 'seqs': g['seqs'][:r] + [s[:i] + s[i + 1:]] + g['seqs'][r + 1:]}
    elif g['tag'] == 'L':
        s = g['seqs'][0]
        if len(s) > 2:
            for i in range(len(s)):
                yield {'tag': 'L', 'seqs': [s[:i] + s[i + 1:]]}


def shrink(exe, work, case, cls, budget=120):
    a, b, _ = parse_case(case)
    best = (a, b)

    def still(a2, b2):
        c2, ans = run_pair(exe, pair_tokens(a2, b2), work)
        cl = clauses_of(ans)
        if not cl or not c2:
            return None
        m = classify(c2, cl)
        return c2 if cls in m.values() else None
    changed = True
    cur = case
    while changed and budget > 0:
        changed = False
        for side in (0, 1):
            for cand in candidates(best[side]):
                if budget <= 0:
                    break
                if is_empty(cand):
                    continue
                budget -= 1
                trial = (cand, best[1]) if side == 0 else (best[0], cand)
                c2 = still(*trial)
                if c2:
                    best, cur, changed = trial, c2, True
                    break
            if changed:
                break
    return cur


def describe(case, ans):
    a, b, res = parse_case(case)
    dec = []
    for k, v in res:
        dec.append(k + "=" + ",".join((repr(dbl(x)) if len(x) == 16 else x) for x in v))
    return {"wkt_a": wkt(a), "wkt_b": wkt(b), "impl": " ".join(dec), "driver": ans}


def run(ctx):
    ctx.base_trust([
        "C08 specification (lean/GeosModel/Model/Distance/Spec.lean) is hand-written; exact Int arithmetic on inputs scaled to a common power of two",
        "Kernel.segRel / Kernel.locateInPolygon (shared exact predicates, property C07) decide contact and containment inside the specification",
        "the model of the branch-and-bound loop is STR.nnLoop (single query item against one tree); the dual-tree traversal of "
        "TemplateSTRtreeDistance is an instance of the same abstract search but is tied only through its results",
        "about 7% of the pairs are 'pythagorean': the nearest points are facing envelope corners separated by (a k, b k) for a Pythagorean triple and a random "
        "odd k up to 2^31/c, so the true distance c k is a representable double while the squares of the differences need more than 53 bits; within-tests "
        "are asked at the reported distance, one ulp below / above it, and at the exactly representable distance of the reported nearest points",
        "a within-test exactly at the true distance must answer true unless the distance the implementation itself reports through the same entry point is "
        "(an ulp) larger than the threshold — then `false` agrees with the reported distance, which the 1e-12 clause allows",
        "inputs: grid coordinates under lattice symmetries, integer translation (<= 2e6) and scaling by 2^k (stream distance), and the same shapes under "
        "a similarity with arbitrary double coefficients (stream distance-fp); polygons valid by construction; near-degenerate full-precision "
        "contacts (vertex 1e-16 off an edge) are not generated",
        "tolerances: 1e-12 relative on distances (|r^2-d^2| <= 4e-12 d^2, exact zero test); computed nearest points / Hausdorff feet may be off by max|coordinate|*2^-40",
    ])
    # translator tie: the distance primitives are regenerated from the current C++ and proved equal to Model/Distance/Spec.lean, BB.lean
    proved = ctx.prove_generated([("distance_core", "GeosModel/Generated/DistanceCore.lean", "GeosModel.Props.C08Gen")], PROPS, extra_targets=(DRV,))
    ok, out = verif.build_geos("rel")
    if not ok:
        ctx.violation("GEOS does not build with -DGEOS_VERIF", {"kind": "build-failure", "log": out[-3000:]}, nofail=True)
        return
    exe, out = verif.build_harness("c08")
    if not exe:
        ctx.violation("harness c08 does not compile against the current tree",
                      {"kind": "tie-broken", "correspondence": "harness/c08.cpp", "log": out[-3000:]}, nofail=True)
        return
    quick = ctx.tier == "quick"
    shards = min(verif.NPROC, 8)
    found_input = False
    allcorr = {}
    by_class = {}
    counts = {}
    for stream, n in (("distance", 3200 if quick else 100000), ("distance-fp", 1600 if quick else 40000)):
        r = verif.run_stream(exe, stream, ctx.seed, n, ctx.work, shards=shards, driver_exe=DRV)
        corr = {"cases": r["cases"], "disagreements": len(r["disagreements"]) + r.get("more_disagreements", 0),
                "distribution": r["stats"]}
        allcorr[stream] = corr
        ctx.cov["samples"] += [{"case": x["case"][:300], "impl": x["impl"], "model": x["model"]} for x in r.get("samples", [])[:1]]
        if r["error"]:
            ctx.violation("correspondence stream %s could not run: %s" % (stream, r["error"]),
                          {"kind": "tie-broken", "correspondence": stream, "detail": r["error"]}, nofail=True)
            continue
        # full scan of the shard files (run_stream keeps only the first 50 disagreements)
        scounts = {}
        for k in range(shards):
            base = os.path.join(ctx.work, "%s.%d" % (stream, k))
            try:
                cases = open(base + ".cases").read().split("\n")
                got = open(base + ".got").read().split("\n")
            except OSError:
                continue
            for c, g in zip(cases, got):
                if not c or g == "ok":
                    continue
                cl = clauses_of(g)
                try:
                    m = classify(c, cl)
                except Exception as ex:       # malformed line: treat as model problem
                    m = {x: 'model' for x in cl} or {'unparsable': 'model'}
                keys = []
                for clause, cls in m.items():
                    # a case contributes to each understood class it shows, and to ONE 'other' key (its first unexplained clause)
                    key = cls if cls != 'other' else 'other:' + clause
                    if cls == 'other' and any(k2.startswith('other:') for k2 in keys):
                        continue
                    if key not in keys:
                        keys.append(key)
                for key in keys:
                    counts[key] = counts.get(key, 0) + 1
                    scounts[key] = scounts.get(key, 0) + 1
                    if key not in by_class:
                        by_class[key] = (c, g, stream)
        corr["failure_classes"] = scounts
    others = 0
    for key, (c, g, stream) in sorted(by_class.items()):
        cls = key.split(':')[0]
        if cls == 'model':
            ctx.violation("driver/model problem on a generated case (%s)" % g[:200],
                          {"kind": "tie-broken", "correspondence": stream, "case": c, "driver": g}, nofail=True)
            continue
        if cls == 'other':
            others += 1
            if others > 6:
                continue
        if cls != 'other' and any(kf.get("signature") == {"class": cls} for kf in ctx.known):
            # a recorded finding: no need to shrink, Ctx.violation turns it into a KNOWN-FINDING line
            ctx.violation(WHAT[cls], {"kind": "failing-input", "stream": stream, "case": c}, signature={"class": cls})
            continue
        c2 = shrink(exe, ctx.work, c, cls) if cls != 'other' else shrink_other(exe, ctx.work, c, key.split(':', 1)[1])
        c2full, ans2 = run_pair(exe, pair_of(c2), ctx.work)
        if not c2full:
            c2full, ans2 = c, g
        found_input = True
        if cls == 'other':
            clause = key.split(':', 1)[1]
            a, b, _ = parse_case(c2full)
            sig = {"class": "other", "clause": clause}
            what = "distance property violated: clause %s on %s / %s" % (clause, wkt(a)[:120], wkt(b)[:120])
        else:
            sig = {"class": cls}
            what = WHAT[cls]
        rep = {"kind": "failing-input", "stream": stream, "case": c2full, "signature": sig, "count_in_run": counts[key],
               "replay_cmd": "bin/check C08 --replay <this file>"}
        rep.update(describe(c2full, ans2))
        ctx.violation(what, rep, signature=sig)
    ctx.cov["support_correspondence"] = allcorr
    if not proved:
        lf = getattr(ctx, "lean_failure", None) or {}
        ctx.violation("Lean obligations for C08 no longer check" + (" (a failing input was also found)" if found_input else "") + ": " +
                      "; ".join(str(i) for i in lf.get("items", [])[:5]), {"kind": "proof-broken", "lean": lf}, nofail=True)


def shrink_other(exe, work, case, clause, budget=120):
    a, b, _ = parse_case(case)
    best = (a, b); cur = case
    changed = True
    while changed and budget > 0:
        changed = False
        for side in (0, 1):
            for cand in candidates(best[side]):
                if budget <= 0:
                    break
                if is_empty(cand):
                    continue
                budget -= 1
                trial = (cand, best[1]) if side == 0 else (best[0], cand)
                c2, ans = run_pair(exe, pair_tokens(*trial), work)
                if c2 and clause in clauses_of(ans):
                    best, cur, changed = trial, c2, True
                    break
            if changed:
                break
    return cur


def replay(ctx, path):
    r = json.load(open(path))
    ok, out = verif.build_geos("rel")
    exe, out = verif.build_harness("c08")
    verif.lake_build([DRV])
    if "case" not in r:
        print("replay file has no case (", r.get("kind"), ")")
        return 1 if r.get("no_failing_input_found") else 0
    pair = pair_of(r["case"])
    os.makedirs(ctx.work, exist_ok=True)
    case, ans = run_pair(exe, pair, ctx.work)
    d = describe(case, ans) if case else {}
    print("A    :", d.get("wkt_a"))
    print("B    :", d.get("wkt_b"))
    print("impl :", d.get("impl"))
    print("spec :", ans)
    if ans != "ok":
        print("VIOLATION property=C08 replay=%s" % path)
        return 1
    return 0
