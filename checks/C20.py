"""C20 — constructions satisfy their defining conditions; normal form is canonical.

proof : lean/GeosModel/Props/C20.lean
        * model of Geometry::normalize / compareTo / reverse / clone / equalsExact / equalsIdentical on GTree:
          compareTo is a total preorder, normalize is idempotent and canonical under decidable hypotheses
          (unique smallest ring vertex, decisive isCCW, no compareTo-ties between different values); the
          unrestricted statements are refuted with concrete witnesses; counts / dimension / |area| invariants
        * soundness of the exact certificate checkers (hull, envelope, minimum bounding circle, minimum width /
          rectangle over hull edge directions, point on surface)
tie   : correspondence, six streams of harness/c20.cpp against drv_c20
        normalize  : GEOSNormalize_r output == model normal form, ordinate for ordinate, for a generated geometry and
                     2..4 variants (ring start / ring direction / element order); the expect line also carries the
                     implementation's own oracle (idempotent? all variants equal? equalsExact / equalsIdentical?)
        construct  : GEOS outputs of hull / envelope / centroid / pointOnSurface / minimumBoundingCircle /
                     minimumRotatedRectangle / minimumWidth are checked by the exact checkers in the driver
        compare    : signs of a.compareTo(b), b.compareTo(a), a.compareTo(a) == the modelled compareTo
        invariants : clone / reverse / normalize: dumps vs the model, reverse∘reverse, area / length vs exact values,
                     counts, dimension, equalsExact / equalsIdentical vs the model
        pos        : point on surface / interior point on rectilinear (staircase, L, U, comb, cross) shells and holes of the
                     integer grid whose horizontal edges lie on the candidate scan lines (centre of the extent, midway
                     between consecutive vertex ordinates), several holes with collinear edges, lattice symmetries
                     (transpose, mirror, shear, scale), multipolygons, mixed collections, lines, points: exact strict-interior
                     oracle + the model of InteriorPointArea / InteriorPointLine / InteriorPointPoint
        sequence   : programs over registers (an object, its clones / reverses / normalised copies / elements / a second
                     build) with observing calls in between (envelope, area, length, counts, isEmpty, WKB, hull, centroid,
                     isValid, normalize on a copy or in place ...) and equalsExact / equalsIdentical / compareTo both ways;
                     the answers must be those of the stateless model, and equal values must give equal observations
A failing oracle flag or a "violated:<condition>" answer is a concrete input on which the property itself fails for
the implementation; it is classified (by the driver, with the Bool versions of the theorems' hypotheses) into a small
signature so that known findings can be told from new ones."""
import os, json, re, collections
import verif
from verif import log

LEVEL = "proof"
PROPS = ["GeosModel.Props.C20"]
DRV = "drv_c20"

# condition label (as printed by the driver) -> signature
def cond_signature(stream, label):
    m = re.match(r"^([a-z\-]+)\(([a-z\-]+)\)$", label)
    base, cls = (m.group(1), m.group(2)) if m else (label, None)
    if base.startswith("mbc"):
        return {"op": "minimumBoundingCircle", "class": cls or base}
    if base.startswith("minrect"):
        return {"op": "minimumRotatedRectangle", "class": cls or base}
    if base.startswith("minwidth"):
        return {"op": "minimumWidth", "class": cls or base}
    if base == "numpoints-invariant" and cls:
        return {"op": "normalize", "class": cls}
    if base in ("hull", "hull-shape", "hull-error"):
        return {"op": "convexHull", "class": cls or base}
    if base.startswith("envelope"):
        return {"op": "envelope", "class": base}
    if base.startswith("centroid"):
        return {"op": "centroid", "class": base}
    if base in ("point-on-surface", "pos-error"):
        return {"op": "pointOnSurface", "class": base}
    return {"op": stream, "class": label}


def is_model_only(label):
    """labels that say 'the model of reverse/equals/... differs' rather than 'the property fails'"""
    return label.endswith("-model") or label in ("parse-error", "non-finite", "pos-parse", "mbc-parse", "bad-line")


def read_pairs(work, stream, shards):
    out = []
    for k in range(shards):
        base = os.path.join(work, "%s.%d" % (stream, k))
        try:
            c = open(base + ".cases", errors="replace").read().split("\n")
            e = open(base + ".expect", errors="replace").read().split("\n")
        except OSError:
            continue
        for a, b in zip(c, e):
            if a:
                out.append((a, b))
    return out


def read_triples(work, stream, shards):
    out = []
    for k in range(shards):
        base = os.path.join(work, "%s.%d" % (stream, k))
        try:
            c = open(base + ".cases", errors="replace").read().split("\n")
            e = open(base + ".expect", errors="replace").read().split("\n")
            g = open(base + ".got", errors="replace").read().split("\n")
        except OSError:
            continue
        for a, b, d in zip(c, e, g):
            if a:
                out.append((a, b, d))
    return out


def flags_of(expect):
    m = re.search(r"# idem=(\d) canon=(\d) eqx=(\d) eqi=(\d)$", expect)
    return tuple(int(x) for x in m.groups()) if m else None


def shrink_group(case, expect):
    """keep the base geometry and the first member that shows the failure"""
    geoms = case[2:].split(" | ")
    nfs = expect.split(" # ")[0].split(" | ")
    if len(geoms) != len(nfs) or len(geoms) < 2:
        return case
    for i in range(1, len(geoms)):
        if nfs[i] != nfs[0]:
            return "N " + geoms[0] + " | " + geoms[i]
    return "N " + geoms[0] + " | " + geoms[1]


def replay_case(exe, stream, case):
    """re-run one case on the current tree: returns (case_line_with_fresh_outputs, impl_expect, driver_answer)"""
    p = os.path.join(verif.BUILD, "work", "c20-replay-%d.txt" % os.getpid())
    os.makedirs(os.path.dirname(p), exist_ok=True)
    with open(p, "w") as f:
        f.write(case + "\n")
    rc, out = verif.sh([exe, "replay", stream, p], timeout=120)
    os.remove(p)
    line = out.strip().split("\n")[-1] if out.strip() else ""
    if stream in ("normalize", "compare"):
        rc2, got = verif.run_driver_lines(stream, [case], driver_exe=DRV)
        return case, line, (got[0] if got else "")
    rc2, got = verif.run_driver_lines(stream, [line], driver_exe=DRV)
    return line, "ok", (got[0] if got else "")


def run(ctx):
    ctx.base_trust([
        "C20 models (lean/GeosModel/Model/Norm/*.lean) are hand-written from Polygon.cpp, SimpleCurve.cpp, GeometryCollection.cpp, Geometry.cpp, Surface.cpp, CoordinateSequence.cpp, Orientation.cpp; std::sort is modelled as a stable insertion sort (libstdc++ for <= 16 elements)",
        "ordinates are compared through the order-preserving integer key F64.key (-0 = +0); NaN ordinates are outside the model and the generators",
        "translator tie: CoordinateXY::compareTo / equals2D, Geometry::compareTo, SimpleCurve::isEmpty / isClosed / compareToSameClass / normalize are regenerated from the C++ "
        "(translate/cxx2lean.py, specs norm_compare, norm_curve) and proved equal to the model on integer keys (Props/C20Gen.lean, C20GenCurve.lean); Polygon::normalize, "
        "normalizeClosed, isCCW, the collection comparisons and std::sort remain hand-transcribed (correspondence only)",
        "Orientation::isCCW is transcribed over exact integers (F64.scaleAll); Orientation::index is assumed exact on the generated inputs",
        "the constructions' algorithms (Graham scan, rotating calipers, scan line, triangle fan, MBC search) are not modelled: their outputs are checked by exact certificate checkers whose soundness is proved; 'minimum over hull edge directions = minimum over all directions' is the classical rotating-calipers fact and is not proved",
        "convex hull: strict corners (no collinear vertex left) are required on grid inputs only; on full-precision inputs Orientation::index is not exact (see findings) and only convexity / containment / corners-are-inputs are required",
        "InteriorPointArea is modelled over exact rationals (Model/Construct/InteriorPoint.lean: scan-line interval, crossing rule, sorted crossings, widest section); "
        "the implementation's double arithmetic is compared exactly in the ordinate and to 1e-9 in the abscissa / section width on grid inputs only; "
        "InteriorPointLine / InteriorPointPoint are checked as rules (interior vertex if any else end point; nearest to the exact centroid to 1e-9), not modelled step by step",
        "sequence stream: every observer is assumed to be a deterministic function of the geometry value (same value => same answer bit for bit); values are compared by their full dumps (flags, all ordinates' bits)",
        "numeric tolerances of the construct stream: centroid / MBC centre and radius / minimum width 1e-9 of the coordinate magnitude, minimum rotated rectangle 1e-6 (its corners are computed from un-translated line equations); point-on-surface premise 'valid polygon' is GEOSisValid",
    ])
    proved = ctx.prove_generated([("norm_compare", "GeosModel/Generated/NormCompare.lean", "GeosModel.Props.C20Gen"),
                                  ("norm_curve", "GeosModel/Generated/NormCurve.lean", "GeosModel.Props.C20GenCurve")], PROPS, extra_targets=(DRV,))
    ok, out = verif.build_geos("rel")
    if not ok:
        ctx.violation("GEOS does not build with -DGEOS_VERIF", {"kind": "build-failure", "log": out[-3000:]}, nofail=True)
        return
    exe, out = verif.build_harness("c20")
    if not exe:
        ctx.violation("harness c20 does not compile against the current tree",
                      {"kind": "tie-broken", "correspondence": "harness/c20.cpp", "log": out[-3000:]}, nofail=True)
        return
    quick = ctx.tier == "quick"
    shards = min(verif.NPROC, 8)
    plan = (("normalize", 6000 if quick else 120000), ("construct", 8000 if quick else 200000),
            ("invariants", 6000 if quick else 120000), ("compare", 8000 if quick else 150000),
            ("pos", 32000 if quick else 400000), ("sequence", 12000 if quick else 150000))
    corr = {}
    found_input = False
    for stream, n in plan:
        r = verif.run_stream(exe, stream, ctx.seed, n, ctx.work, shards=shards, driver_exe=DRV)
        if r["error"] and "harness exit" in r["error"]:
            # the shared library may have been relinked by a concurrent check: wait for that build (lock), rebuild the
            # harness if needed and try once more
            log("stream %s failed (%s); rebuilding and retrying once" % (stream, r["error"][:120]))
            ok2, _ = verif.build_geos("rel")
            exe2, _ = verif.build_harness("c20")
            if ok2 and exe2:
                exe = exe2
                r = verif.run_stream(exe, stream, ctx.seed, n, ctx.work, shards=shards, driver_exe=DRV)
        ndis = len(r["disagreements"]) + r.get("more_disagreements", 0)
        corr[stream] = {"cases": r["cases"], "disagreements": ndis, "distribution": r["stats"]}
        ctx.cov["samples"] += [{"stream": stream, **s} for s in r.get("samples", [])[:1]]
        if r["error"]:
            ctx.violation("correspondence stream %s could not run: %s" % (stream, r["error"]),
                          {"kind": "tie-broken", "correspondence": stream, "detail": r["error"]}, nofail=True)
            continue
        pairs = read_pairs(ctx.work, stream, shards)
        if stream == "normalize":
            found_input |= judge_normalize(ctx, exe, r, pairs, corr[stream])
        elif stream == "compare":
            found_input |= judge_compare(ctx, exe, r, pairs, corr[stream])
        else:
            found_input |= judge_checked(ctx, exe, stream, read_triples(ctx.work, stream, shards), corr[stream])
    ctx.cov["support_correspondence"] = corr
    if not proved:
        lf = getattr(ctx, "lean_failure", None) or {}
        what = "Lean obligations for C20 no longer check: " + "; ".join(str(i) for i in lf.get("items", [])[:5])
        if found_input:
            what = "Lean obligations for C20 no longer check (a failing input was also found)"
        ctx.violation(what, {"kind": "proof-broken", "lean": lf}, nofail=True)


def judge_normalize(ctx, exe, r, pairs, cov):
    """property-level oracle on the implementation's own answers + model/implementation disagreements"""
    found = False
    # (a) the implementation's own oracle
    bad = [(c, e) for c, e in pairs if (flags_of(e) or (1, 1, 1, 1)) != (1, 1, 1, 1)]
    byclass = collections.defaultdict(list)
    if bad:
        rc, cls = verif.run_driver_lines("normclass", [c for c, _ in bad], driver_exe=DRV)
        for (c, e), k in zip(bad, cls):
            byclass[k.replace("class=", "") if k.startswith("class=") else "unclassified"].append((c, e))
    cov["impl_property_failures"] = {k: len(v) for k, v in byclass.items()}
    for k, items in sorted(byclass.items()):
        c, e = min(items, key=lambda ce: len(ce[0]))
        idem, canon, eqx, eqi = flags_of(e)
        c2 = shrink_group(c, e)
        _, e2, m2 = replay_case(exe, "normalize", c2)
        f2 = flags_of(e2)
        if f2 is None or f2 == (1, 1, 1, 1):
            c2, e2, m2 = c, e, ""
            f2 = (idem, canon, eqx, eqi)
        fails = [n for n, v in zip(("idempotent", "canonical", "equalsExact", "equalsIdentical"), f2) if v == 0]
        sig = {"op": "normalize", "class": k}
        found = True
        ctx.violation("normalize: the implementation's normal forms are not %s on a generated geometry / its variants (class %s, %d cases)"
                      % (" / ".join(fails), k, len(items)),
                      {"kind": "failing-input", "stream": "normalize", "case": c2, "impl": e2, "model": m2,
                       "fails": fails, "signature": sig,
                       "replay_cmd": "%s replay normalize <file with the case line>" % exe}, signature=sig)
    # (b) model vs implementation
    seen = set()
    for idx, case, exp, got in r["disagreements"]:
        fl = flags_of(exp)
        rc, cls = verif.run_driver_lines("normclass", [case], driver_exe=DRV)
        k = cls[0].replace("class=", "") if cls and cls[0].startswith("class=") else "unclassified"
        holds = fl == (1, 1, 1, 1)
        key = ("mismatch", k, holds)
        if key in seen:
            continue
        seen.add(key)
        # The implementation's own oracle decides whether the property fails on this input (reported under (a));
        # a difference from the model means the tie is broken: the code no longer does what the theorems are about.
        ctx.violation("normalize: GEOSNormalize_r output differs from the model's normal form (hypothesis class %s; the implementation's own idempotence/canonicity oracle %s on this input)"
                      % (k, "holds" if holds else "fails"),
                      {"kind": "tie-broken", "correspondence": "normalize", "stream": "normalize", "case": case, "impl": exp, "model": got,
                       "class": k}, nofail=True)
    return found


def judge_compare(ctx, exe, r, pairs, cov):
    """Geometry::compareTo: the implementation's own answers must be antisymmetric and reflexive (what makes the sort
    canonical); a difference from the model is a broken tie"""
    found = False
    bad = [(c, e) for c, e in pairs if e.split() and (len(e.split()) != 3 or int(e.split()[0]) != -int(e.split()[1]) or e.split()[2] != "0")]
    cov["impl_not_antisymmetric"] = len(bad)
    if bad:
        c, e = min(bad, key=lambda ce: len(ce[0]))
        sig = {"op": "compareTo", "class": "not-antisymmetric-or-reflexive"}
        found = True
        ctx.violation("compareTo is not antisymmetric / reflexive on a generated pair (%d cases)" % len(bad),
                      {"kind": "failing-input", "stream": "compare", "case": c, "impl": e, "signature": sig}, signature=sig)
    if r["disagreements"]:
        idx, case, exp, got = min(r["disagreements"], key=lambda d: len(d[1]))
        ctx.violation("compare: a.compareTo(b) differs from the modelled compareTo (%d cases)" % (len(r["disagreements"]) + r.get("more_disagreements", 0)),
                      {"kind": "tie-broken", "correspondence": "compare", "stream": "compare", "case": case, "impl": exp, "model": got}, nofail=True)
    return found


def replay_many(exe, stream, cases):
    """re-run several case lines in one go: list of (fresh_line, driver_answer)"""
    p = os.path.join(verif.BUILD, "work", "c20-replay-%d.txt" % os.getpid())
    os.makedirs(os.path.dirname(p), exist_ok=True)
    with open(p, "w") as f:
        f.write("\n".join(cases) + "\n")
    rc, out = verif.sh([exe, "replay", stream, p], timeout=300)
    os.remove(p)
    lines = [l for l in out.split("\n") if l.strip()]
    if len(lines) != len(cases):
        return [("", "")] * len(cases)
    rc2, got = verif.run_driver_lines(stream, lines, driver_exe=DRV)
    got = (got + [""] * len(lines))[:len(lines)]
    return list(zip(lines, got))


CREATING = ("cl", "rv", "nm", "bd", "sub")


def shrink_sequence(exe, case, label):
    """drop the observing / querying operations that are not needed for `label` (register-creating ones are kept so
    that the numbering stays the same)"""
    secs = case.split(" | ")
    head = [x for x in secs if not x.startswith("O ")]
    ops = [x for x in secs if x.startswith("O ")]
    def line(keep):
        return " | ".join(head + [o for o, k in zip(ops, keep) if k])
    def fails(ans):
        return ans.startswith("violated:") and label in ans.replace("violated:", "").split(",")
    try:
        keep = [True] * len(ops)
        if not fails(replay_many(exe, "sequence", [line(keep)])[0][1]):
            return case
        for _ in range(3):
            idx = [i for i, o in enumerate(ops) if keep[i] and o.split()[1] not in CREATING]
            if not idx:
                break
            variants = [line([k and j != i for j, k in enumerate(keep)]) for i in idx]
            res = replay_many(exe, "sequence", variants)
            removable = [i for i, (_, a) in zip(idx, res) if fails(a)]
            if not removable:
                break
            trial = [k and j not in removable for j, k in enumerate(keep)]
            if fails(replay_many(exe, "sequence", [line(trial)])[0][1]):
                keep = trial
                continue
            # removable one at a time but not together: go through them sequentially
            for i in removable:
                trial = list(keep); trial[i] = False
                if fails(replay_many(exe, "sequence", [line(trial)])[0][1]):
                    keep = trial
            break
        return line(keep)
    except Exception:
        return case


def judge_checked(ctx, exe, stream, triples, cov):
    found = False
    groups = collections.defaultdict(list)
    for case, exp, got in triples:
        if got == exp:
            continue
        labels = got.replace("violated:", "").split(",") if got.startswith("violated:") else [got]
        for lb in labels:
            groups[lb].append((case, got))
    cov["violated_conditions"] = {k: len(v) for k, v in groups.items()}
    for lb, items in sorted(groups.items()):
        case, got = min(items, key=lambda cg: len(cg[0]))
        if stream == "sequence":
            case = shrink_sequence(exe, case, lb)
        fresh_case, _, fresh_got = replay_case(exe, stream, case)
        if is_model_only(lb):
            ctx.violation("%s: the model and the implementation disagree on '%s' (no property condition fails on this input)" % (stream, lb),
                          {"kind": "tie-broken", "correspondence": stream, "case": case, "driver": got}, nofail=True)
            continue
        sig = cond_signature(stream, lb)
        found = True
        ctx.violation("%s: condition '%s' fails on a generated input (%d of %d cases)" % (stream, lb, len(items), len(triples)),
                      {"kind": "failing-input", "stream": stream, "case": fresh_case or case, "checker": fresh_got or got,
                       "condition": lb, "signature": sig,
                       "replay_cmd": "%s replay %s <file with the case line> | drv_c20 %s" % (exe, stream, stream)}, signature=sig)
    return found


def replay(ctx, path):
    r = json.load(open(path))
    ok, out = verif.build_geos("rel")
    exe, out = verif.build_harness("c20")
    verif.lake_build([DRV])
    if not exe or "case" not in r or "stream" not in r:
        print("nothing to replay in", path)
        return 1 if r.get("kind") else 0
    stream = r["stream"]
    case, impl, drv = replay_case(exe, stream, r["case"])
    print("stream :", stream)
    print("case   :", case[:2000])
    print("impl   :", impl[:2000])
    print("checker:", drv[:2000])
    bad = False
    if stream == "normalize":
        fl = flags_of(impl)
        bad = fl is None or fl != (1, 1, 1, 1) or impl != drv
    elif stream == "compare":
        t = impl.split()
        bad = impl != drv or len(t) != 3 or int(t[0]) != -int(t[1]) or t[2] != "0"
    else:
        bad = drv != "ok"
    if bad:
        print("VIOLATION property=C20 replay=%s" % path)
        return 1
    return 0
