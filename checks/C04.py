"""C04 — fixed-precision results are on the grid, valid, near exact, and never fail.

proof : lean/GeosModel/Props/C04.lean — rounding rule (javaRound = floor(x+1/2), nearest, ties toward +inf),
        makePrecise idempotent (exact, both branches; floating composition under explicit hypotheses),
        hot-pixel test = "closed segment meets the half-open pixel" (iff), pointwise reduction on GTree.
tie   : (1) stream precise   — PrecisionModel(scale).getScale()/makePrecise() bits vs the floating model
        (2) stream hotpixel  — the real noding::snapround::HotPixel vs the Int model on every corner/side incidence
        (4) stream collapse  — one operand is a sub-cell polygon at a feature point of the other: hasEdgesFor of the real EdgeNodingBuilder vs
            "all vertices round to one point" (chain_collapses_iff) and the laws that follow from collapsed_operand_is_exterior / collapse_laws
        (3) stream prec-ops  — GEOS*Prec_r / GEOSGeom_setPrecision_r (all flags) on generated valid inputs; the driver checks
            the CONTRACT exactly: never fails, every ordinate a fixed point of the floating makePrecise (bit for bit),
            valid, classified like the exact Boolean combination farther than 2g from all input boundaries,
            NO_TOPO = pointwise image, default/KEEP_COLLAPSED line handling predicted exactly.
A `bad ...` verdict on (3) *is* a concrete failing input of C04; disagreements on (1)/(2) are model/implementation
mismatches of the CORE functions: the exact layer (proved) then decides whether the property's own sentence fails."""
import os, json, glob, struct, math
import verif, gtok
from verif import log

LEVEL = "proof"
PROPS = ["GeosModel.Props.C04"]
DRV = "drv_c04"


def _dec(h):
    return struct.unpack('>d', bytes.fromhex(h))[0]


def split_case(case):
    parts = case.split(" | ")
    hdr = parts[0].split()
    return hdr, parts[1], parts[2], (parts[3] if len(parts) > 3 else ""), (parts[4] if len(parts) > 4 else "")


def evaluate(exe, op, flags, ghex, a, b):
    """re-run one operation in GEOS and ask the driver; returns (verdict, full case line)"""
    p = os.path.join(verif.BUILD, "work", "c04-replay-%d.txt" % os.getpid())
    os.makedirs(os.path.dirname(p), exist_ok=True)
    with open(p, "w") as f:
        f.write("O %s %s %s | %s | %s\n" % (op, flags, ghex, a, b))
    rc, out = verif.sh([exe, "replay", p], timeout=120)
    line = out.strip().split("\n")[-1] if out.strip() else ""
    if rc != 0:
        return "crash rc=%d" % rc, line
    if not line.startswith("O "):
        return None, "invalid"
    rc2, lines = verif.run_driver_lines("prec-ops", [line], driver_exe=DRV)
    return (lines[0] if lines and lines[0] else "driver-error"), line


def all_disagreements(work, stream):
    res = []
    for fc in sorted(glob.glob(os.path.join(work, stream + ".*.cases"))):
        base = fc[:-6]
        try:
            cases = open(fc, errors="replace").read().split("\n")
            exp = open(base + ".expect", errors="replace").read().split("\n")
            got = open(base + ".got", errors="replace").read().split("\n")
        except OSError:
            continue
        for i, (c, e, g) in enumerate(zip(cases, exp, got)):
            if c and e != g:
                res.append((i, c, e, g))
    return res


def verdict_class(v):
    t = v.split()
    if not t:
        return "?"
    if t[0] == "bad" and len(t) > 1:
        return t[1]
    return t[0]


def leaf_kinds(line):
    """(points, lines, polygons) non-empty leaf counts of a GTree token line"""
    g = gtok.parse(line)[1]
    c = [0, 0, 0]

    def walk(e):
        if e[0] in gtok.COLL:
            for x in e[1]:
                walk(x)
        elif e[0] == "P":
            c[0] += 1 if e[1][1] else 0
        elif e[0] in ("L", "R"):
            c[1] += 1 if e[1][1] else 0
        elif e[0] == "Y":
            c[2] += 1 if (e[1] and e[1][0][1]) else 0
    walk(g)
    return c


def half_cell_input(ghex, a, b):
    """does some input ordinate lie (within 2^-30 of a cell) on a cell boundary k + 1/2 of the grid, as the library sees it
    (val * scale in binary64 with scale = 1.0 / gridSize)?  Such ordinates are the ties of makePrecise; with a scale that is
    not exactly representable the product is 0.49999999999999994-like and rounding / hot-pixel tests can disagree."""
    g = abs(_dec(ghex))
    if not g > 0:
        return False
    scale = 1.0 / g
    gs = 1.0 / scale
    if abs(gs - round(gs)) < 1e-5:
        gs = float(round(gs))
    for line in (a, b):
        if line == "-":
            continue
        for t in line.split():
            if len(t) == 16:
                try:
                    x = _dec(t)
                except Exception:
                    continue
                # HotPixel multiplies by the scale, makePrecise divides by the grid size when it is > 1
                for v in (x * scale, (x / gs) if (gs > 0 and gs != float("inf")) else float("nan")):
                    if v != v or abs(v) > 2.0 ** 52:
                        continue
                    f = v - math.floor(v)
                    if abs(f - 0.5) < 2.0 ** -30:
                        return True
    return False


def sub_cell_feature(ghex, a, b):
    """some ring or line of an input spans fewer than 2 grid cells in x or in y: it collapses (or nearly does) under rounding"""
    g = abs(_dec(ghex)) if ghex else 0.0
    if not g > 0:
        return False
    found = [False]

    def seq(sq):
        pts = sq[1]
        if len(pts) < 2:
            return
        xs = [_dec(p[0]) for p in pts]
        ys = [_dec(p[1]) for p in pts]
        if (max(xs) - min(xs)) < 2 * g or (max(ys) - min(ys)) < 2 * g:
            found[0] = True

    def walk(e):
        if e[0] in gtok.COLL:
            for x in e[1]:
                walk(x)
        elif e[0] in ("L", "R"):
            seq(e[1])
        elif e[0] == "Y":
            for sq in e[1]:
                seq(sq)
    for line in (a, b):
        if line and line != "-":
            try:
                walk(gtok.parse(line)[1])
            except Exception:
                pass
    return found[0]


def complete_collapse(ghex, a, b):
    """does some purely polygonal operand collapse completely: every one of its vertices rounds (floor(v/g + 1/2) per ordinate) to one
    and the same grid point, so that none of its edges survives snap rounding?"""
    g = abs(_dec(ghex)) if ghex else 0.0
    if not g > 0:
        return False
    for line in (a, b):
        if not line or line == "-":
            continue
        cells, other = set(), [False]

        def walk(e):
            if e[0] in gtok.COLL:
                for x in e[1]:
                    walk(x)
            elif e[0] == "Y":
                for sq in e[1]:
                    for pt in sq[1]:
                        cells.add((math.floor(_dec(pt[0]) / g + 0.5), math.floor(_dec(pt[1]) / g + 0.5)))
            elif e[1][1]:
                other[0] = True
        try:
            walk(gtok.parse(line)[1])
        except Exception:
            continue
        if len(cells) == 1 and not other[0]:
            return True
    return False


def signature(op, flags, a, b, verdict, ghex=None):
    """Structural key of a failing case, used to match KNOWN_FINDINGS.json.
    subCellFeature: (class exception, no rounding tie) an input ring or line spans fewer than two grid cells in x or y
    operandCollapsesCompletely: (with subCellFeature) every vertex of one purely polygonal operand rounds to one grid point: none of
            its edges survives noding and the overlay must treat it as absent (OverlayNG::computeEdgeOverlay / InputGeometry::setCollapsed);
            the recorded 'Ring edge missing' family has partially collapsing rings only (false)
    halfCellInput : (failure classes of the operations) an input ordinate sits on a rounding tie k + 1/2 of the grid
    class : which clause of the contract fails (exception | offgrid | invalid-result | ring-check | far-sample |
            stray-vertex | pointwise | line-reduce | crash)
    op    : I U D S UU SP<flags>
    path  : (UU only) GEOSUnaryUnionPrec_r has two structurally different ways around the precision model:
            exactly one polygon in the input (CascadedPolygonUnion returns a clone) and lines+polygons / points+others
            (UnaryUnionOp::unionWithNull merges with the floating Geometry::Union instead of the union strategy)"""
    cls = verdict_class(verdict)
    sig = {"class": cls, "op": op if op != "SP" else "SP%s" % flags}
    if cls in ("exception", "invalid-result", "ring-check", "far-sample", "stray-vertex", "crash"):
        sig["halfCellInput"] = half_cell_input(ghex, a, b) if ghex else False
        if sig["halfCellInput"]:
            del sig["op"]            # one family whatever the operation: snap rounding of inputs sitting on rounding ties
            return sig
        if cls == "exception" and ghex and sub_cell_feature(ghex, a, b):
            del sig["op"]            # one family whatever the operation: a ring / line thinner than two grid cells
            sig["subCellFeature"] = True
            sig["operandCollapsesCompletely"] = complete_collapse(ghex, a, b)
            return sig
        if ghex:
            # is the scale 1/gridSize exact (gridSize a power of two)?  Otherwise grid-aligned ordinates k*gridSize times the
            # rounded scale are not integers, and exact incidences with hot-pixel corners are decided by rounding noise
            import struct as _st
            gs = _st.unpack(">d", bytes.fromhex(ghex))[0]
            m = abs(gs)
            sig["scaleExact"] = bool(m > 0 and m != float("inf") and (1.0 / m) * m == 1.0 and float.fromhex(m.hex()).hex().startswith("0x1.0000000000000p"))
    if op == "UU":
        k = leaf_kinds(a)
        mixed = sum(1 for x in k if x > 0) > 1
        sig["path"] = "single-polygon-passthrough" if k[2] == 1 else ("mixed-dimension-merge" if mixed else "other")
    return sig


def shrink(exe, op, flags, ghex, a, b, verdict):
    cls0 = verdict_class(verdict)
    sig0 = signature(op, flags, a, b, verdict, ghex)
    best = (a, b, verdict)
    progress, rounds = True, 0
    while progress and rounds < 8:
        progress = False
        rounds += 1
        for which in (0, 1):
            cur = best[which]
            if cur == "-":
                continue
            for cand in gtok.shrink_candidates(cur):
                na, nb = (cand, best[1]) if which == 0 else (best[0], cand)
                v, _ = evaluate(exe, op, flags, ghex, na, nb)
                if v and verdict_class(v) == cls0 and v.startswith(("bad", "crash")) and signature(op, flags, na, nb, v, ghex) == sig0:
                    best = (na, nb, v)
                    progress = True
                    break
            if progress:
                break
    return best


def describe(op, flags, ghex, a, b):
    d = {"op": op, "flags": int(flags), "gridSize": _dec(ghex), "gridSize_bits": ghex, "A": a, "A_wkt": gtok.wkt(a)}
    if b != "-":
        d["B"] = b
        d["B_wkt"] = gtok.wkt(b)
    return d


WHY = {
    "exception": "the operation failed (NULL / exception) on valid input and a positive grid size",
    "offgrid": "an ordinate of the result is not a fixed point of makePrecise for the requested grid",
    "invalid-result": "GEOSisValid rejects the result",
    "ring-check": "the result has an unclosed / too short ring or properly crossing ring segments (exact test)",
    "far-sample": "a location farther than 2g from every input boundary is classified differently from the exact Boolean combination",
    "stray-vertex": "a vertex or segment midpoint of the result lies farther than 2g from every input segment and point",
    "pointwise": "GEOS_PREC_NO_TOPO did something other than moving every vertex to makePrecise of itself",
    "line-reduce": "points / lines of the default or KEEP_COLLAPSED reduction differ from round + drop-repeated + collapse rule",
    "getPrecision": "GEOSGeom_getPrecision_r of the setPrecision result is not 1.0/scale of PrecisionModel(1.0/gridSize)",
    "crash": "the process died",
}


def run(ctx):
    ctx.base_trust([
        "CORE models (Model/Precision/Round.lean, HotPixel.lean) are hand-written from src/util/math.cpp, src/geom/PrecisionModel.cpp, "
        "src/noding/snapround/HotPixel.cpp and tied by the streams `precise` and `hotpixel` (bit-for-bit / answer-for-answer)",
        "IEEE-754 binary64 round-to-nearest-even for * / + - (the model's roundNE is the specification of the hardware operation; "
        "exercised against the compiled code by stream `precise`)",
        "CGAlgorithmsDD::orientationIndex is modelled by the exact sign of its determinant (see C07)",
        "snap-rounding noder and OverlayNG are NOT modelled: 'valid, within 2g, never fails' is checked per output by the exact sampling oracle "
        "(Model/Precision/Near.lean; samples = lattice between vertex ordinates + ring corners + result vertices/midpoints), not proved",
        "validity of inputs and of results is GEOSisValid's verdict plus a light exact ring check",
        "resolution hypothesis: |ordinate / gridSize| < 2^48 (below that the grid is finer than binary64 at the data's magnitude); "
        "the generator raises smaller grid sizes and counts them",
        "GeometryCollection inputs are only given to setPrecision and unary union; Z/M ordinates and curved types are not generated",
    ])
    # translator tie: HotPixel's tests are regenerated from the current C++ and proved equal to Model/Precision/HotPixel.lean
    # and so are the rounding rule and the precision-model arithmetic: util::java_math_round / util::round / sym_round (src/util/math.cpp,
    # include/geos/util/math.h), PrecisionModel::makePrecise / snapToInt / setScale (src/geom/PrecisionModel.cpp) vs Model/Precision/Round.lean
    # (exact layer over Rat and binary64 layer over F64.Val); stream `precise` exercises the same functions bit for bit
    proved = ctx.prove_generated([("hotpixel", "GeosModel/Generated/HotPixel.lean", "GeosModel.Props.C04Gen"),
                                  ("precision_round", "GeosModel/Generated/PrecisionRound.lean", "GeosModel.Props.C04GenRound")],
                                 PROPS, extra_targets=(DRV,))
    ok, out = verif.build_geos("rel")
    if not ok:
        ctx.violation("GEOS does not build with -DGEOS_VERIF", {"kind": "build-failure", "log": out[-3000:]}, nofail=True)
        return
    exe, out = verif.build_harness("c04")
    if not exe:
        ctx.violation("harness c04 does not compile against the current tree", {"kind": "tie-broken", "correspondence": "harness/c04.cpp", "log": out[-3000:]}, nofail=True)
        return
    quick = ctx.tier == "quick"
    corr = {}
    found_input = False
    shards = min(verif.NPROC, 8)

    # ---- (1) rounding rule, (2) hot pixel: CORE correspondence
    for stream, n in (("precise", 60000 if quick else 2000000), ("hotpixel", 160000 if quick else 4000000)):
        r = verif.run_stream(exe, stream, ctx.seed, n, ctx.work, shards=shards, driver_exe=DRV)
        corr[stream] = {"cases": r["cases"], "disagreements": len(r["disagreements"]) + r.get("more_disagreements", 0), "distribution": r["stats"]}
        ctx.cov["samples"] += r.get("samples", [])[:1]
        if r["error"]:
            ctx.violation("stream %s could not run: %s" % (stream, r["error"]), {"kind": "tie-broken", "correspondence": stream, "detail": r["error"]}, nofail=True)
            continue
        if r["stats"].get("ASYMMETRIC_ANSWER"):
            # intersects(p0,p1) != intersects(p1,p0): whichever is right, one of them contradicts the geometric definition
            for idx, case, exp, got in r["disagreements"]:
                if len(exp) == 4 and exp[2] != exp[3]:
                    found_input = True
                    ctx.violation("HotPixel::intersects(p0,p1) depends on the order of the endpoints",
                                  {"kind": "failing-input", "stream": stream, "case": "H " + case, "impl": exp, "model": got,
                                   "replay_cmd": "%s replay <file with the case line>" % exe}, signature={"class": "hotpixel-asymmetric"})
                    break
        seen = set()
        for idx, case, exp, got in r["disagreements"]:
            if stream == "hotpixel":
                # the model is PROVED equal to "closed segment meets half-open pixel" (hotpixel_iff); a different answer of the
                # implementation on exactly representable inputs is therefore a wrong hot-pixel decision = a failing input
                k = "".join("x" if a != b else "." for a, b in zip(exp, got))
                if k in seen:
                    continue
                # does the answer match under the other floating scaling convention (val / gridSize instead of val * scaleFactor)?
                # then the pixel RULE is intact and only the scaling step of the model is out of date: a broken tie, not a failing input
                _, alt = verif.run_driver_lines("hotpixel-div", [case], driver_exe=DRV)
                if alt and alt[0] == exp:
                    if "convention" not in seen:
                        seen.add("convention")
                        ctx.violation("HotPixel now scales ordinates by division (val / gridSize) instead of val * scaleFactor: the floating scaling step of the "
                                      "driver (Driver/C04.lean, `scv`) no longer mirrors the code; the pixel rule itself agrees",
                                      {"kind": "tie-broken", "correspondence": "hotpixel", "case": "H " + case, "impl": exp, "model_mul": got, "model_div": alt[0]}, nofail=True)
                    continue
                seen.add(k)
                found_input = True
                ctx.violation("HotPixel answers differ from the geometric definition (intersects(p0) intersects(p1) intersects(p0,p1) intersects(p1,p0)): impl %s, definition %s" % (exp, got),
                              {"kind": "failing-input", "stream": stream, "case": "H " + case, "impl": exp, "model": got,
                               "fields": "scaleFactor pt.x pt.y p0.x p0.y p1.x p1.y (binary64 bits)",
                               "decoded": [_dec(t) for t in case.split()],
                               "replay_cmd": "%s replay <file with the case line>" % exe}, signature={"class": "hotpixel", "differs": k})
            else:
                # makePrecise / setScale bits differ from the floating model of the documented rule
                t, e, g = case.split(), exp.split(), got.split()
                pos = [i for i in range(min(len(e), len(g))) if e[i] != g[i]]
                kind = "scale" if pos and pos[0] == 0 else "makePrecise"
                if kind in seen:
                    continue
                seen.add(kind)
                found_input = True
                i = pos[0] if pos else 0
                ctx.violation("PrecisionModel(%r): %s differs from the rounding rule: impl %s, rule %s" % (_dec(t[0]), kind if i == 0 else "makePrecise(%r)" % _dec(t[i]), e[i] if pos else exp, g[i] if pos else got),
                              {"kind": "failing-input", "stream": stream, "case": "P " + case, "impl": exp, "model": got,
                               "fields": "newScale value* (binary64 bits) -> getScale() makePrecise(value)*",
                               "replay_cmd": "%s replay <file with the case line>" % exe}, signature={"class": "precise", "what": kind})

    # ---- (3) the contract on the results of the precision operations
    n = 9000 if quick else 400000
    r = verif.run_stream(exe, "prec-ops", ctx.seed, n, ctx.work, shards=shards, driver_exe=DRV, timeout=6000)
    corr["prec-ops"] = {"cases": r["cases"], "disagreements": len(r["disagreements"]) + r.get("more_disagreements", 0), "distribution": r["stats"]}
    ctx.cov["samples"] += r.get("samples", [])[:1]
    if r["error"]:
        cur = sorted(glob.glob(os.path.join(ctx.work, "prec-ops.*.current")))
        crashed = None
        for c in cur:
            line = open(c).read().strip()
            if line:
                hdr, a, b, _, _ = split_case(line)
                v, _ = evaluate(exe, hdr[1], hdr[2], hdr[3], a, b)
                if v and v.startswith("crash"):
                    crashed = (hdr, a, b, v)
                    break
        if crashed:
            found_input = True
            hdr, a, b, v = crashed
            sig = signature(hdr[1], hdr[2], a, b, v, hdr[3])
            d = describe(hdr[1], hdr[2], hdr[3], a, b)
            d.update({"kind": "failing-input", "stream": "prec-ops", "result": v, "signature": sig})
            ctx.violation("precision operation crashes on valid input (%s)" % v, d, signature=sig)
        else:
            ctx.violation("stream prec-ops could not run: " + r["error"], {"kind": "tie-broken", "correspondence": "prec-ops", "detail": r["error"]}, nofail=True)
    skipped, seen, shrunk = 0, [], 0
    # run_stream keeps only the first 50 disagreements; one frequent (known) class must not hide the others
    alld = all_disagreements(ctx.work, "prec-ops") or r["disagreements"]
    for idx, case, exp, got in alld:
        if got.startswith("skip"):
            skipped += 1
            continue
        hdr, a, b, _, _ = split_case(case)
        op, flags, ghex = hdr[1], hdr[2], hdr[3]
        if not got.startswith("bad"):
            if "driver" not in seen:
                seen.append("driver")
                ctx.violation("driver could not judge a prec-ops case: " + got, {"kind": "tie-broken", "correspondence": "prec-ops", "case": case[:2000], "driver": got}, nofail=True)
            continue
        sig0 = signature(op, flags, a, b, got, ghex)
        if sig0 in seen:
            continue
        seen.append(sig0)
        if shrunk < 10:
            a, b, got = shrink(exe, op, flags, ghex, a, b, got)
            shrunk += 1
        sig = signature(op, flags, a, b, got, ghex)
        if sig != sig0 and sig in seen:
            continue
        seen.append(sig)
        found_input = True
        d = describe(op, flags, ghex, a, b)
        _, full = evaluate(exe, op, flags, ghex, a, b)
        d.update({"kind": "failing-input", "stream": "prec-ops", "verdict": got, "why": WHY.get(verdict_class(got), ""), "signature": sig,
                  "observed": full.split(" | ", 3)[-1][:3000] if full else "",
                  "replay_line": "O %s %s %s | %s | %s" % (op, flags, ghex, a, b)})
        ctx.violation("%s(gridSize=%r%s): %s  [%s]" % ({"I": "GEOSIntersectionPrec", "U": "GEOSUnionPrec", "D": "GEOSDifferencePrec", "S": "GEOSSymDifferencePrec",
                                                       "UU": "GEOSUnaryUnionPrec", "SP": "GEOSGeom_setPrecision"}[op], _dec(ghex), (", flags=%s" % flags) if op == "SP" else "",
                                                      WHY.get(verdict_class(got), got), json.dumps(sig, sort_keys=True)), d, signature=sig)
    corr["prec-ops"]["skipped"] = skipped
    # distribution of what the oracle actually classified (a sub-sample, through the stat variant of the stream)
    try:
        sample = []
        for f in sorted(glob.glob(os.path.join(ctx.work, "prec-ops.*.cases")))[:2]:
            sample += open(f).read().split("\n")[:400]
        sample = [s for s in sample if s]
        rc, lines = verif.run_driver_lines("prec-ops-stat", sample, driver_exe=DRV, timeout=900)
        agg = {"cases": 0, "far": 0, "in": 0, "verts": 0}
        for ln in lines:
            if ln.startswith("ok "):
                agg["cases"] += 1
                for t in ln.split()[1:]:
                    k, v = t.split("=")
                    if k in agg:
                        agg[k] += int(v)
                    else:
                        agg["mode_" + v] = agg.get("mode_" + v, 0) + 1
        corr["prec-ops"]["oracle_subsample"] = {"cases": agg["cases"], "far_samples_classified": agg["far"], "of_which_inside_expected_result": agg["in"],
                                                "result_vertices_checked_on_grid": agg["verts"],
                                                "modes": {k[5:]: v for k, v in agg.items() if k.startswith("mode_")}}
    except Exception as ex:
        corr["prec-ops"]["oracle_subsample"] = {"error": repr(ex)}
    # ---- (4) an operand that collapses completely: edge flags of the real EdgeNodingBuilder vs the model, and the laws of Props/C04 section 6
    nk = 3000 if quick else 120000
    rk = verif.run_stream(exe, "collapse", ctx.seed, nk, ctx.work, shards=shards, driver_exe=DRV, timeout=6000)
    corr["collapse"] = {"cases": rk["cases"], "disagreements": len(rk["disagreements"]) + rk.get("more_disagreements", 0), "distribution": rk["stats"]}
    ctx.cov["samples"] += rk.get("samples", [])[:1]
    if rk["error"]:
        ctx.violation("stream collapse could not run: " + rk["error"], {"kind": "tie-broken", "correspondence": "collapse", "detail": rk["error"]}, nofail=True)
    seenk = []
    for idx, case, exp, got in rk["disagreements"]:
        parts = case.split(" | ")
        if not got.startswith("bad") or len(parts) < 4:
            if "driver" not in seenk:
                seenk.append("driver")
                ctx.violation("driver could not judge a collapse case: " + got, {"kind": "tie-broken", "correspondence": "collapse", "case": case[:2000], "driver": got}, nofail=True)
            continue
        t = got.split()
        ghex, a, b = parts[0].split()[1], parts[1], parts[2]
        if t[1] == "exception":
            sig = {"class": "exception", "stream": "collapse", "operandCollapsesCompletely": complete_collapse(ghex, a, b)}
            why = "a fixed-precision overlay (%s) failed on valid input where one operand is a sub-cell polygon" % (t[2] if len(t) > 2 else "?")
        elif t[1] == "collapse-model":
            if half_cell_input(ghex, a, b):
                # an input ordinate on a rounding tie (k + 1/2 cells): which cell such a vertex belongs to is decided differently by
                # PrecisionModel::makePrecise (the model of "all vertices round to one point") and by the hot pixels of the snap-rounding
                # noder; the comparison of this INTERNAL prediction is outside the model's domain there (no clause of the property is at stake:
                # the results of these cases are checked by the contract oracle of the prec-ops stream like all others)
                corr["collapse"]["collapse_model_skipped_on_rounding_ties"] = corr["collapse"].get("collapse_model_skipped_on_rounding_ties", 0) + 1
                continue
            sig = {"class": "collapse-model", "stream": "collapse"}
            why = "every vertex of a polygonal operand rounds to one grid point, yet EdgeNodingBuilder::hasEdgesFor reports surviving edges for it"
        else:
            sig = {"class": "collapse-law", "stream": "collapse", "which": " ".join(t[2:4])}
            why = ("an operand without surviving edges must count as absent: intersection (and the difference taken from it) empty, union = difference = "
                   "symmetric difference of the other operand; observed: " + " ".join(t[2:4]))
        if sig in seenk:
            continue
        seenk.append(sig)
        found_input = True
        d = {"kind": "failing-input", "stream": "collapse", "gridSize": _dec(ghex), "gridSize_bits": ghex, "A": a, "A_wkt": gtok.wkt(a), "B": b, "B_wkt": gtok.wkt(b),
             "edge_flags": parts[3], "verdict": got, "why": why, "signature": sig, "replay_line": "K %s | %s | %s" % (ghex, a, b),
             "observed": [gtok.wkt(x[3:]) if x.startswith("ok ") else x for x in parts[4:9]]}
        ctx.violation("fixed-precision overlay with a completely collapsing operand (gridSize=%r): %s  [%s]" % (_dec(ghex), why, json.dumps(sig, sort_keys=True)), d, signature=sig)
    ctx.cov["support_correspondence"] = corr
    if not proved:
        lf = getattr(ctx, "lean_failure", None) or {}
        ctx.violation("Lean obligations for C04 no longer check: " + "; ".join(str(i) for i in lf.get("items", [])[:5]),
                      {"kind": "proof-broken", "lean": lf}, nofail=not found_input)


def replay(ctx, path):
    r = json.load(open(path))
    verif.build_geos("rel")
    exe, _ = verif.build_harness("c04")
    verif.lake_build([DRV])
    rc = 0
    lines = []
    if "replay_lines" in r:
        lines = r["replay_lines"]
    elif "replay_line" in r:
        lines = [r["replay_line"]]
    elif "case" in r:
        lines = [r["case"]]
    for ln in lines:
        pth = os.path.join(verif.BUILD, "work", "c04-rp-%d.txt" % os.getpid())
        os.makedirs(os.path.dirname(pth), exist_ok=True)
        open(pth, "w").write(ln + "\n")
        code, out = verif.sh([exe, "replay", pth], timeout=120)
        obs = out.strip().split("\n")[-1] if out.strip() else ""
        print("case    :", ln[:1500])
        if ln[:2] in ("P ", "H "):
            stream = "precise" if ln[0] == "P" else "hotpixel"
            _, got = verif.run_driver_lines(stream, [ln[2:]], driver_exe=DRV)
            print("impl    :", obs)
            print("model   :", got[0] if got else "?")
            if code != 0 or not got or got[0] != obs:
                rc = 1
        elif ln[:2] == "K ":
            if code != 0 or not obs.startswith("K "):
                print("verdict : %s" % ("crash rc=%d" % code if code else "input rejected (%s)" % obs))
                rc = 1 if code else rc
                continue
            _, got = verif.run_driver_lines("collapse", [obs], driver_exe=DRV)
            print("observed:", obs.split(" | ", 3)[-1][:1500])
            print("verdict :", got[0] if got else "?")
            if not got or got[0] != "ok":
                rc = 1
        else:
            if code != 0:
                print("verdict : crash rc=%d" % code)
                rc = 1
                continue
            if not obs.startswith("O "):
                print("verdict : input rejected (%s)" % obs)
                continue
            _, got = verif.run_driver_lines("prec-ops", [obs], driver_exe=DRV)
            print("observed:", obs.split(" | ", 3)[-1][:1500])
            print("verdict :", got[0] if got else "?")
            if not got or got[0] != "ok":
                rc = 1
    if rc:
        print("VIOLATION property=C04 replay=%s" % path)
    return rc
