"""C10 — written WKT/GeoJSON is re-readable and equals the input to stated precision.

proof   : lean/GeosModel/Props/C10.lean — theorems about the model of the number formatter
          (Model/Num: `shortest` = specification of Ryu, faithful port of to_chars_fixed /
          geos_d2s*_buffered_n / writeTrimmedNumber, exact decimal parser + round-to-nearest-even) and about the
          token-level WKT writer / reader (Model/WKT).
tie     : correspondence, five streams of harness/c10.cpp against `drv_c10`:
            fmt        GEOS_printDouble / GEOSWKTWriter_write_r string and glibc strtod bits  ==  model
            wkt-write  GEOSWKTWriter_write_r on generated trees under every configuration     ==  model writer
            wkt-read   GEOSWKTReader_read_r on GEOS's own output, variants, corpus, mutations   ==  model reader
            wkt-rt     read(write(g)) through GEOS == through the model == specification `project` / `dimOK`
translator: translate/specs/wkt_io.py regenerates the configuration / ordinate-flag / number-layout decisions of WKTWriter, WKTReader,
          OrdinateSet.h and PrecisionModel::getMaximumSignificantDigits into Generated/WktIO.lean on every run; Props/C10Gen.lean
          proves them equal to the model (setters, decimalPlaces, capOrds, ordText, coordToks, writeTrimmedNumber's branch
          selection = notationOf / adjPrecision, emptyOrOpener, getCoord, matchType's flags, the mixed-dimension check)
            geojson    GeoJSON read(write(g)) through GEOS == documented projection (correspondence only)
oracle  : independent of Lean, `number_property` re-checks the property's own sentence on every `fmt` line with
          exact rational arithmetic (length < 28, alphabet, |reread - x| <= half unit of last digit + ulp, exactness
          when 17 significant digits fit); an `ERR` in wkt-rt is GEOS refusing its own output = a failing input."""
import os, json, re, sys
from fractions import Fraction
sys.path.insert(0, os.path.join(os.path.dirname(os.path.dirname(os.path.abspath(__file__))), "lib"))
import verif
from verif import log

LEVEL = "proof"
PROPS = ["GeosModel.Props.C10", "GeosModel.Props.C10Dims"]
DRV = "drv_c10"

ALPHABET = set("0123456789.e+-")
WORDS = {"NaN", "Infinity", "-Infinity"}
WORDS_UNTRIMMED = {"nan", "-nan", "inf", "-inf"}


def bits_to_fraction(u):
    """exact value of a finite double given by its bits; None for nan/inf"""
    sign = -1 if u >> 63 else 1
    ex = (u >> 52) & 0x7ff
    fr = u & ((1 << 52) - 1)
    if ex == 0x7ff:
        return None
    if ex == 0:
        return sign * Fraction(fr, 1 << 1074)
    m = fr | (1 << 52)
    e = ex - 1075
    return sign * (Fraction(m * (1 << e)) if e >= 0 else Fraction(m, 1 << -e))


def ulp_of(u):
    ex = (u >> 52) & 0x7ff
    e = (ex if ex else 1) - 1075
    return Fraction(1 << e) if e >= 0 else Fraction(1, 1 << -e)


MAXFIN_PLUS_HALF = Fraction((1 << 53) - 1) * (1 << 971) + Fraction(1 << 970)

_NUM_RE = re.compile(r"^(-?)(\d+)(?:\.(\d+))?(?:e([+-]\d+))?$")


def number_property(case, expect):
    """None when the property's sentence holds for GEOS's output on this case, else a reason string."""
    try:
        b, p, t = case.split()
        u, prec, trim = int(b, 16), int(p), int(t)
        s1, s2, rb = expect.split()
    except ValueError:
        return "malformed harness line: %r" % expect
    if s1.startswith("PRINTDOUBLE"):
        return s1
    for s in ([s1] if s1 != "-" else []) + [s2]:
        if trim:
            if len(s) >= 28:
                return "output %r has %d characters: char buf[28] overflows" % (s, len(s))
            if s not in WORDS and not set(s) <= ALPHABET:
                return "output %r leaves the alphabet [0-9.e+-] | NaN | Infinity" % s
        else:
            if s not in WORDS_UNTRIMMED and not set(s) <= set("0123456789.-"):
                return "untrimmed output %r leaves the alphabet" % s
    if s1 != "-" and s1 != s2:
        return "GEOS_printDouble %r differs from the WKT writer's ordinate %r" % (s1, s2)
    if rb == "notnumber":
        return "output %r is not a number for strtod" % s2
    r = int(rb, 16)
    x = bits_to_fraction(u)
    absu = u & 0x7fffffffffffffff
    if x is None:
        if absu > 0x7ff0000000000000:
            return None if (r & 0x7fffffffffffffff) > 0x7ff0000000000000 else "NaN written as %r re-read as %016x" % (s2, r)
        return None if r == u else "infinity written as %r re-read as %016x" % (s2, r)
    if r == u:
        return None                       # exact round trip: every numeric clause holds
    back = bits_to_fraction(r)
    m = _NUM_RE.match(s2)
    if not m:
        return "output %r is not decimal/scientific" % s2
    frac, ex = m.group(3) or "", int(m.group(4) or 0)
    unit = Fraction(10) ** (ex - len(frac))
    if back is None:
        text = Fraction(int(m.group(2) + frac)) * unit
        if abs(text - abs(x)) <= unit / 2 and text >= MAXFIN_PLUS_HALF:
            return "rounded-past-DBL_MAX: finite %016x is written as %r (correctly rounded to the requested digits) which exceeds the largest double and re-reads as infinity" % (u, s2)
        return "finite %016x written as %r re-read as non-finite %016x" % (u, s2, r)
    # |reread - s| <= ulp(reread)/2, |s - shortest| <= unit/2, |shortest - x| <= ulp(x)/2
    if abs(back - x) > unit / 2 + max(ulp_of(u), ulp_of(r)):
        return "re-read value of %r differs from the input by more than half a unit of the last digit + 1 ulp" % s2
    # exactness when the requested precision leaves room for 17 significant digits
    if absu != 0:
        eff = 16 if prec < 0 else prec
        if "e" in s2:
            avail = 1 + eff
        else:
            a = abs(x)
            k = 0
            if a >= 1:
                while Fraction(10) ** (k + 1) <= a:
                    k += 1
                avail = k + 1 + eff
            else:
                z = 0
                while a * Fraction(10) ** (z + 1) < 1:
                    z += 1
                avail = eff - z
        if avail >= 17 and back != x:
            return "precision leaves room for %d significant digits but %r re-reads as %016x, not %016x" % (avail, s2, r, u)
    else:
        if back != 0:
            return "zero written as %r re-read as %016x" % (s2, r)
    return None


def _oracle_file(base):
    """run `number_property` over one shard; returns (lines, [(case, expect, why)] (at most 20))"""
    n, fails = 0, []
    with open(base + ".cases") as fc, open(base + ".expect") as fe:
        for case, exp in zip(fc, fe):
            n += 1
            why = number_property(case.strip(), exp.strip())
            if why and len(fails) < 20:
                fails.append((case.strip(), exp.strip(), why))
    return n, fails


# ------------------------------------------------------------------ gtree helpers (for shrinking)

MULTI = {"K", "U", "MP", "ML", "MY", "MC", "MS", "GC"}
DIMS = {"xy": 2, "xyz": 3, "xym": 3, "xyzm": 4}


def parse_seq(tk, i):
    n = int(tk[i + 1])
    d = DIMS[tk[i]]
    j = i + 2 + n * d
    return ("seq", tk[i:j]), j


def parse_g(tk, i):
    t = tk[i]
    if t in ("P", "L", "R", "C"):
        s, j = parse_seq(tk, i + 1)
        return (t, [s]), j
    k = int(tk[i + 1])
    i += 2
    kids = []
    for _ in range(k):
        if t == "Y":
            s, i = parse_seq(tk, i)
        else:
            s, i = parse_g(tk, i)
        kids.append(s)
    return (t, kids), i


def show_g(g):
    t, kids = g
    if t == "seq":
        return list(kids)
    if t in ("P", "L", "R", "C"):
        return [t] + show_g(kids[0])
    out = [t, str(len(kids))]
    for k in kids:
        out += show_g(k)
    return out


def shrink_candidates(g):
    """trees with one child of one collection removed"""
    t, kids = g
    if t in ("seq", "P", "L", "R", "C"):
        return
    minkids = 1 if t == "Y" else 0
    for i in range(len(kids)):
        if len(kids) > minkids and not (t in ("Y", "U") and i == 0 and len(kids) > 1):
            yield (t, kids[:i] + kids[i + 1:])
    for i, k in enumerate(kids):
        for c in shrink_candidates(k):
            yield (t, kids[:i] + [c] + kids[i + 1:])


def harness_replay(exe, stream, lines, work):
    p = os.path.join(work, "replay-%s-%d.txt" % (stream, os.getpid()))
    with open(p, "w") as f:
        f.write("\n".join(lines) + "\n")
    rc, out = verif.sh([exe, "replay", stream, p], timeout=300)
    res = out.split("\n")
    return res[:len(lines)]


def rt_class(case):
    rc, lines = verif.run_driver_lines("wkt-class", [case], driver_exe=DRV)
    return lines[0] if lines else "?"


def shrink_rt(exe, case, cls, work):
    """smaller tree for which GEOS still refuses its own output, for the same reason"""
    tk = case.split()
    head, srid, body = tk[:4], tk[4], tk[5:]
    try:
        g, j = parse_g(body, 0)
    except Exception:
        return case
    rounds = 0
    changed = True
    while changed and rounds < 60:
        changed = False
        rounds += 1
        for cand in shrink_candidates(g):
            line = " ".join(head + [srid] + show_g(cand))
            if harness_replay(exe, "wkt-rt", [line], work)[0] == "ERR" and rt_class(line) == cls:
                g = cand
                changed = True
                break
    return " ".join(head + [srid] + show_g(g))


def run(ctx):
    ctx.base_trust([
        "Ryu's table arithmetic (d2d / d2d_small_int) is replaced in the model by its specification `shortest` (shortest decimal in the rounding interval, closest to the value); equality with the C code is checked on every case of stream fmt, not proved",
        "glibc strtod is correctly rounded (= model `roundNE`), libm log10 is within 2 ulp (the model uses the exact floor(log10)); both compared on every case of stream fmt",
        "std::fixed output (untrimmed mode) is modelled as exact decimal expansion rounded half-even at the requested decimals; compared, not proved",
        "locale independence: the writer's alphabet is proved; CLocalizer (setlocale(LC_NUMERIC,\"C\")) in reader and untrimmed writer is runtime behaviour and not exercised (only C locales are installed here)",
        "GeoJSON: only the geometry-object projection is modelled (Model/GeoJSON/Roundtrip.lean) and compared; the JSON library's number printing/reading is checked for exactness by the stream, no theorem",
        "hexadecimal floats / nan(...) accepted by strtod are not modelled in the reader (never written)",
        "circular-arc envelope computation at construction time throws for some non-finite ordinates; not modelled, such generated cases are skipped by the harness (STAT skipped_nonfinite_arc_envelope)",
    ])
    proved = ctx.prove_generated([("wkt_io", "GeosModel/Generated/WktIO.lean", "GeosModel.Props.C10Gen")], PROPS, extra_targets=(DRV,))
    ok, out = verif.build_geos("rel")
    if not ok:
        ctx.violation("GEOS does not build with -DGEOS_VERIF", {"kind": "build-failure", "log": out[-3000:]}, nofail=True)
        return
    exe, out = verif.build_harness("c10")
    if not exe:
        ctx.violation("harness c10 does not compile against the current tree",
                      {"kind": "tie-broken", "correspondence": "harness/c10.cpp", "log": out[-3000:]}, nofail=True)
        return
    quick = ctx.tier == "quick"
    sizes = {"fmt": 70000 if quick else 1500000, "wkt-write": 6000 if quick else 120000, "wkt-write-seq": 2500 if quick else 50000,
             "wkt-read": 4000 if quick else 60000, "wkt-rt": 6000 if quick else 120000,
             "geojson": 4000 if quick else 80000, "wkt-red": 6000 if quick else 100000}
    shards = min(verif.NPROC, 12)
    corr = {}
    found_input = False
    broken = []
    import time as _t
    for stream in ("fmt", "wkt-write", "wkt-write-seq", "wkt-read", "wkt-rt", "geojson", "wkt-red"):
        log("stream", stream, "t=%.1f" % (_t.time() - ctx.t0))
        r = verif.run_stream(exe, stream, ctx.seed, sizes[stream], ctx.work, shards=shards, driver_exe=DRV)
        ndis = len(r["disagreements"]) + r.get("more_disagreements", 0)
        corr[stream] = {"cases": r["cases"], "disagreements": ndis, "distribution": r["stats"]}
        ctx.cov["samples"] += r.get("samples", [])[:1]
        if r["error"]:
            ctx.violation("correspondence stream %s could not run: %s" % (stream, r["error"]),
                          {"kind": "tie-broken", "correspondence": stream, "detail": r["error"]}, nofail=True)
            continue

        # ---- property checked directly on every line the implementation produced
        if stream == "fmt":
            bad = 0
            nchecked = 0
            sigs_seen = []
            import subprocess, sys
            bases = [os.path.join(ctx.work, "%s.%d" % (stream, k)) for k in range(shards)]
            procs = [subprocess.Popen([sys.executable, os.path.abspath(__file__), "--oracle", b], stdout=subprocess.PIPE) for b in bases]
            results = []
            for pr in procs:
                out_, _ = pr.communicate()
                if pr.returncode != 0:
                    raise RuntimeError("fmt property oracle subprocess failed")
                results.append(json.loads(out_.decode()))
            for n_, fails in results:
                nchecked += n_
                for case, exp, why in fails:
                    bad += 1
                    found_input = True
                    b, p, t = case.split()
                    cls = why.split(":")[0] if why.startswith("rounded-past-DBL_MAX") else re.sub(r"'[^']*'|[0-9a-f]{16}|\d+", "#", why)[:80]
                    sig = {"stream": "fmt", "class": cls}
                    if sig in sigs_seen:
                        continue
                    sigs_seen.append(sig)
                    ctx.violation("number formatting violates the property: %s (bits %s precision %s trim %s -> %s)" % (why, b, p, t, exp),
                                  {"kind": "failing-input", "stream": "fmt", "case": case, "impl": exp, "why": why,
                                   "replay_cmd": "%s replay fmt <file with case line>" % exe, "signature": sig}, signature=sig)
            corr[stream]["property_oracle_lines"] = nchecked
            corr[stream]["property_oracle_failures"] = bad
        if stream == "wkt-rt":
            errs = {}
            for k in range(shards):
                base = os.path.join(ctx.work, "%s.%d" % (stream, k))
                with open(base + ".cases") as fc, open(base + ".expect") as fe:
                    for case, exp in zip(fc, fe):
                        if exp.strip() == "ERR":
                            errs.setdefault("all", []).append(case.strip())
            rejected = errs.get("all", [])
            corr[stream]["own_output_rejected"] = len(rejected)
            if rejected:
                rc, classes = verif.run_driver_lines("wkt-class", rejected, driver_exe=DRV)
                bycls = {}
                for case, cls in zip(rejected, classes):
                    bycls.setdefault(cls, []).append(case)
                corr[stream]["rejected_by_class"] = {c: len(v) for c, v in bycls.items()}
                for cls, cases in sorted(bycls.items()):
                    case = min(cases, key=lambda c: (c.split()[3] != "0", len(c)))
                    old3d = case.split()[3] != "0"
                    sig = {"stream": "wkt-rt", "class": cls}
                    if any(k.get("signature") == sig for k in ctx.known):
                        ctx.violation("", {}, signature=sig)
                        continue
                    case = shrink_rt(exe, case, cls, ctx.work)
                    wkt = harness_replay(exe, "wkt-write", [case], ctx.work)[0]
                    found_input = True
                    ctx.violation("WKTReader rejects the WKTWriter's own output (%s, old3D=%s): %s" % (cls, old3d, wkt[:300]),
                                  {"kind": "failing-input", "stream": "wkt-rt", "case": case, "written": wkt, "reread": "ERR", "class": cls,
                                   "replay_cmd": "%s replay wkt-rt <file with case line>" % exe, "signature": sig}, signature=sig)

        # ---- disagreements between implementation and model
        seen = set()
        for idx, case, exp, got in r["disagreements"]:
            if stream == "fmt":
                why = number_property(case, exp)
                if why:
                    continue                      # already reported as a failing input above
                key = "fmt"
                if key in seen:
                    continue
                seen.add(key)
                broken.append((stream, case, exp, got))
            elif stream == "wkt-rt":
                key = "rt"
                if key in seen:
                    continue
                seen.add(key)
                old3d = case.split()[3] != "0"
                if got.startswith("MODEL-DIFFERS-FROM-SPEC"):
                    broken.append((stream, case, exp, got))
                elif not old3d or exp == "ERR":
                    # the model's answer equals the specification `project`/`dimOK` (checked by the driver): the
                    # implementation's round trip is not the specified one
                    found_input = True
                    sig = {"stream": "wkt-rt", "class": "roundtrip-differs-from-specification"}
                    ctx.violation("WKT write->read of a geometry does not return the specified tree",
                                  {"kind": "failing-input", "stream": stream, "case": case, "impl": exp[:2000], "spec": got[:2000],
                                   "replay_cmd": "%s replay wkt-rt <file with case line>" % exe, "signature": sig}, signature=sig)
                else:
                    broken.append((stream, case, exp, got))
            elif stream == "wkt-red":
                # the documented dimension dropping of the C++ writer: the answer of the driver IS the documented rule ("a dimension is written
                # iff some coordinate has a non-NaN value in it"), so a disagreement is a failing input of the property's dimensionality clause
                key = "red:" + exp + ">" + got
                if key in seen:
                    continue
                seen.add(key)
                found_input = True
                sig = {"stream": "wkt-red", "class": "dimension-dropping-differs-from-rule", "impl": exp, "rule": got}
                ctx.violation("WKTWriter with setRemoveEmptyDimensions(true) writes dimensions %s, the documented rule gives %s" % (exp, got),
                              {"kind": "failing-input", "stream": stream, "case": case, "impl": exp, "spec": got,
                               "replay_cmd": "%s replay wkt-red <file with case line>" % exe, "signature": sig}, signature=sig)
            elif stream == "wkt-write-seq":
                key = "write-seq"
                if key in seen:
                    continue
                seen.add(key)
                # locate the first element whose reused-writer text differs from the fresh-writer text: the same geometry under the same
                # settings then has two different texts depending on what the writer wrote before, so at most one of them is the text at
                # the stated precision
                steps = case.split(" | ")[1:]
                ie, ig = exp.split(" ;; "), got.split(" ;; ")
                hist = None
                for k, (a, b) in enumerate(zip(ie, ig)):
                    if a != b:
                        ma = re.match(r"^R:(.*) F:(.*)$", a)
                        if ma and ma.group(1) != ma.group(2):
                            hist = (k, ma.group(1), ma.group(2))
                        break
                if hist:
                    found_input = True
                    sig = {"stream": "wkt-write-seq", "class": "output-depends-on-writer-history"}
                    ctx.violation("a reused WKTWriter writes element %d of a sequence differently from a fresh writer with the same settings: %s vs %s"
                                  % (hist[0], hist[1][:160], hist[2][:160]),
                                  {"kind": "failing-input", "stream": stream, "case": case, "element": hist[0], "settings_and_geometry": steps[hist[0]] if hist[0] < len(steps) else None,
                                   "reused_writer": hist[1][:3000], "fresh_writer": hist[2][:3000], "model": got[:3000],
                                   "replay_cmd": "%s replay wkt-write-seq <file with case line>" % exe, "signature": sig}, signature=sig)
                else:
                    broken.append((stream, case, exp, got))
            elif stream == "wkt-write":
                key = "write"
                if key in seen:
                    continue
                seen.add(key)
                # does the implementation's own round trip still satisfy the specification on this input?
                back = harness_replay(exe, "wkt-rt", [case], ctx.work)[0]
                rc, spec = verif.run_driver_lines("wkt-rt", [case], driver_exe=DRV)
                spec = spec[0] if spec else ""
                old3d = case.split()[3] != "0"
                if back != spec and not spec.startswith("MODEL-DIFFERS") and (not old3d or back == "ERR") and rt_class(case) == "accepted":
                    found_input = True
                    sig = {"stream": "wkt-write", "class": "roundtrip-differs-from-specification"}
                    ctx.violation("WKT writer output differs from the model and its re-reading is not the specified tree",
                                  {"kind": "failing-input", "stream": stream, "case": case, "impl": exp[:2000], "model": got[:2000],
                                   "impl_reread": back[:2000], "spec_reread": spec[:2000],
                                   "replay_cmd": "%s replay wkt-rt <file with case line>" % exe, "signature": sig}, signature=sig)
                else:
                    broken.append((stream, case, exp, got))
            else:
                key = stream
                if key in seen:
                    continue
                seen.add(key)
                if stream == "geojson":
                    found_input = True
                    sig = {"stream": "geojson", "class": "roundtrip-differs-from-specification"}
                    ctx.violation("GeoJSON write->read of a geometry does not return the specified tree (type tree / emptiness / exact finite ordinates)",
                                  {"kind": "failing-input", "stream": stream, "case": case, "impl": exp[:2000], "spec": got[:2000],
                                   "replay_cmd": "%s replay geojson <file with case line>" % exe, "signature": sig}, signature=sig)
                else:
                    broken.append((stream, case, exp, got))
    log("streams done t=%.1f" % (_t.time() - ctx.t0))
    ctx.cov["support_correspondence"] = corr
    for stream, case, exp, got in broken:
        ctx.violation("correspondence stream %s no longer agrees with the model (the property's own conditions were re-checked on the implementation's output for this and all other generated cases and hold): case %s impl %s model %s"
                      % (stream, case[:200], exp[:200], got[:200]),
                      {"kind": "tie-broken", "correspondence": stream, "stream": stream, "case": case, "impl": exp[:3000], "model": got[:3000]},
                      nofail=not found_input)
    if not proved:
        lf = getattr(ctx, "lean_failure", None) or {}
        ctx.violation("Lean obligations for C10 no longer check: " + "; ".join(str(i) for i in lf.get("items", [])[:5]),
                      {"kind": "proof-broken", "lean": lf}, nofail=True)


def replay(ctx, path):
    r = json.load(open(path))
    ok, out = verif.build_geos("rel")
    exe, out = verif.build_harness("c10")
    verif.lake_build([DRV])
    stream, case = r.get("stream"), r.get("case")
    if not stream or case is None:
        print("replay file has no stream/case (kind=%s): %s" % (r.get("kind"), r.get("what")))
        return 1
    impl = harness_replay(exe, stream, [case], ctx.work)[0]
    rc, lines = verif.run_driver_lines(stream, [case], driver_exe=DRV)
    model = lines[0] if lines else ""
    print("case :", case[:2000])
    print("impl :", impl[:2000])
    print("model:", model[:2000])
    bad = impl != model
    if stream == "fmt":
        why = number_property(case, impl)
        if why:
            print("property:", why)
            bad = True
    if stream == "wkt-rt" and impl == "ERR":
        print("written:", harness_replay(exe, "wkt-write", [case], ctx.work)[0][:2000])
        print("property: the reader rejects the writer's own output (%s)" % rt_class(case))
        bad = True
    if bad:
        print("VIOLATION property=C10 replay=%s" % path)
        return 1
    return 0


if __name__ == "__main__":
    if len(sys.argv) == 3 and sys.argv[1] == "--oracle":
        n, fails = _oracle_file(sys.argv[2])
        print(json.dumps([n, fails]))
