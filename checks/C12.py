"""C12 — any legal C API call sequence is contained: error codes, no crash, no aliasing.

sync    : translate/api_table.py reads capi/geos_c.h.in + capi/geos_ts_c.cpp of the current tree, cross-checks the set of
          entry points against `nm -D libgeos_c.so`, rewrites lean/GeosModel/Generated/Api.lean            (tie T)
prove   : lean/GeosModel/Props/C12.lean — table theorems (by kernel evaluation over the whole generated table) and the
          ownership-discipline theorems (by induction over call sequences)
corr    : harness/c12.cpp (ASan+UBSan+LSan build) runs random *legal* call sequences, each in a child process with a
          per-call timeout; lean/Driver/C12.lean replays every observed sequence through the model `step` with the
          generated table's signatures / error values and answers ok or the first violation                 (tie C)

The generator (harness/c12.cpp) mixes: pathological literals; structured literals in one frame (comb / U-shaped polygons, polygons with a
grid of holes, lines and strips whose vertices are strictly inside while their segments cross the boundary); very long text tokens; boundary
numeric parameters; coordinate-like parameters placed relative to the envelope of the geometry argument (clip windows, query points); and
interruptions armed at the k-th checkpoint poll of a call.  Three scenario openings (container/content pair with all prepared predicates,
window operations on a polygon with holes, readers fed with long tokens) make sure the deep branches are reached in every run.

A non-ok answer is either a failing input of the property itself (crash / sanitizer report / hang / leak / undocumented
outcome / const argument changed / result aliases an input / SRID lost) — shrunk and reported with a signature
{fn, kind, where} — or a broken tie (harness and model disagree about legality / ids / signatures), reported with
no-failing-input-found.
"""
import json, os, re, subprocess, sys
import verif
from verif import log

sys.path.insert(0, os.path.join(verif.ROOT, "translate"))
import api_table  # noqa: E402

LEVEL = "proof"
PROPS = ["GeosModel.Props.C12", "GeosModel.Props.C12Ctor", "GeosModel.Props.C12Tree"]
GENERATED = os.path.join(verif.LEAN, "GeosModel", "Generated", "Api.lean")

EXCLUSIONS = [
    "count-like integer parameters (quadrant segments, Hilbert level, node capacity, sequence size/dims) are drawn from "
    "{INT_MIN,-8,-1,0..6,8,16,32}: huge positive counts are legitimately slow / memory hungry and are not generated",
    "tolerance-like doubles whose cost is proportional to extent/value (Densify, *DistanceDensify, MaximumInscribedCircle, "
    "LargestEmptyCircle) exclude tiny positive values (1e-300, 1e-9, denormal); NaN, +-Inf, 0, negative, 1e300 are generated",
    "an allocation refused by the sanitizer allocator (single request > 1.5 GB) is class `oom`, counted but not a violation: "
    "the non-instrumented library raises std::bad_alloc, which `execute` turns into the error value",
    "GEOSMakeValidParams_setMethod_r takes an enum-TYPED parameter: only its two enumerators are passed (any other int is reported by "
    "UBSan -fsanitize=enum at the callee's first read, before the callee can validate it)",
    "callbacks never throw and never re-enter GEOS except the distance callback (GEOSDistance_r)",
    "interruption is exercised in one form only: a callback registered with GEOS_interruptRegisterCallback requests (GEOS_interruptRequest) "
    "at the k-th checkpoint poll of ONE call, k from {1..8,10,13,20,40,100}; the callback is unregistered and GEOS_interruptCancel is called "
    "when that call has returned.  Requests from another thread / a signal handler, a request left pending across calls, and a callback "
    "that throws or re-enters GEOS are not generated",
    "multi-threading and context creation/destruction inside a sequence are not exercised (C13/C14); every sequence uses one context "
    "created before and finished after it",
    "very long text tokens (1000..5000 and 70000 characters, in WKT / GeoJSON / HEX / WKB / DE-9IM pattern arguments) are generated; deeply "
    "nested text (thousands of opening brackets) is not",
    "entry points not in the harness table (clustering, coverage cleaning/validation/simplification, GEOSGeom_createPointFromXY "
    "variants with Z/M, deprecated WKB setters, GEOSGridIntersectionFractions, message-handler setters, …) are only covered by "
    "the table theorems; the evidence lists how many of the generated table's entry points the stream called",
    "NULL is a legitimate non-error result for GEOSSTRtree_nearest_r / _generic_r (empty tree), GEOSGeom_getUserData_r, "
    "GEOSGeom_releaseCollection_r (empty collection)",
]

# kinds of driver answers that mean harness/model/table disagree (not a defect of GEOS by themselves)
TIE_KINDS = ("illegal-for-model", "result-ids-differ", "unknown-entry-point", "bad-token", "tokens-do-not-fit-signature",
             "bad-facts", "bad-line", "missing-END", "objects-alive-in-model-after-all-destroys")


# ----------------------------------------------------------------------------- verdicts and signatures

def parse_verdict(v):
    """'V <k> <fn> <reason>' -> (k, fn, reason) ; 'ok' -> None"""
    m = re.match(r"^V (\d+|end) (\S+) (.*)$", v)
    if not m:
        return None if v == "ok" else (-1, "?", v)
    k = int(m.group(1)) if m.group(1).isdigit() else -1
    return k, m.group(2), m.group(3)


def signature(fn, reason):
    """small structured key: entry point and normalised kind (the first GEOS stack frame is kept in the replay file as
    `where`, but is not part of the key: one defect class shows up under many frames)"""
    where = ""
    kind = reason
    if "@" in reason:
        kind, where = reason.split("@", 1)
    kind = re.sub(r"^crash:", "", kind)
    kind = re.sub(r":[-\d\[\], :]*$", "", kind)            # srid values, id lists
    kind = re.sub(r"(illegal-for-model|result-ids-differ|result-aliases-live-object|const-or-unrelated-object-modified).*", r"\1", kind)
    if where == "harness":
        kind = "harness-internal:" + kind
    if fn == "END" and kind == "leak":
        # a leak is seen at exit; the harness names: the allocating GEOS function, its GEOS caller, and (from a second pass that tags every
        # allocation with the running call) whether the call that allocated the object ended with an error (on-error-path: an exception
        # skipped the cleanup) or returned normally (on-normal-path).  The entry point after the second "@" is informative only.
        kind = "leak:" + where.split("@")[0]
    if kind.startswith(("ubsan-", "asan-")) and where.startswith("geos::"):
        # a sanitizer report inside the library: the defect is where it happens, whatever entry point led there (the same
        # precision-scale overflow is reachable through a dozen overlay / buffer calls); the class, not the exact frame
        return {"kind": kind, "whereClass": where.rsplit("::", 1)[0]}
    return {"fn": fn, "kind": kind}


def where_of(reason):
    return reason.split("@", 1)[1] if "@" in reason else ""


def is_tie(sig):
    return any(sig["kind"].startswith(t) for t in TIE_KINDS) or sig["kind"].startswith("harness-internal")


def split_calls(line):
    return [c.strip() for c in line.split(" ; ")]


def refs_of(call):
    lhs = call.split("=>")[0]
    r = set()
    for t in lhs.split()[1:]:
        if re.match(r"^o\d+$", t):
            r.add(int(t[1:]))
        elif t.startswith("a:"):
            r |= {int(x) for x in t[2:].split(",") if x}
    return r


def creates_of(call):
    m = re.search(r" R([\d,]+)", call)
    return {int(x) for x in m.group(1).split(",")} if m else set()


_MUTATORS = re.compile(r"^(GEOSSetSRID_r|GEOSNormalize_r|GEOSOrientPolygons_r|GEOSGeom_releaseCollection_r|GEOSGeom_setUserData_r|"
                       r"GEOSCoordSeq_set\w+|GEOSSTRtree_\w+|GEOS\w+_set\w+)\b")


ARM = "GEOS_interruptRegisterCallback "      # pseudo call: arms an interruption at the k-th checkpoint poll of the next call


def dependency_closure(calls, k):
    """calls[k] plus the earlier calls that create (or modify) what it transitively uses"""
    need = set(refs_of(calls[k]))
    keep = {k}
    if k > 0 and calls[k - 1].startswith(ARM):                 # the interruption armed for the failing call
        keep.add(k - 1)
    for i in range(k - 1, -1, -1):
        c = calls[i]
        if creates_of(c) & need or (refs_of(c) & need and _MUTATORS.match(c)):
            keep.add(i)
            need |= refs_of(c)
    return [calls[i] for i in sorted(keep)]


def pretty(call):
    def dec(m):
        try:
            return 's:"' + bytes.fromhex(m.group(1)).decode("latin1") + '"'
        except ValueError:
            return m.group(0)
    return re.sub(r"\bs:([0-9a-f]*)", dec, call)


class Runner:
    def __init__(self, exe, work, timeout):
        self.exe, self.work, self.timeout = exe, work, timeout
        self.n = 0
        self.max_shrinks = 1000

    def replay(self, scripts, verbose=False):
        """scripts -> (observed lines, verdicts, stderr)"""
        import threading, itertools
        if not hasattr(self, "_ctr"):
            self._ctr = itertools.count()
        self.n = next(self._ctr)
        p = os.path.join(self.work, "replay-%d-%d-%d.txt" % (os.getpid(), threading.get_ident() % 100000, self.n))
        with open(p, "w") as f:
            f.write("\n".join(scripts) + "\n")
        env = dict(os.environ)
        env["C12_CALL_TIMEOUT"] = str(self.timeout)
        pr = subprocess.run([self.exe, "replay", p] + (["-v"] if verbose else []), stdout=subprocess.PIPE, stderr=subprocess.PIPE,
                            env=env, timeout=3000)
        lines = [l for l in pr.stdout.decode("utf-8", "replace").split("\n") if l]
        rc, verdicts = verif.run_driver_lines("api-seq", lines, driver_exe="drv_c12")
        os.remove(p)
        return lines, verdicts[:len(lines)], pr.stderr.decode("utf-8", "replace")

    def sigs(self, scripts):
        """signature (or None) of each script, evaluated in one harness invocation"""
        if not scripts:
            return []
        lines, verdicts, _ = self.replay(scripts)
        out = []
        for i in range(len(scripts)):
            v = verdicts[i] if i < len(verdicts) else ""
            pv = parse_verdict(v) if v else None
            out.append(signature(pv[1], pv[2]) if pv else None)
        return out

    def shrink(self, line, k, sig):
        """a small script whose verdict has the same signature: dependency closure of the failing call, then rounds of
        single-call removals evaluated in batches"""
        calls = split_calls(line)
        body = [c for c in calls[1:] if not c.startswith("END")]
        mk = lambda cs: "SEQ ; " + " ; ".join(cs)
        if sig.get("fn") != "END" and body:
            kk = min(k, len(body) - 1)
            cur = body[:kk + 1]
            clo = dependency_closure(body, kk)
            if len(clo) < len(cur) and self.sigs([mk(clo)])[0] == sig:
                cur = clo
            last_fixed = 1                     # the failing call itself stays
        else:
            cur = body
            last_fixed = 0
        # long sequences (a leak is only seen at END, so nothing points at the call): remove blocks first, halving the block size
        size = (len(cur) - last_fixed) // 2
        while size >= 2 and len(cur) - last_fixed > 12:
            n = len(cur) - last_fixed
            starts = list(range(0, n, size))
            res = self.sigs([mk(cur[:a] + cur[min(a + size, n):]) for a in starts])
            progressed = False
            for a, r_ in sorted(zip(starts, res), reverse=True):          # from the end: earlier indices stay valid
                if r_ == sig:
                    cand = cur[:a] + cur[min(a + size, len(cur) - last_fixed):]
                    if not progressed or self.sigs([mk(cand)])[0] == sig:
                        cur = cand
                        progressed = True
            if not progressed:
                size //= 2
            else:
                size = min(size, max(2, (len(cur) - last_fixed) // 2))
        for _round in range(3):
            n = len(cur) - last_fixed
            if n <= 0 or n > 80:
                break
            cands = [cur[:i] + cur[i + 1:] for i in range(n)]
            res = self.sigs([mk(c) for c in cands])
            removable = [i for i in range(n) if res[i] == sig]
            if not removable:
                break
            allgone = [c for i, c in enumerate(cur) if i not in set(removable)]
            if self.sigs([mk(allgone)])[0] == sig:
                cur = allgone
            else:
                # removals interact: take them one by one, from the end
                for i in sorted(removable, reverse=True)[:12]:
                    cand = cur[:i] + cur[i + 1:]
                    if self.sigs([mk(cand)])[0] == sig:
                        cur = cand
        script = mk(cur)
        lines, verdicts, err = self.replay([script], verbose=True)
        return script, (lines[0] if lines else ""), (verdicts[0] if verdicts else ""), err


def report_failure(ctx, runner, line, verdict, seen, origin):
    pv = parse_verdict(verdict)
    if pv is None:
        return
    k, fn, reason = pv
    sig = signature(fn, reason)
    key = json.dumps(sig, sort_keys=True)
    if key in seen:
        seen[key] += 1
        return
    seen[key] = 1
    if is_tie(sig):
        ctx.violation("harness / model / generated table disagree on a call of %s: %s" % (fn, reason),
                      {"kind": "tie-broken", "correspondence": "api-seq", "verdict": verdict, "case": line[:6000], "origin": origin},
                      nofail=True)
        return
    if any(kf.get("signature") == sig for kf in ctx.known):
        ctx.violation("known", {"signature": sig}, signature=sig)          # records KNOWN-FINDING, no replay file
        return
    if sig.get("fn") == "END" and sig["kind"].endswith(":unattributed"):
        # the second (attributing) pass did not reproduce the leak — GEOS is not deterministic on some non-finite inputs.  A recorded
        # finding with the same allocating function and caller, whatever its path, covers it (a false alarm is worse than a gap)
        base = sig["kind"][:-len(":unattributed")]
        for kf in ctx.known:
            ks = kf.get("signature") or {}
            if ks.get("fn") == "END" and ks.get("kind", "").rsplit(":", 1)[0] == base:
                ctx.violation("known", {"signature": ks}, signature=ks)
                return
    runner.shrunk = getattr(runner, "shrunk", 0) + 1
    if runner.shrunk <= runner.max_shrinks:
        script, obs, v2, err = runner.shrink(line, k, sig)
    else:                                               # budget exhausted: the observed sequence itself is the replay
        script, obs, v2, err = line, line, verdict, ""
    calls = [pretty(c) for c in split_calls(obs)]
    where = where_of(reason)
    desc = "%s: %s%s" % (fn, sig["kind"], (" in " + where) if where else "")
    ctx.violation("legal call sequence not contained — " + desc,
                  {"kind": "failing-input", "stream": "api-seq", "signature": sig, "where": where, "script": script, "observed": obs, "verdict": v2,
                   "failing_call": (calls[parse_verdict(v2)[0] + 1] if parse_verdict(v2) and 0 <= parse_verdict(v2)[0] + 1 < len(calls) else ""),
                   "readable": calls, "sanitizer_report": err[:4000], "origin": origin,
                   "replay_cmd": "bin/check C12 --replay <this file>   (or: %s replay <file with the script line> -v)" % runner.exe},
                  signature=sig)


# ----------------------------------------------------------------------------- table diagnostics when a proof breaks

def extract_def(src, name):
    m = re.search(r"^def %s : List String :=\n(.*?)\]\n" % re.escape(name), src, re.S | re.M)
    return "def %s : List String :=\n%s]\n" % (name, m.group(1)) if m else "def %s : List String := []\n" % name


def table_violators():
    """names of the entry points that break each table theorem (evaluated by Lean on the generated table)"""
    props = open(os.path.join(verif.LEAN, "GeosModel", "Props", "C12.lean")).read()
    body = ["import GeosModel.Generated.Api", "open GeosModel.Api GeosModel.Generated", "namespace Diag"]
    for n in ("unwrappedAllowed", "sridFromFirstList", "sridNotSyntactic"):
        body.append(extract_def(props, n))
    body += [
        '#eval IO.println s!"api_errval_matches_doc {violators apiTable Entry.errvalMatchesDoc}"',
        '#eval IO.println s!"api_bool_promoted {violators apiTable Entry.boolPromoted}"',
        '#eval IO.println s!"api_ptr_null {violators apiTable Entry.ptrNull}"',
        '#eval IO.println s!"api_all_wrapped {violators apiTable (fun e => e.guarded || unwrappedAllowed.contains e.name)}"',
        '#eval IO.println s!"api_unwrapped_exact {unwrappedAllowed.filter (fun n => !((lookup apiTable n).any (fun e => !e.guarded)))}"',
        '#eval IO.println s!"api_srid_from_first {sridFromFirstList.filter (fun n => !((lookup apiTable n).any (fun e => e.isConstructive && e.sridFromFirst)))}"',
        '#eval IO.println s!"api_srid_from_first_extra {violators apiTable (fun e => !(e.isConstructive && e.sridFromFirst) || sridFromFirstList.contains e.name)}"',
        '#eval IO.println s!"api_constructive_classified {violators apiTable (fun e => !e.isConstructive || e.sridFromFirst || sridNotSyntactic.contains e.name)}"',
        "end Diag"]
    tmp = os.path.join(verif.BUILD, "c12-diag-%d.lean" % os.getpid())
    with open(tmp, "w") as f:
        f.write("\n".join(body) + "\n")
    with verif.Lock("lake"):
        rc, out = verif.sh(["lake", "env", "lean", tmp], cwd=verif.LEAN, timeout=600)
    os.remove(tmp)
    res = {}
    for m in re.finditer(r"^(api_\w+) \[(.*)\]$", out, re.M):
        names = [x.strip().strip('"') for x in m.group(2).split(",") if x.strip()]
        if names:
            res[m.group(1)] = names
    return res, out


# ----------------------------------------------------------------------------- deterministic corpus

CORPUS = os.path.join(verif.REPLAYS, "known-C12-final.json")


def run_corpus(ctx, runner, seen):
    """The shrunk replay script of every recorded finding (known or fixed) runs first on every run, independent of
    VERIF_SEED: fixed defects are re-tested for regression, known ones print their KNOWN-FINDING line."""
    info = {"file": CORPUS, "scripts": 0, "still_failing_known": 0, "fixed_ok": 0, "fixed_REGRESSED": 0, "known_not_reproduced": []}
    if not os.path.exists(CORPUS):
        info["note"] = "no corpus file"
        return info
    try:
        entries = json.load(open(CORPUS))
        entries = entries.get("findings", entries) if isinstance(entries, dict) else entries
    except ValueError as ex:
        ctx.violation("corpus file %s is not valid JSON: %s" % (CORPUS, ex), {"kind": "tie-broken", "file": CORPUS}, nofail=True)
        return info
    entries = [e for e in entries if e.get("property", "C12") == "C12" and e.get("replay")]
    info["scripts"] = len(entries)
    if not entries:
        return info
    # in parallel chunks: a recorded hang costs its whole time limit
    from concurrent.futures import ThreadPoolExecutor
    nchunk = max(1, min(verif.NPROC, 12, len(entries)))
    chunks = [entries[i::nchunk] for i in range(nchunk)]
    with ThreadPoolExecutor(max_workers=nchunk) as ex:
        results = list(ex.map(lambda ch: runner.replay([e["replay"] for e in ch]), chunks))
    entries = [e for ch in chunks for e in ch]
    lines = [l for r_ in results for l in r_[0]]
    verdicts = [v for r_ in results for v in r_[1]]
    if len(lines) != len(entries):
        ctx.violation("corpus replay returned %d lines for %d scripts" % (len(lines), len(entries)),
                      {"kind": "tie-broken", "correspondence": "corpus"}, nofail=True)
        return info
    for e, line, v in zip(entries, lines, verdicts):
        if v == "ok":
            if e.get("status") == "fixed":
                info["fixed_ok"] += 1
            else:
                info["known_not_reproduced"].append(e.get("signature"))
            continue
        if e.get("status") == "fixed":
            info["fixed_REGRESSED"] += 1
        else:
            info["still_failing_known"] += 1
        report_failure(ctx, runner, line, v, seen, "corpus (%s finding %s)" % (e.get("status"), json.dumps(e.get("signature"))))
    return info


# ----------------------------------------------------------------------------- the check

def run(ctx):
    ctx.base_trust([
        "C12 table: translate/api_table.py (regex / bracket matching over geos_c.h.in and geos_ts_c.cpp; refuses instead of guessing; "
        "entry-point set cross-checked against nm -D of the freshly built libgeos_c.so)",
        "C12 ownership model (lean/GeosModel/Model/Api/Heap.lean) is the *documented* discipline written by hand; that the C++ honours it "
        "(and never crashes, leaks or hangs) is observed by the sanitizer run, not proved",
        "sanitizers: GCC ASan+UBSan+LSan as configured by lib/verif.py; absence of a report is not absence of a defect",
        "images of geometries / coordinate sequences are bit-exact dumps (harness/gtree.h dumpGeom, SRID included) taken through the C++ API",
    ])
    quick = ctx.tier == "quick"
    ctx.cov["exclusions"] = EXCLUSIONS
    import time
    t_ = [time.time()]
    timing = ctx.cov.setdefault("timing_s", {})

    def lap(name):
        timing[name] = round(time.time() - t_[0], 1)
        t_[0] = time.time()
    # the committed corpus file is also a list of recorded findings: its `known` entries suppress like KNOWN_FINDINGS.json
    # (the coordinator mirrors them there); its `fixed` entries suppress nothing
    if os.path.exists(CORPUS):
        try:
            d = json.load(open(CORPUS))
            d = d.get("findings", d) if isinstance(d, dict) else d
            ctx.known += [k for k in d if k.get("property", "C12") == "C12" and k.get("status") == "known" and
                          not any(k.get("signature") == o.get("signature") for o in ctx.known)]
        except ValueError:
            pass
    # test aid only: extra known findings from a file (same format as KNOWN_FINDINGS.json), e.g. to compare a mutated tree
    # against the unchanged one before the coordinator has recorded the baseline findings
    extra = os.environ.get("C12_EXTRA_KNOWN")
    if extra and os.path.exists(extra):
        ctx.known += [k for k in json.load(open(extra)).get("findings", []) if k.get("property") == "C12" and k.get("status") == "known"]
        ctx.cov["extra_known_file"] = extra

    # ---- build the library first: the translator cross-checks against its exported symbols
    ok, out = verif.build_geos("asan")
    if not ok:
        ctx.violation("GEOS (asan flavour) does not build", {"kind": "build-failure", "log": out[-3000:]}, nofail=True)
        return
    lib = os.path.join(verif.geos_dir("asan"), "lib", "libgeos_c.so")

    lap("build_geos_asan")
    # ---- sync: regenerate the table from the current tree
    try:
        tab = api_table.generate(verif.REPO, GENERATED, lib=lib)
    except api_table.TranslateError as ex:
        ctx.violation("translate/api_table.py refuses the current capi sources: %s" % ex,
                      {"kind": "tie-broken", "translator": "api_table.py", "detail": str(ex)}, nofail=True)
        return
    es = tab["entries"]
    ctx.cov["generated_table"] = {"entries": len(es), "documented_error_values": sum(1 for e in es if e["docErr"] is not None),
                                  "wrap": {w: sum(1 for e in es if e["wrap"] == w) for w in ("execute", "executePartial", "delegate", "tryCatch", "none")},
                                  "srid_from_first": sum(1 for e in es if e["sridFromFirst"]), "nm_cross_checked": tab["nm_checked"]}

    # ---- prove
    proved = ctx.prove(PROPS, extra_targets=("drv_c12",))
    broken = {}
    if not proved:
        okd, outd = verif.lake_build(["drv_c12"])
        if not okd:
            ctx.violation("the C12 driver does not build against the regenerated table", {"kind": "proof-broken", "log": outd[-3000:]}, nofail=True)
            return
        try:
            broken, diag_out = table_violators()
        except Exception as ex:                                   # diagnostics only
            broken, diag_out = {}, repr(ex)
        ctx.cov["table_theorems_broken"] = broken

    lap("translate_and_prove")
    # ---- correspondence
    exe, out = verif.build_harness("c12", "asan")
    if not exe:
        ctx.violation("harness c12 does not compile against the current tree", {"kind": "tie-broken", "correspondence": "harness/c12.cpp", "log": out[-3000:]}, nofail=True)
        return
    call_timeout = 20 if quick else 60
    runner = Runner(exe, ctx.work, call_timeout)
    runner.max_shrinks = 30 if quick else 400
    # the harness table must be a subset of the generated table
    rc, lst = verif.sh([exe, "list"])
    harness_fns = [l for l in lst.split("\n") if l.startswith("GEOS")]
    missing = sorted(set(harness_fns) - {e["name"] for e in es})
    if missing:
        ctx.violation("entry points called by the harness are not in the generated table: %s" % missing[:8],
                      {"kind": "tie-broken", "missing": missing}, nofail=True)
    seen = {}
    lap("build_harness")
    ctx.cov["support_correspondence"]["corpus"] = run_corpus(ctx, runner, seen)
    lap("corpus")
    n = 1200 if quick else 12000
    if os.environ.get("C12_N"):                      # test aid
        n = int(os.environ["C12_N"])
    shards = min(verif.NPROC, 16)
    env = {"C12_CALL_TIMEOUT": str(call_timeout)}
    r = verif.run_stream(exe, "api-seq", ctx.seed, n, ctx.work, shards=shards, driver_exe="drv_c12", env=env, timeout=3000 if quick else 30000)
    lap("api_seq_stream")
    covered = set()
    for k in range(shards):
        p = os.path.join(ctx.work, "api-seq.%d.fns" % k)
        if os.path.exists(p):
            covered |= {l.strip() for l in open(p) if l.strip()}
    dist = dict(r["stats"])
    dist["entry_points_called"] = len(covered)
    dist["entry_points_in_harness_table"] = len(harness_fns)
    dist["entry_points_in_generated_table"] = len(es)
    ctx.cov["support_correspondence"]["api-seq"] = {"cases": r["cases"], "disagreements": len(r["disagreements"]) + r.get("more_disagreements", 0),
                                                    "distribution": dist}
    ctx.cov["samples"] += [{"case": s["case"][:300], "impl": s["impl"], "model": s["model"]} for s in r.get("samples", [])[:2]]
    found_for = set()
    if r["error"]:
        ctx.violation("correspondence stream api-seq could not run: %s" % r["error"][:500],
                      {"kind": "tie-broken", "correspondence": "api-seq", "detail": r["error"]}, nofail=True)
    else:
        if len(covered) < 120:
            ctx.violation("the api-seq stream called only %d distinct entry points (< 120)" % len(covered),
                          {"kind": "tie-broken", "correspondence": "api-seq", "covered": sorted(covered)}, nofail=True)
        # every disagreement line (the first 50 are kept by run_stream; re-read the files for the rest)
        dis = []
        for k in range(shards):
            base = os.path.join(ctx.work, "api-seq.%d" % k)
            try:
                cs = open(base + ".cases", errors="replace").read().split("\n")
                gs = open(base + ".got", errors="replace").read().split("\n")
            except OSError:
                continue
            for c, g in zip(cs, gs):
                if c and g != "ok":
                    dis.append((c, g))
        for c, g in dis:
            report_failure(ctx, runner, c, g, seen, "api-seq seed %d" % ctx.seed)
            pv = parse_verdict(g)
            if pv:
                found_for.add(pv[1])
        ctx.cov["support_correspondence"]["api-seq"]["distinct_failure_signatures"] = len(seen)
        ctx.cov["support_correspondence"]["api-seq"]["failure_signatures"] = [dict(json.loads(k), count=v) for k, v in sorted(seen.items())][:200]

    lap("classify_and_shrink")
    # ---- stream ctor-own: the constructors that take ownership of their arguments, one call per case, against Model/Api/Construct.lean
    # (outcome, type id of the result, fate of every argument: F freed while the call ran, R part of the result, L nobody owns it, - NULL)
    nco = 4000 if quick else 60000
    rco = verif.run_stream(exe, "ctor-own", ctx.seed, nco, ctx.work, shards=min(verif.NPROC, 8), driver_exe="drv_c12", timeout=1200 if quick else 6000)
    lap("ctor_own_stream")
    ctx.cov["support_correspondence"]["ctor-own"] = {"cases": rco["cases"], "disagreements": len(rco["disagreements"]) + rco.get("more_disagreements", 0),
                                                     "distribution": dict(rco["stats"])}
    ctx.cov["samples"] += [{"case": s_["case"][:300], "impl": s_["impl"], "model": s_["model"]} for s_ in rco.get("samples", [])[:1]]
    if rco["error"]:
        ctx.violation("correspondence stream ctor-own could not run: %s" % rco["error"][:500],
                      {"kind": "tie-broken", "correspondence": "ctor-own", "detail": rco["error"]}, nofail=True)
    else:
        if rco["cases"] < nco // 2 or rco["stats"].get("refused", 0) < rco["cases"] // 10 or rco["stats"].get("accepted", 0) < rco["cases"] // 10:
            ctx.violation("the ctor-own stream is degenerate (cases=%d, refused=%s, accepted=%s)" % (rco["cases"], rco["stats"].get("refused"), rco["stats"].get("accepted")),
                          {"kind": "tie-broken", "correspondence": "ctor-own", "stats": rco["stats"]}, nofail=True)
        shown = set()
        for idx, case, exp, got in sorted(rco["disagreements"], key=lambda d: len(d[1])):
            ctor = case.split(" ")[0]
            leak = "L" in exp.split(" ")[-1] and exp != "clean"
            kind = "argument-leaked" if leak else ("leak-report" if case == "LSAN" else "differs-from-model")
            sig = {"fn": "ctor-own:" + ctor, "kind": kind}
            key = json.dumps(sig, sort_keys=True)
            if key in shown:
                continue
            shown.add(key)
            what = ("an ownership-taking constructor left an argument that nobody owns (leak) — case `%s`: GEOS %s, model %s" if leak else
                    "an ownership-taking constructor differs from Model/Api/Construct.lean — case `%s`: GEOS %s, model %s") % (case, exp, got)
            ctx.violation(what, {"kind": "failing-input", "stream": "ctor-own", "case": case, "impl": exp, "model": got, "signature": sig,
                                 "replay_cmd": "%s replay-own <file with the case line>" % exe}, signature=sig)

    # ---- a table theorem broke: look for a concrete failing call of each named function
    if not proved:
        lf = getattr(ctx, "lean_failure", None) or {}
        named = sorted({f for fs in broken.values() for f in fs})
        unresolved = []
        for fn in named[:12]:
            hit = False
            if fn in harness_fns:
                env2 = dict(env)
                env2["C12_FOCUS"] = fn
                wk = os.path.join(ctx.work, "focus-" + fn)
                r2 = verif.run_stream(exe, "api-seq", ctx.seed + 17, 240, wk, shards=min(verif.NPROC, 8), driver_exe="drv_c12", env=env2, timeout=3000)
                for idx, case, exp, got in r2["disagreements"]:
                    pv = parse_verdict(got)
                    if pv and pv[1] == fn and not is_tie(signature(pv[1], pv[2])):
                        report_failure(ctx, runner, case, got, seen, "focused search after broken table theorem (%s)" % fn)
                        hit = True
                        break
            if not hit and fn not in found_for:
                unresolved.append(fn)
        why = "; ".join("%s: %s" % (t, ", ".join(fs[:6])) for t, fs in sorted(broken.items())) or "; ".join(str(i) for i in lf.get("items", [])[:4])
        if unresolved or not named:
            ctx.violation("Lean obligations for C12 no longer check — " + why,
                          {"kind": "proof-broken", "theorems": broken, "functions_without_runtime_witness": unresolved, "lean": lf}, nofail=True)
        else:
            ctx.violation("Lean obligations for C12 no longer check (runtime witnesses found) — " + why,
                          {"kind": "proof-broken", "theorems": broken, "lean": lf}, nofail=True)


def replay(ctx, path):
    r = json.load(open(path))
    ok, out = verif.build_geos("asan")
    exe, out = verif.build_harness("c12", "asan")
    lib = os.path.join(verif.geos_dir("asan"), "lib", "libgeos_c.so")
    try:
        api_table.generate(verif.REPO, GENERATED, lib=lib)
    except api_table.TranslateError as ex:
        print("translator refuses:", ex)
        print("VIOLATION property=C12 replay=%s" % path)
        return 1
    verif.lake_build(["drv_c12"])
    script = r.get("script") or r.get("case")
    if not script:
        print("this replay file names a broken proof / tie, not a call sequence:", r.get("what"))
        ctx2 = verif.Ctx("C12", "quick", ctx.seed)
        proved = ctx2.prove(PROPS, extra_targets=("drv_c12",))
        print("Lean obligations:", "ok" if proved else "BROKEN")
        if not proved:
            print("VIOLATION property=C12 replay=%s" % path)
        return 0 if proved else 1
    runner = Runner(exe, ctx.work, 60)
    lines, verdicts, err = runner.replay([script], verbose=True)
    for c in split_calls(lines[0] if lines else ""):
        print("  ", pretty(c))
    print("driver :", verdicts[0] if verdicts else "?")
    tail = [l for l in err.split("\n") if l.strip()][:14]
    print("\n".join(tail))
    if verdicts and verdicts[0] != "ok":
        print("VIOLATION property=C12 replay=%s" % path)
        return 1
    return 0
