"""C02 — all evaluation paths of a topological question agree, for arbitrary doubles.

proof : lean/GeosModel/Props/C02.lean — the DE-9IM algebra that makes the agreements necessary
        (transpose laws, pattern transposition, self relations) and consistent_of_true_matrix /
        inconsistent_exhibits_disagreement for the test `consistent` the driver applies.
transl: translate/cxx2lean.py spec im_matrix -> Generated/IMMatrix.lean -> Props/C02Gen.lean (geom::IntersectionMatrix get / set / setAtLeast /
        transpose / matches(pattern) = IM.get / set / raise / transpose / matchesPat, the objects of the algebra) and translate/im_preds.py ->
        Generated/IMPreds.lean -> Props/C01Gen.lean (matches(int, char) and the ten named predicates), regenerated from the current source every run;
        stream im-algebra runs the compiled class on random matrices / operation sequences / patterns against the same model.
tie   : stream relate-dbl — generated valid pairs under arbitrary-double similarity maps (rotation, scale
        1e-3..1e9, offsets), axis-parallel rectangles (fast paths) with a redundant-vertex twin, XY point forms,
        prepared on either side, a reused prepared geometry asked in random order, polygons whose holes decide (partner vertices all
        inside holes), walks of XY queries on one prepared geometry (row / column scans).  A failed `consistent` IS a failing input
        for the property: two paths disagree.
        (relate-dbl also has a regular family "one element away from an area-less partner": a multi-element geometry with elements lying IN a partner
        made of lines / points and one element sharing no point with it inside its envelope, mostly under an exact map — the inputs on which the
        requireExteriorCheck / requireCovers flags of a named predicate decide which points RelateNG tests)
        stream pred-converse — the REAL RelatePredicate classes, a predicate on (A,B) and its converse on (B,A) (flags, initialisation, mirrored events,
        final value) against Model/Relate/Pred + EnvExit + Converse (theorems Props/C02Conv: requireCovers / requireExteriorCheck / requireInteraction /
        envelope exit / initialisation / DE-9IM value are mirror images; converse_run_final)
        stream rect-fast — RectangleIntersects::intersects and its three callers on exact lattice input against Model/Relate/RectFast.lean
        (theorems rectIntersects_of_crossing / _of_corner: no witnessed intersection is overlooked, holes included) and, on valid input,
        against the witness reference refIntersects.
        stream point-setxy — one geom::Point overwritten by setXY against Model/Relate/ScratchPoint.lean (theorem run_last: the scratch
        point of the XY forms always equals a fresh point)."""
import os, sys, json, glob
import verif, gtok

LEVEL = "proof"
PROPS = ["GeosModel.Props.C02", "GeosModel.Props.C02Conv"]
DRV = "drv_c02"


def split_case(case):
    parts = case.split(" | ")
    return parts[1], parts[2], (parts[3] if len(parts) > 3 else "")


def evaluate(exe, a, b, obs=""):
    p = os.path.join(verif.BUILD, "work", "c02-replay-%d.txt" % os.getpid())
    keep = " ".join(t for t in obs.split() if t.startswith("pat=") or t.startswith("ord=") or t.startswith("xyq="))
    with open(p, "w") as f:
        f.write("D | %s | %s | %s\n" % (a, b, keep))
    rc, out = verif.sh([exe, "replay", p], timeout=120)
    line = out.strip().split("\n")[-1] if out.strip() else ""
    if rc != 0:
        return "crash rc=%d" % rc, line
    if not line.startswith("D |"):
        return None, "invalid"
    rc2, lines = verif.run_driver_lines("relate-dbl", [line], driver_exe=DRV)
    return (lines[0] if lines else "driver-error"), line


def rect_fast_wkt(case):
    """WKT of a rect-fast case line (lattice integers)"""
    try:
        parts = case.split(" | ")
        t = parts[0].split()[1:]
        n = int(t[0]); rect = "POLYGON ((%s))" % ", ".join("%s %s" % (t[1 + 2 * i], t[2 + 2 * i]) for i in range(n))
        out = []
        for el in parts[1].split(" ; "):
            t = el.split()
            if not t or t[0] == "-":
                continue
            def seq(k):
                m = int(t[k]); return ", ".join("%s %s" % (t[k + 1 + 2 * i], t[k + 2 + 2 * i]) for i in range(m)), k + 1 + 2 * m
            if t[0] == "P":
                out.append("POINT EMPTY" if t[1] == "0" else "POINT (%s)" % seq(1)[0])
            elif t[0] == "L":
                out.append("LINESTRING EMPTY" if t[1] == "0" else "LINESTRING (%s)" % seq(1)[0])
            else:
                nr, k, rings = int(t[1]), 2, []
                for _ in range(nr):
                    sq, k = seq(k); rings.append("(%s)" % sq)
                out.append("POLYGON (%s)" % ", ".join(rings) if rings else "POLYGON EMPTY")
        return rect, (out[0] if len(out) == 1 else "GEOMETRYCOLLECTION (%s)" % ", ".join(out))
    except Exception:
        return "?", "?"


def line_ends_only_on_collection_points(x, y):
    """Exact structural feature of one recorded RelateNG defect (TopologyComputer::addLineEndOnGeometry, target dimension P: no inference):
    y is a collection with isolated POINT elements next to elements of higher dimension, x has line elements and EVERY line element of x
    (open or closed: RelateNG::computeLineEnds visits the first vertex of a closed line too) has its first and last vertex exactly on point
    elements of y (so no line end of x falls into y's exterior and nothing records Interior(x) / Exterior(y))."""
    try:
        gx, gy = gtok.parse(x)[1], gtok.parse(y)[1]
    except Exception:
        return False
    def leaves(e, out):
        if e[0] in gtok.COLL:
            for k in e[1]: leaves(k, out)
        else:
            out.append(e)
        return out
    def key(p):
        return tuple(gtok._dec(h) + 0.0 for h in p[:2])
    if gy[0] not in gtok.COLL:
        return False
    ly = leaves(gy, [])
    ypts = {key(e[1][1][0]) for e in ly if e[0] == "P" and e[1][1]}
    higher = any((e[0] in ("L", "R") and len(e[1][1]) >= 2) or (e[0] == "Y" and e[1] and e[1][0][1]) for e in ly)
    if not ypts or not higher:
        return False
    lines = [e[1][1] for e in leaves(gx, []) if e[0] in ("L", "R") and len(e[1][1]) >= 2]
    return bool(lines) and all(key(l[0]) in ypts and key(l[-1]) in ypts for l in lines)


def collection_polygon_swallows_hole(x, y):
    """Exact structural feature of one recorded defect (AbstractPreparedPolygonContains::eval / PreparedPolygonContainsProperly: the test 'a ring of
    the prepared target lies inside a test polygon' runs only for test type ids POLYGON / MULTIPOLYGON): x is a GEOMETRYCOLLECTION (type id,
    not a Multi*) with a polygon element P, y has a polygon with a hole ring H, and every vertex of H lies strictly inside P (inside P's
    shell, outside P's holes).  Rational arithmetic on the exact double values."""
    from fractions import Fraction
    try:
        gx, gy = gtok.parse(x)[1], gtok.parse(y)[1]
    except Exception:
        return False
    if gx[0] != "GC":
        return False
    def leaves(e, out):
        if e[0] in gtok.COLL:
            for k in e[1]: leaves(k, out)
        else:
            out.append(e)
        return out
    def ring(sq):
        return [(Fraction(gtok._dec(p[0])), Fraction(gtok._dec(p[1]))) for p in sq[1]]
    def locate(rg, p):          # 1 inside, 0 on the ring, -1 outside (even-odd, exact)
        inside = False
        for (ax, ay), (bx, by) in zip(rg, rg[1:]):
            c = (bx - ax) * (p[1] - ay) - (by - ay) * (p[0] - ax)
            if c == 0 and min(ax, bx) <= p[0] <= max(ax, bx) and min(ay, by) <= p[1] <= max(ay, by):
                return 0
            if (ay <= p[1] < by and c > 0) or (by <= p[1] < ay and c < 0):
                inside = not inside
        return 1 if inside else -1
    try:
        polys = [[ring(r) for r in e[1]] for e in leaves(gx, []) if e[0] == "Y" and e[1] and e[1][0][1]]
        holes = [ring(r) for e in leaves(gy, []) if e[0] == "Y" for r in e[1][1:] if r[1]]
    except Exception:
        return False
    if sum(len(r) for P in polys for r in P) * max(1, sum(len(h) for h in holes)) > 200000:
        return False
    for P in polys:
        for H in holes:
            if all(locate(P[0], v) == 1 and all(locate(hp, v) == -1 for hp in P[1:]) for v in H):
                return True
    return False


def signature(a, b, verdict):
    """conjunct: which agreement fails; gc: a GeometryCollection is involved; nearIncidence (gc false): beyond shared
    vertices, a vertex lies within rounding distance of a segment of the other geometry WITHOUT being exactly on it, or two
    segments are collinear to rounding over a positive length without being exactly collinear (exact integer tests in the
    driver); exactIncidence: such contacts exist but all of them are exact (determinant 0).  For the self relations (equals / covers /
    coveredBy of A with itself and its clone) nearIncidence is evaluated inside A."""
    t = verdict.split()
    conj = t[1] if len(t) > 1 else "?"
    nov, snov = "?", "?"
    for x in t:
        if x.startswith("nov="): nov = x[4:]
        if x.startswith("snov="): snov = x[5:]
    fa, fb = gtok.features(a), gtok.features(b)
    gc = fa["gc"] or fb["gc"]
    # the first failing conjunct depends on evaluation order; group the matrix-level and the predicate-level ones
    group = {"transpose": "relate-paths", "prepared-relate": "relate-paths",
             "named-vs-matrix": "predicate-vs-matrix", "named-vs-matrix-swapped": "predicate-vs-matrix",
             "prepared-vs-matrix": "predicate-vs-matrix", "prepared-vs-matrix-swapped": "predicate-vs-matrix",
             "pattern": "predicate-vs-matrix", "prepared-order-dependent": "prepared-order",
             "rectangle-variant": "rectangle", "xy-forms": "xy", "xy-sequence": "xy", "self-relations": "self",
             "equals-both-empty": "equals-both-empty"}.get(conj, conj)
    mixed = False
    if gc and not (gtok.gc_self_interaction(a) or gtok.gc_self_interaction(b)):
        # the recorded collection defects (RelateNG's union semantics) need a collection whose elements share points; a collection of
        # pairwise disjoint elements is keyed like a non-collection (mixed-dimension ones are marked: they have defects of their own)
        gc = False
        mixed = fa["mixedDim"] or fb["mixedDim"]
    sig = {"conjunct": group, "gc": gc}
    if mixed:
        sig["mixedDimCollection"] = True
        if group in ("relate-paths", "predicate-vs-matrix") and (line_ends_only_on_collection_points(a, b) or line_ends_only_on_collection_points(b, a)):
            sig["lineEndsOnlyOnCollectionPoints"] = True
    # prepared-vs-matrix: A is the prepared side, B the test geometry; -swapped: the other way round
    if not gc and ((conj == "prepared-vs-matrix" and collection_polygon_swallows_hole(b, a)) or
                   (conj == "prepared-vs-matrix-swapped" and collection_polygon_swallows_hole(a, b))):
        # which prepared predicates are wrong: 5 contains, 7 covers, 9 containsProperly (0 intersects, 1 disjoint, ... would be another defect)
        names = ["intersects", "disjoint", "touches", "crosses", "within", "contains", "overlaps", "covers", "coveredBy", "containsProperly"]
        qd = [x[6:] for x in t if x.startswith("qdiff=")]
        sig["collectionPolygonSwallowsHole"] = True
        sig["wrongPrepared"] = "+".join(names[int(i)] for i in qd[0].split("+") if i.isdigit() and int(i) < 10) if qd else "?"
    if gc:
        pass
    elif group == "self":
        # nov of a self-relation failure is computed inside A: a vertex of A within rounding distance of another segment of A (not exactly on it)
        sig["nearIncidence"] = (nov == "1")
    elif group in ("relate-paths", "predicate-vs-matrix", "rectangle"):
        sig["nearIncidence"] = (nov == "1")
        if nov in ("x", "xo"):
            # every degenerate contact of the pair is EXACT (determinant 0): rounding cannot be blamed
            sig["exactIncidence"] = True
            sig["collinearOverlap"] = (nov == "xo")
        if nov in ("0", "x") and snov == "1" and group in ("relate-paths", "predicate-vs-matrix"):
            # no inexact contact BETWEEN the geometries, but one INSIDE a geometry: a vertex of it within rounding distance of another of its
            # own segments without being exactly on it (e.g. the tip of a spike folded back onto its own line after an inexact map)
            sig["selfNearIncidence"] = True
            sig.pop("exactIncidence", None); sig.pop("collinearOverlap", None)      # rounding inside one geometry is involved after all
    return sig


def shrink(exe, a, b, verdict, obs):
    conj0 = signature(a, b, verdict)["conjunct"]
    best = (a, b, verdict)
    progress, rounds = True, 0
    while progress and rounds < 6:
        progress = False
        rounds += 1
        for which in (0, 1):
            for cand in gtok.shrink_candidates(best[which]):
                na, nb = (cand, best[1]) if which == 0 else (best[0], cand)
                v, _ = evaluate(exe, na, nb, obs)
                if v and v.startswith("bad") and signature(na, nb, v)["conjunct"] == conj0:
                    best = (na, nb, v)
                    progress = True
                    break
            if progress:
                break
    return best


def run(ctx):
    ctx.base_trust([
        "no exact oracle is claimed for arbitrary doubles: the check decides agreement between paths, not which path is right",
        "validity of generated inputs is filtered with GEOSisValid after the (inexact) similarity map",
        "dimension 'real' of each input (used by the dimension-dependent named predicates) is recomputed by the driver from the geometry structure",
        "stream rect-fast: the model is evaluated on the lattice integers, the implementation on the same integers times a power of two (exact in binary64; "
        "the orientation / envelope tests involved are invariant under that scaling)",
        "Model/Relate/RectFast.lean and Model/Relate/ScratchPoint.lean are hand-ported from RectangleIntersects.cpp / Point.h (not regenerated by the translator)",
    ])
    # ---- translator: geom::IntersectionMatrix (the C++ the algebra of Props/C02 is about) is regenerated from the current source;
    # Props/C02Gen (matrix operations) and Props/C01Gen (matches(int, char), named predicates) prove it equal to Base/IM for all arguments
    sys.path.insert(0, os.path.join(verif.ROOT, "translate"))
    import im_preds
    props, gen_ok = list(PROPS), True
    impreds = os.path.join(verif.ROOT, "lean", "GeosModel", "Generated", "IMPreds.lean")
    try:
        im_preds.generate(verif.REPO, impreds)
        props.append("GeosModel.Props.C01Gen")
    except (im_preds.Refuse, OSError) as ex:
        gen_ok = False
        ctx.violation("translate/im_preds.py refuses the current src/geom/IntersectionMatrix.cpp: %s (the generated model is stale; stream im-algebra "
                      "still compares the compiled class with the model)" % ex,
                      {"kind": "tie-broken", "translator": "im_preds.py", "detail": str(ex)}, nofail=True)
    proved = ctx.prove_generated([("im_matrix", "GeosModel/Generated/IMMatrix.lean", "GeosModel.Props.C02Gen")], props, extra_targets=(DRV,))
    ctx.cov["translator"]["im_preds"] = {"generated": "GeosModel/Generated/IMPreds.lean", "bridge": "GeosModel.Props.C01Gen", "translator": "translate/im_preds.py",
                                         **({"functions": sum(1 for l in open(impreds) if l.startswith("def "))} if gen_ok else {"refused": True})}
    ok, out = verif.build_geos("rel")
    if not ok:
        ctx.violation("GEOS does not build with -DGEOS_VERIF", {"kind": "build-failure", "log": out[-3000:]}, nofail=True)
        return
    exe, out = verif.build_harness("c02")
    if not exe:
        ctx.violation("harness c02 does not compile against the current tree", {"kind": "tie-broken", "correspondence": "harness/c02.cpp", "log": out[-3000:]}, nofail=True)
        return
    quick = ctx.tier == "quick"
    n = 16000 if quick else 600000
    found_input = False
    # ---- geom::IntersectionMatrix as a matrix vs Base/IM (the same C++ functions the translator regenerates)
    ra = verif.run_stream(exe, "im-algebra", ctx.seed, 150000 if quick else 3000000, ctx.work, shards=8, driver_exe=DRV)
    corr_alg = {"cases": ra["cases"], "disagreements": len(ra["disagreements"]) + ra.get("more_disagreements", 0), "distribution": ra["stats"]}
    ctx.cov["samples"] += ra.get("samples", [])[:1]
    if ra["error"]:
        ctx.violation("stream im-algebra could not run: " + ra["error"], {"kind": "tie-broken", "correspondence": "im-algebra", "detail": ra["error"]}, nofail=True)
    elif ra["disagreements"]:
        idx, case, exp, got = ra["disagreements"][0]
        found_input = True
        # the model side is the matrix algebra the agreements of C02 are derived from (transpose laws, matchesPat_transpose)
        ctx.violation("geom::IntersectionMatrix (get/set/setAtLeast/transpose/matches) differs from the DE-9IM matrix algebra: impl %s, model %s" % (exp, got),
                      {"kind": "failing-input", "stream": "im-algebra", "case": case, "impl": exp, "model": got,
                       "fields": "A <matrix> <pattern> <cell> <ops: sABd set, lABd setAtLeast, t transpose> -> final matrix, get(cell), matches(pattern) "
                                 "and matches(transposed pattern) of the transposed matrix (X = throws)"},
                      signature={"conjunct": "im-algebra"})
    corr_extra = {}
    # ---- the rectangle fast path on exact lattice input vs Model/Relate/RectFast (and the witness reference on valid input)
    rf = verif.run_stream(exe, "rect-fast", ctx.seed, 60000 if quick else 3000000, ctx.work, shards=8, driver_exe=DRV, timeout=3000)
    corr_extra["rect-fast"] = {"cases": rf["cases"], "disagreements": len(rf["disagreements"]) + rf.get("more_disagreements", 0), "distribution": rf["stats"]}
    ctx.cov["samples"] += rf.get("samples", [])[:1]
    if rf["error"]:
        ctx.violation("stream rect-fast could not run: " + rf["error"], {"kind": "tie-broken", "correspondence": "rect-fast", "detail": rf["error"]}, nofail=True)
    elif rf["disagreements"]:
        idx, case, exp, got = min(rf["disagreements"], key=lambda d: len(d[1]))
        found_input = True
        refdiff = "reference-differs" in got and got.split()[0] == exp
        rect, geom = rect_fast_wkt(case)
        what = ("the rectangle fast path (RectangleIntersects::intersects, as the model of it) answers %s but the witnessed-intersection reference says otherwise (%s): "
                "intersects(rectangle, g) cannot equal the pattern match of relate" % (exp, got)) if refdiff else \
               ("RectangleIntersects::intersects / Geometry::intersects (rectangle first, rectangle second) / prepared rectangle answer %s, the model of the fast path "
                "(three visitors over every ring) answers %s: on this exact lattice input an intersection witnessed by a hole or shell segment or a corner is "
                "decided differently, so intersects disagrees with relate / disjoint / the redundant-vertex twin" % (exp, got))
        ctx.violation(what, {"kind": "failing-input", "stream": "rect-fast", "case": case, "impl": exp, "model": got, "rectangle_wkt": rect, "geometry_wkt": geom,
                             "fields": "F <rectangle ring> | <elements: P point, L line, Y polygon rings> | v=valid swap=test geometry is itself a rectangle; answers: "
                                       "RectangleIntersects::intersects, rect.intersects(g), g.intersects(rect), prepared(rect).intersects(g)"},
                      signature={"conjunct": "rect-fast-reference" if refdiff else "rect-fast"})
    # ---- geom::Point::setXY (the scratch point of the XY forms): coordinate and cached envelope after every call
    rp = verif.run_stream(exe, "point-setxy", ctx.seed, 20000 if quick else 1000000, ctx.work, shards=8, driver_exe=DRV)
    corr_extra["point-setxy"] = {"cases": rp["cases"], "disagreements": len(rp["disagreements"]) + rp.get("more_disagreements", 0), "distribution": rp["stats"]}
    if rp["error"]:
        ctx.violation("stream point-setxy could not run: " + rp["error"], {"kind": "tie-broken", "correspondence": "point-setxy", "detail": rp["error"]}, nofail=True)
    elif rp["disagreements"]:
        idx, case, exp, got = min(rp["disagreements"], key=lambda d: len(d[1]))
        found_input = True
        ctx.violation("geom::Point after a sequence of setXY calls is not the fresh point at the last position (coordinate or cached envelope differ): the XY predicate "
                      "forms, which overwrite one scratch Point per context, then answer differently from the POINT forms.  impl %s, model %s" % (exp, got),
                      {"kind": "failing-input", "stream": "point-setxy", "case": case, "impl": exp, "model": got,
                       "fields": "S <start: E empty | x:y> <setXY calls x:y ...> -> after each call P:x:y:minx:maxx:miny:maxy (doubles as hex bits)"},
                      signature={"conjunct": "point-setxy"})
    # ---- the real RelatePredicate classes: a predicate asked about (A,B) and its converse asked about (B,A) (coveredBy / covers, within / contains,
    # a pattern / the transposed pattern, the symmetric ones both ways) vs Model/Relate/Pred + EnvExit + Converse; theorems Props/C02Conv
    rc_ = verif.run_stream(exe, "pred-converse", ctx.seed, 150000 if quick else 3000000, ctx.work, shards=8, driver_exe=DRV)
    corr_extra["pred-converse"] = {"cases": rc_["cases"], "disagreements": len(rc_["disagreements"]) + rc_.get("more_disagreements", 0), "distribution": rc_["stats"]}
    if rc_["error"]:
        ctx.violation("stream pred-converse could not run: " + rc_["error"], {"kind": "tie-broken", "correspondence": "pred-converse", "detail": rc_["error"]}, nofail=True)
    elif rc_["disagreements"]:
        seen_cv = set()
        for idx, case, exp, got in sorted(rc_["disagreements"], key=lambda d: len(d[1])):
            e, g = exp.split(" "), got.split(" ")
            if len(e) != 4 or len(g) != 4:
                part = "format"
            elif e[3] != g[3]:
                part = "final-value"
            elif e[0] != g[0] or e[1] != g[1]:
                part = "flags"
            else:
                part = "initialisation"
            kindname = case.split()[1].split(":")[0] if len(case.split()) > 1 else "?"
            if (part, kindname) in seen_cv or len(seen_cv) >= 4:
                continue
            seen_cv.add((part, kindname))
            if part == "final-value":
                # the model's two final values are equal (theorem converse_run_final) and equal the DE-9IM definition on the matrix the events
                # build (C01 early_exit_eq_final): a class that ends elsewhere answers a question wrongly on one of the two paths
                found_input = True
                ctx.violation("predicate class %s: the final values of the predicate on (A,B) and of its converse on (B,A) after mirrored events are %s, the model "
                              "(both equal by theorem converse_run_final) says %s" % (kindname, e[3], g[3]),
                              {"kind": "failing-input", "stream": "pred-converse", "case": case, "impl": exp, "model": got,
                               "fields": "V kind dimA dimB | envA | envB | events locA locB dim -> flags(k) flags(converse k) [requireCovers(A) requireCovers(B) "
                                         "requireExteriorCheck(A) requireExteriorCheck(B) requireInteraction], values after init(dims) and init(envs) (k, converse), final values"},
                              signature={"conjunct": "pred-converse", "part": part, "kind": kindname})
            else:
                ctx.violation("predicate class %s: %s of the predicate / its converse differ from the model (impl %s, model %s): the requirement flags steer which "
                              "points RelateNG tests (requireExteriorCheck), its envelope exits (requireCovers, requireInteraction); Props/C02Conv proves the model's "
                              "flags of a predicate and of its converse mirror images, so that k(A,B) and converse-k(B,A) run the same computation"
                              % (kindname, part, exp, got),
                              {"kind": "tie-broken", "correspondence": "pred-converse", "case": case, "impl": exp, "model": got}, nofail=True,
                              signature={"conjunct": "pred-converse", "part": part, "kind": kindname})
    r = verif.run_stream(exe, "relate-dbl", ctx.seed, n, ctx.work, shards=8, driver_exe=DRV, timeout=6000)
    corr = {"im-algebra": corr_alg, **corr_extra, "relate-dbl": {"cases": r["cases"], "disagreements": len(r["disagreements"]) + r.get("more_disagreements", 0),
                           "distribution": {k: v for k, v in r["stats"].items() if not k.startswith("matrix_")},
                           "distinct_matrices": sum(1 for k in r["stats"] if k.startswith("matrix_"))}}
    ctx.cov["samples"] += r.get("samples", [])[:2]
    if r["error"]:
        crashed = None
        for c in sorted(glob.glob(os.path.join(ctx.work, "relate-dbl.*.current"))):
            line = open(c).read().strip()
            if line:
                a, b, _ = split_case(line + " x")
                v, _ = evaluate(exe, a, b)
                if v and v.startswith("crash"):
                    crashed = (a, b, v)
                    break
        if crashed:
            found_input = True
            a, b, v = crashed
            ctx.violation("a relate path crashes on a valid pair (%s)" % v,
                          {"kind": "failing-input", "stream": "relate-dbl", "A": a, "B": b, "A_wkt": gtok.wkt(a), "B_wkt": gtok.wkt(b)},
                          signature={"conjunct": "crash"})
        else:
            ctx.violation("stream relate-dbl could not run: " + r["error"], {"kind": "tie-broken", "correspondence": "relate-dbl", "detail": r["error"]}, nofail=True)
    seen, shrunk = [], 0
    for idx, case, exp, got in r["disagreements"]:
        a, b, obs = split_case(case)
        sig0 = signature(a, b, got)
        if sig0 in seen:
            continue
        seen.append(sig0)
        if shrunk < 6:
            a, b, got = shrink(exe, a, b, got, obs)
            shrunk += 1
        sig = signature(a, b, got)
        if sig != sig0 and sig in seen:
            continue
        seen.append(sig)
        found_input = True
        ctx.violation("two evaluation paths disagree: %s  [%s]" % (got, json.dumps(sig, sort_keys=True)),
                      {"kind": "failing-input", "stream": "relate-dbl", "A": a, "B": b, "A_wkt": gtok.wkt(a), "B_wkt": gtok.wkt(b),
                       "verdict": got, "signature": sig}, signature=sig)
    ctx.cov["support_correspondence"] = corr
    if not proved:
        lf = getattr(ctx, "lean_failure", None) or {}
        ctx.violation("Lean obligations for C02 no longer check: " + "; ".join(str(i) for i in lf.get("items", [])[:5]),
                      {"kind": "proof-broken", "lean": lf}, nofail=not found_input)


def replay(ctx, path):
    r = json.load(open(path))
    verif.build_geos("rel")
    exe, _ = verif.build_harness("c02")
    verif.lake_build([DRV])
    rc = 0
    pairs = r.get("wkt_pairs")
    if pairs:
        for wa, wb in pairs:
            pth = os.path.join(verif.BUILD, "work", "c02-wkt-%d.txt" % os.getpid())
            open(pth, "w").write("W | %s | %s\n" % (wa, wb))
            _, out = verif.sh([exe, "replay", pth], timeout=60)
            line = out.strip().split("\n")[-1]
            _, lines = verif.run_driver_lines("relate-dbl", [line], driver_exe=DRV)
            print("A:", wa); print("B:", wb); print("verdict:", lines[0] if lines else "?")
            if not lines or lines[0] != "ok":
                rc = 1
    elif "A" in r:
        v, _ = evaluate(exe, r["A"], r["B"])
        print("A:", r.get("A_wkt")); print("B:", r.get("B_wkt")); print("verdict:", v)
        rc = 0 if v == "ok" else 1
    if rc:
        print("VIOLATION property=C02 replay=%s" % path)
    return rc
