"""C05 — isValid and isSimple decide the OGC rules exactly.

proof : lean/GeosModel/Props/C05.lean — CORE: PolygonNodeTopology over Int (compareAngle is a strict weak order agreeing
        with the half-plane / det specification of the counter-clockwise order; isCrossing_iff; isInteriorSegment_iff);
        SPEC (partial): translation invariance of the intersection rule of the reference evaluator, crossAt symmetries.
tie   : stream valid-grid — valid and invalid grid geometries (templates of every touch / overlap / nesting pattern,
        unfiltered random polygons with contact injection, mutations: repeated points, spikes, unclosed / too-few-point
        rings through LinearRing::setPoints, non-finite ordinates) through GEOSisValidDetail (flag off / on),
        GEOSisValid, GEOSisSimple, GEOSisRing; the driver evaluates the independent reference rules
        (Model/Valid/Ref.lean) on exactly scaled integers and compares verdict, error code (must be the first broken
        rule in IsValidOp's order) and location (must be a place where that rule is broken, to rounding).
        The harness also runs the property's invariance oracle directly on GEOS (3 random exact transformations per case).
        stream node-topo — the real PolygonNodeTopology::compareAngle / isCrossing / isInteriorSegment on integer node
        configurations against the Lean copy the theorems are about.
        stream ring-nested — the real PolygonTopologyAnalyzer::isRingNested on pairs of integer rings (comb / arch / bay
        shapes touching in 1..n points of one edge, random start vertex and direction, repeated points, random contact
        rings) against the Lean copy (Model/Valid/RingNested.lean) and, when the rings do not cross, the exact containment
        reference.
        stream pair-rule — the real PolygonIntersectionAnalyzer::processIntersections (findInvalidIntersection) on single pairs
        of ring segments, both flag settings, against the Lean copy (Model/Valid/PairRule.lean), which is PROVED equal to the
        reference evaluator's intersection rule (findInvalidIntersection_eq_pairRule).
        stream self-node — the real PolygonIntersectionAnalyzer (self-touching-ring flag on) shown the segment pairs of ONE ring (flower
        rings passing 2..5 times through a node with inverted pockets and exverted lobes, template / random rings; as shell and as
        hole) in random order, some twice, then PolygonRing::findInteriorSelfNode, against the Lean copy (Model/Valid/SelfNode.lean:
        recorded code and interior self node).
        stream nested-tester — the real IndexedNestedPolygonTester (isNested / getNestedPoint) on integer MultiPolygons (elements inside one
        of several holes of another element with their first vertices on the hole ring, comb / arch / bay touch families, random
        contact multipolygons, templates) against the Lean copy (Model/Valid/NestedTester.lean).
translator tie (every run): translate/cxx2lean.py regenerates PolygonNodeTopology + Quadrant::quadrant (spec node_topology),
        PolygonIntersectionAnalyzer::processIntersections / findInvalidIntersection / isAdjacentInRing / prevCoordinateInRing (valid_pair_rule),
        IsValidOp::isValidGeometry and the isValid overloads = the rule order and early exits (valid_rule_order),
        PolygonTopologyAnalyzer::isRingNested with all helpers incl. the while loops (valid_ring_nested),
        IsSimpleOp::NonSimpleIntersectionFinder::findIntersection / isIntersectionEndpoint / intersectionVertexIndex (valid_simple_pair)
        from the current source;
        Props/C05Gen*.lean prove each regenerated definition equal to the hand-written model the CORE theorems are about.
A difference in a verdict IS a violation of C05 (GEOS != the rules).  Known defects are matched by structural signatures."""
import os, json, glob
import verif, gtok
from verif import log

LEVEL = "proof"
PROPS = ["GeosModel.Props.C05"]
# translator tie: (spec, regenerated file, bridge module) — regenerated from /repo's current source on every run
GENS = [("node_topology", "GeosModel/Generated/NodeTopology.lean", "GeosModel.Props.C05Gen"),
        ("valid_pair_rule", "GeosModel/Generated/ValidPairRule.lean", "GeosModel.Props.C05GenPair"),
        ("valid_rule_order", "GeosModel/Generated/ValidRuleOrder.lean", "GeosModel.Props.C05GenOrder"),
        ("valid_ring_nested", "GeosModel/Generated/ValidRingNested.lean", "GeosModel.Props.C05GenNest"),
        ("valid_simple_pair", "GeosModel/Generated/ValidSimplePair.lean", "GeosModel.Props.C05GenSimple")]
DRV = "drv_c05"
STREAM = "valid-grid"


def evaluate(exe, geom):
    """re-observe a geometry (token line or 'W <wkt>') in GEOS and ask the driver -> (verdict, case line)"""
    p = os.path.join(verif.BUILD, "work", "c05-replay-%d.txt" % os.getpid())
    os.makedirs(os.path.dirname(p), exist_ok=True)
    with open(p, "w") as f:
        f.write(geom + "\n")
    rc, out = verif.sh([exe, "replay", p], timeout=120)
    line = out.strip().split("\n")[-1] if out.strip() else ""
    if rc != 0:
        return "crash rc=%d" % rc, line
    if not line.startswith("V |"):
        return None, line
    rc2, lines = verif.run_driver_lines(STREAM, [line], driver_exe=DRV)
    return (lines[0] if lines else "driver-error"), line


def parse_verdict(v):
    """'bad <key> k=v ...' -> (key, dict)"""
    t = v.split()
    if len(t) < 2 or t[0] != "bad":
        return (t[0] if t else "?"), {}
    d = {}
    rest = []
    for x in t[2:]:
        if "=" in x and not x.startswith("valid") and ":" not in x.split("=")[0]:
            k, val = x.split("=", 1)
            d[k] = val
        else:
            rest.append(x)
    d["_rest"] = " ".join(rest)
    return t[1], d


def ring_start_on_multipass_node(geom, any_vertex=False):
    """Exact structural feature: some polygon ring has its FIRST vertex at a point through which ANOTHER polygon ring of the geometry
    passes at least twice (that ring touches itself there).  PolygonTopologyAnalyzer::isRingNested(test, target) decides by the start
    vertex of the test ring; when it lies on the target ring it looks at ONE pass of the target ring through that point (the first
    segment containing it) — with several passes the corner of that one pass does not determine the side."""
    try:
        g = gtok.parse(geom)[1]
    except Exception:
        return False
    rings = []

    def pts_of(sq):
        out = []
        for p in sq[1]:
            x, y = gtok._frac(p[0]), gtok._frac(p[1])
            if x is None or y is None:
                return None
            if not out or out[-1] != (x, y):
                out.append((x, y))
        return out

    def walk(e):
        if e[0] == "Y":
            for sq in e[1]:
                ps = pts_of(sq)
                if ps and len(ps) >= 4 and ps[0] == ps[-1]:
                    rings.append(ps)
        elif e[0] in gtok.COLL:
            for x in e[1]:
                walk(x)
    walk(g)

    def passes(ring, p):
        n = 0
        for i in range(len(ring) - 1):
            a, b = ring[i], ring[i + 1]
            if a == p:
                n += 1
            elif b != p:
                cr = (b[0] - a[0]) * (p[1] - a[1]) - (b[1] - a[1]) * (p[0] - a[0])
                if cr == 0 and min(a[0], b[0]) <= p[0] <= max(a[0], b[0]) and min(a[1], b[1]) <= p[1] <= max(a[1], b[1]):
                    n += 1
        return n
    for i, r in enumerate(rings):
        for j, t in enumerate(rings):
            if i != j and (any(passes(t, v) >= 2 for v in r[:-1]) if any_vertex else passes(t, r[0]) >= 2):
                return True
    return False


def signature(verdict, geom=None):
    """Structural key of a disagreement (matched against KNOWN_FINDINGS.json).
    class : valid | code | loc | simple | ring | invariance | crash
    flag  : self-touching-ring flag of the differing observation (valid/code/loc)
    impl / ref : 'valid' or 'invalid:<code(s)>'
    selfTouchingRing : some polygon ring meets itself in non-adjacent segments (exact, from the driver)
    touchesOtherRing : such a ring also meets another ring of its polygon
    ringStartOnMultiPassNode : (only present when true, only for a self-touching ring) ring_start_on_multipass_node(geom)"""
    key, d = parse_verdict(verdict)
    st = d.get("st") == "1"
    rt = d.get("rt") == "1"
    extra = {"ringStartOnMultiPassNode": True} if (st and geom is not None and ring_start_on_multipass_node(geom)) else {}
    if key.startswith("crash"):
        return {"class": "crash"}
    if key in ("valid0", "valid1"):
        raw = d.get("impl", "?")
        impl = "valid" if raw.startswith("1") else "exception" if raw.startswith("2") else ("invalid:" + raw.split("/")[1] if "/" in raw else "invalid")
        ref = d.get("ref", "?")
        return dict({"class": "valid", "flag": int(key[-1]), "impl": impl, "ref": ref, "selfTouchingRing": st, "touchesOtherRing": rt}, **extra)
    if key in ("code0", "code1", "loc0", "loc1"):
        return dict({"class": key[:-1], "flag": int(key[-1]), "selfTouchingRing": st, "touchesOtherRing": rt}, **extra)
    if key in ("simple", "ring"):
        return {"class": key, "impl": d.get("impl", "?"), "ref": d.get("ref", "?")}
    if key == "invariance":
        what = d.get("_rest", "").split(":")[0]
        # the variants of the invariance oracle rotate / reverse every ring: the start-vertex dependence of isIncidentSegmentInRing shows as soon as
        # ANY vertex of a ring lies on a node through which another ring passes twice (some rotation starts there)
        if st and geom is not None and not extra and ring_start_on_multipass_node(geom, any_vertex=True):
            extra = {"otherRingVertexOnMultiPassNode": True}
        return dict({"class": "invariance", "what": what, "selfTouchingRing": st}, **extra)
    return {"class": key}


def shrink(exe, geom, verdict):
    sig0 = signature(verdict, geom)
    best = (geom, verdict)
    progress, rounds = True, 0
    while progress and rounds < 8:
        progress = False
        rounds += 1
        try:
            cands = list(gtok.shrink_candidates(best[0]))
        except Exception:
            break
        for cand in cands[:60]:
            v, _ = evaluate(exe, cand)
            if v and v.startswith("bad") and signature(v, cand) == sig0:
                best = (cand, v)
                progress = True
                break
    return best


def safe_wkt(geom):
    try:
        return gtok.wkt(geom)
    except Exception:
        return "?"


def nest_wkts(case):
    """geometries built from a ring-nested case 'R x y ... | x y ...' whose validity hinges on the nesting decision"""
    try:
        a, b = case[1:].split("|")
        def ring(t):
            v = t.split()
            return "(" + ",".join("%s %s" % (v[i], v[i + 1]) for i in range(0, len(v), 2)) + ")"
        ta, tb = ring(a), ring(b)
        return ["MULTIPOLYGON((%s),(%s))" % (tb, ta), "MULTIPOLYGON((%s),(%s))" % (ta, tb), "POLYGON(%s,%s)" % (tb, ta)]
    except Exception:
        return []


def pair_wkts(case):
    """geometries built from a pair-rule case 'Q flag same i j | ring A | ring B'"""
    try:
        head, a, b = case.split("|")
        same = head.split()[2] == "1"
        def ring(t):
            v = t.split()
            return "(" + ",".join("%s %s" % (v[i], v[i + 1]) for i in range(0, len(v), 2)) + ")"
        ta, tb = ring(a), ring(b)
        if same:
            return ["POLYGON(%s)" % ta]
        return ["MULTIPOLYGON((%s),(%s))" % (ta, tb), "POLYGON(%s,%s)" % (ta, tb), "POLYGON(%s,%s)" % (tb, ta)]
    except Exception:
        return []


def _ring(t):
    v = t.split()
    return "(" + ",".join("%s %s" % (v[i], v[i + 1]) for i in range(0, len(v), 2)) + ")"


def tester_wkts(case):
    """the MultiPolygon of a nested-tester case 'T | ring ; ring / ring | impl'"""
    try:
        body = case.split("|")[1]
        return ["MULTIPOLYGON(" + ",".join("(" + ",".join(_ring(r) for r in poly.split(";")) + ")" for poly in body.split("/")) + ")"]
    except Exception:
        return []


def selfnode_wkts(case):
    """the polygon of a self-node case 'S shell | ring | pairs': the ring as shell, or as hole of a large box"""
    try:
        head, ring, _ = case.split("|")
        v = [int(x) for x in ring.split()]
        xs, ys = v[0::2], v[1::2]
        if head.split()[1] == "1":
            return ["POLYGON(%s)" % _ring(ring)]
        x0, x1, y0, y1 = min(xs) - 5, max(xs) + 5, min(ys) - 5, max(ys) + 5
        return ["POLYGON((%d %d,%d %d,%d %d,%d %d,%d %d),%s)" % (x0, y0, x1, y0, x1, y1, x0, y1, x0, y0, _ring(ring))]
    except Exception:
        return []


def direct_stream(ctx, exe, corr, name, n, to_wkts, what, fields, found_input):
    """run a direct correspondence stream of a Lean copy against the real function; a disagreement is turned into a geometry on
    which the validity verdict itself is wrong when possible (failing input), else reported as a broken tie"""
    r = verif.run_stream(exe, name, ctx.seed, n, ctx.work, shards=8, driver_exe=DRV)
    corr[name] = {"cases": r["cases"], "disagreements": len(r["disagreements"]) + r.get("more_disagreements", 0), "distribution": r["stats"]}
    if r["error"]:
        ctx.violation("stream %s could not run: %s" % (name, r["error"]), {"kind": "tie-broken", "correspondence": name, "detail": r["error"]}, nofail=True)
        return found_input
    if not r["disagreements"]:
        return found_input
    failing = None
    for idx, case, exp, got in r["disagreements"][:40]:
        for wkt in to_wkts(case):
            v, obs = evaluate(exe, "W " + wkt)
            if v and v.startswith("bad"):
                failing = (case, exp, got, wkt, v, obs)
                break
        if failing:
            break
    if failing:
        case, exp, got, wkt, v, obs = failing
        sig = signature(v, obs.split(" | ")[1] if obs and obs.count(" | ") >= 2 else None)
        ctx.violation("validity differs from the OGC rules on a geometry where %s differs from its model: %s  [%s]" % (what, v, json.dumps(sig, sort_keys=True)),
                      {"kind": "failing-input", "stream": name, "wkt_list": [wkt], "wkt": wkt, "observed": obs.split(" | ")[-1] if obs else "", "verdict": v,
                       "case": case, "impl": exp, "model": got, "signature": sig}, signature=sig)
        return True
    idx, case, exp, got = r["disagreements"][0]
    ctx.violation("%s differs from its Lean copy: case %s impl %s model %s" % (what, case, exp, got),
                  {"kind": "tie-broken", "correspondence": name, "case": case, "impl": exp, "model": got, "fields": fields}, nofail=not found_input)
    return found_input


def run(ctx):
    ctx.base_trust([
        "the reference evaluator GeosModel.Valid.validRef / simpleRef (literal OGC/JTS rules on exact integer geometry, Model/Valid/Ref.lean) "
        "is taken as the DEFINITION of validity and simplicity; it is not proved equal to the point-set definitions; "
        "'interior connected' is decided as (interior face classes = components of the ring arrangement), justified by Euler's formula, not proved",
        "the order of the rules (which rule is 'first') is IsValidOp's; when a double touch and a bad intersection coexist any later code is accepted",
        "the reported location is accepted within 2^-36 of the largest coordinate of an exact admissible point",
        "the full invariance statement for the reference (C05_ref_invariant_full) is not proved; the implementation's invariance is checked per case by the harness oracle",
        "curved geometry is not covered; MCIndexNoder completeness (every intersecting segment pair is presented to the analyzer) is covered only by correspondence",
    ])
    proved = ctx.prove_generated(GENS, PROPS, extra_targets=(DRV,))
    ok, out = verif.build_geos("rel")
    if not ok:
        ctx.violation("GEOS does not build with -DGEOS_VERIF", {"kind": "build-failure", "log": out[-3000:]}, nofail=True)
        return
    exe, out = verif.build_harness("c05")
    if not exe:
        ctx.violation("harness c05 does not compile against the current tree", {"kind": "tie-broken", "correspondence": "harness/c05.cpp", "log": out[-3000:]}, nofail=True)
        return
    quick = ctx.tier == "quick"
    n = 20000 if quick else 400000
    found_input = False
    r = verif.run_stream(exe, STREAM, ctx.seed, n, ctx.work, shards=8, driver_exe=DRV, timeout=6000)
    fam = {}
    for k, v in r["stats"].items():
        if k.startswith("family_"):
            base = k[7:].split("+")
            fam["templates_hit"] = fam.get("templates_hit", 0) + (1 if len(base) == 1 and not base[0].startswith(("rand_", "touch_", "dwell_", "flower_")) else 0)
            for m in base[1:]:
                fam["mutation_" + m] = fam.get("mutation_" + m, 0) + v
            if base[0].startswith(("rand_", "touch_", "dwell_", "flower_")):
                fam[base[0]] = fam.get(base[0], 0) + v
    dist = {k: v for k, v in r["stats"].items() if not k.startswith("family_")}
    dist.update(fam)
    corr = {STREAM: {"cases": r["cases"], "disagreements": len(r["disagreements"]) + r.get("more_disagreements", 0), "distribution": dist}}
    ctx.cov["samples"] += r.get("samples", [])[:2]
    if r["error"]:
        crashed = None
        for c in sorted(glob.glob(os.path.join(ctx.work, STREAM + ".*.current"))):
            line = open(c).read().strip()
            if line:
                v, _ = evaluate(exe, line)
                if v and v.startswith("crash"):
                    crashed = (line, v)
                    break
        if crashed:
            found_input = True
            ctx.violation("validity / simplicity test crashes (%s)" % crashed[1],
                          {"kind": "failing-input", "stream": STREAM, "geom": crashed[0], "wkt": safe_wkt(crashed[0]), "result": crashed[1]},
                          signature={"class": "crash"})
        else:
            ctx.violation("stream %s could not run: %s" % (STREAM, r["error"]), {"kind": "tie-broken", "correspondence": STREAM, "detail": r["error"]}, nofail=True)
    seen, shrunk = [], 0
    for idx, case, exp, got in r["disagreements"]:
        parts = case.split(" | ")
        if len(parts) < 3:
            continue
        geom = parts[1]
        sig0 = signature(got, geom)
        if sig0 in seen:
            continue
        seen.append(sig0)
        if shrunk < 10 and got.startswith("bad"):
            geom, got = shrink(exe, geom, got)
            shrunk += 1
        sig = signature(got, geom)
        if sig != sig0 and sig in seen:
            continue
        seen.append(sig)
        found_input = True
        _, obs = evaluate(exe, geom)
        ctx.violation("validity/simplicity differs from the OGC rules: %s  [%s]" % (got, json.dumps(sig, sort_keys=True)),
                      {"kind": "failing-input", "stream": STREAM, "geom": geom, "wkt": safe_wkt(geom), "observed": obs.split(" | ")[-1] if obs else "",
                       "verdict": got, "signature": sig}, signature=sig)
    # ---- the CORE model against the real PolygonNodeTopology functions (direct tie of the proved model to the code)
    r2 = verif.run_stream(exe, "node-topo", ctx.seed, 200000 if quick else 4000000, ctx.work, shards=8, driver_exe=DRV)
    corr["node-topo"] = {"cases": r2["cases"], "disagreements": len(r2["disagreements"]) + r2.get("more_disagreements", 0), "distribution": r2["stats"]}
    if r2["error"]:
        ctx.violation("stream node-topo could not run: " + r2["error"], {"kind": "tie-broken", "correspondence": "node-topo", "detail": r2["error"]}, nofail=True)
    elif r2["disagreements"]:
        idx, case, exp, got = r2["disagreements"][0]
        # the Lean copy is proved to satisfy the wedge specification, so the C++ now violates isCrossing_iff / isInteriorSegment_iff
        # on this node configuration; whether that changes a validity verdict is what the valid-grid stream decides
        ctx.violation("PolygonNodeTopology differs from its Lean copy (which is proved equal to the wedge specification): case %s impl %s model %s" % (case, exp, got),
                      {"kind": "tie-broken", "correspondence": "node-topo", "case": case, "impl": exp, "model": got,
                       "fields": "compareAngle(o,a0,a1) compareAngle(o,b0,a0) isCrossing isInteriorSegment(b0) isInteriorSegment(b1); case = N o a0 a1 b0 b1"},
                      nofail=not found_input)
    # ---- the model of PolygonTopologyAnalyzer::isRingNested against the real function (the one decision behind hole-in-shell,
    #      nested holes, nested shells and shell-in-hole) and, for rings that do not cross, against the exact containment reference
    r3 = verif.run_stream(exe, "ring-nested", ctx.seed, 300000 if quick else 3000000, ctx.work, shards=8, driver_exe=DRV)
    corr["ring-nested"] = {"cases": r3["cases"], "disagreements": len(r3["disagreements"]) + r3.get("more_disagreements", 0), "distribution": r3["stats"]}
    if r3["error"]:
        ctx.violation("stream ring-nested could not run: " + r3["error"], {"kind": "tie-broken", "correspondence": "ring-nested", "detail": r3["error"]}, nofail=True)
    elif r3["disagreements"]:
        # try to turn the differing ring pair into a geometry on which the validity verdict itself is wrong
        failing = None
        for idx, case, exp, got in r3["disagreements"][:40]:
            for wkt in nest_wkts(case):
                v, obs = evaluate(exe, "W " + wkt)
                if v and v.startswith("bad"):
                    failing = (case, exp, got, wkt, v, obs)
                    break
            if failing:
                break
        idx, case, exp, got = r3["disagreements"][0]
        if failing:
            case, exp, got, wkt, v, obs = failing
            sig = signature(v, obs.split(" | ")[1] if obs and obs.count(" | ") >= 2 else None)
            found_input = True
            ctx.violation("validity differs from the OGC rules on a pair of rings where isRingNested differs from its model / the containment reference: %s  [%s]" % (v, json.dumps(sig, sort_keys=True)),
                          {"kind": "failing-input", "stream": "ring-nested", "wkt_list": [wkt], "wkt": wkt, "observed": obs.split(" | ")[-1] if obs else "", "verdict": v,
                           "ring_pair": case, "isRingNested_impl": exp, "isRingNested_model": got, "signature": sig}, signature=sig)
        else:
            ctx.violation("PolygonTopologyAnalyzer::isRingNested differs from its Lean copy / the exact containment reference: case %s impl %s model %s" % (case, exp, got),
                          {"kind": "tie-broken", "correspondence": "ring-nested", "case": case, "impl": exp, "model": got,
                           "fields": "case = R <test ring> | <target ring> (integer x y pairs); answer 1 nested / 0 not / X exception; 'ref=' = containment reference when the rings do not cross"},
                          nofail=not found_input)
    # ---- the model of PolygonIntersectionAnalyzer::findInvalidIntersection (proved equal to the reference's pairRule) against the real
    #      processIntersections on single pairs of ring segments, both flag settings
    r4 = verif.run_stream(exe, "pair-rule", ctx.seed, 200000 if quick else 3000000, ctx.work, shards=8, driver_exe=DRV)
    corr["pair-rule"] = {"cases": r4["cases"], "disagreements": len(r4["disagreements"]) + r4.get("more_disagreements", 0), "distribution": r4["stats"]}
    if r4["error"]:
        ctx.violation("stream pair-rule could not run: " + r4["error"], {"kind": "tie-broken", "correspondence": "pair-rule", "detail": r4["error"]}, nofail=True)
    elif r4["disagreements"]:
        failing = None
        for idx, case, exp, got in r4["disagreements"][:40]:
            for wkt in pair_wkts(case):
                v, obs = evaluate(exe, "W " + wkt)
                if v and v.startswith("bad"):
                    failing = (case, exp, got, wkt, v, obs)
                    break
            if failing:
                break
        idx, case, exp, got = r4["disagreements"][0]
        if failing:
            case, exp, got, wkt, v, obs = failing
            sig = signature(v, obs.split(" | ")[1] if obs and obs.count(" | ") >= 2 else None)
            found_input = True
            ctx.violation("validity differs from the OGC rules on rings where the per-pair intersection decision differs from its model: %s  [%s]" % (v, json.dumps(sig, sort_keys=True)),
                          {"kind": "failing-input", "stream": "pair-rule", "wkt_list": [wkt], "wkt": wkt, "observed": obs.split(" | ")[-1] if obs else "", "verdict": v,
                           "segment_pair": case, "code_impl": exp, "code_model": got, "signature": sig}, signature=sig)
        else:
            ctx.violation("PolygonIntersectionAnalyzer::findInvalidIntersection differs from its Lean copy (proved equal to the reference's intersection rule): case %s impl %s model %s" % (case, exp, got),
                          {"kind": "tie-broken", "correspondence": "pair-rule", "case": case, "impl": exp, "model": got,
                           "fields": "case = Q flag same i j | ring A | ring B (integer x y pairs); answer = error code of the pair (segment i of A, segment j of B or of A when same=1), -1 none"},
                          nofail=not found_input)
    # ---- the self-touch bookkeeping of the flag mode (findInvalidIntersection -> addSelfTouch -> findInteriorSelfNode -> isExterior) against the
    #      real PolygonIntersectionAnalyzer / PolygonRing on the segment pairs of one ring, presented in random order
    found_input = direct_stream(ctx, exe, corr, "self-node", 120000 if quick else 2000000, selfnode_wkts,
                                "the self-touch bookkeeping (PolygonIntersectionAnalyzer::processIntersections + PolygonRing::findInteriorSelfNode)",
                                "case = S <1 shell / 0 hole> | <ring> | <segment index pairs in presentation order>; answer = recorded code (-1 none) and interior self node (x y or -)",
                                found_input)
    # ---- the nested-shells rule of a MultiPolygon: IndexedNestedPolygonTester against its Lean copy
    found_input = direct_stream(ctx, exe, corr, "nested-tester", 120000 if quick else 2000000, tester_wkts,
                                "IndexedNestedPolygonTester::isNested",
                                "case = T | <elements separated by '/', rings by ';', shell first> | <impl: 0 / 1 x y / X>; answer ok, or the model's answer (admissible nested points)",
                                found_input)
    ctx.cov["support_correspondence"] = corr
    if not proved:
        lf = getattr(ctx, "lean_failure", None) or {}
        ctx.violation("Lean obligations for C05 no longer check: " + "; ".join(str(i) for i in lf.get("items", [])[:5]),
                      {"kind": "proof-broken", "lean": lf}, nofail=not found_input)


def replay(ctx, path):
    r = json.load(open(path))
    verif.build_geos("rel")
    exe, _ = verif.build_harness("c05")
    verif.lake_build([DRV])
    geoms = []
    if "wkt_list" in r:
        geoms = ["W " + w for w in r["wkt_list"]]
    elif "geom" in r:
        geoms = [r["geom"]]
    rc = 0
    for g in geoms:
        v, obs = evaluate(exe, g)
        print("geom    :", g[2:] if g.startswith("W ") else safe_wkt(g))
        print("observed:", obs.split(" | ")[-1] if obs else "")
        print("verdict :", v)
        if v != "ok":
            rc = 1
    if rc:
        print("VIOLATION property=C05 replay=%s" % path)
    return rc
