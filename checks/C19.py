"""C19 — linework operations preserve the point set and their structural contracts.

proof : lean/GeosModel/Props/C19.lean
          linear referencing (model of LengthLocationMap / LinearLocation / ExtractLineByLocation / LengthIndexOfPoint over an
          exact carrier): loc_len_inverse, loc_clamp, loc_monotone, extract_length, project_interpolate (partial);
          line merging: soundness of the executable merge-contract checker + merge_preserves_edges / merge_maximal / directed;
          noding / polygonize / shared paths: soundness of the exact contract checkers.
tie   : correspondence harness/c19.cpp <-> lean/Driver/C19.lean
          linref       the Float instance of the model must reproduce GEOSProject/Interpolate/LineSubstring (+Normalized) and the
                       C++ API LengthIndexedLine::extractLine / clampIndex / isValidIndex, LengthLocationMap::getLocation / getLength,
                       LineSegment::segmentFraction (indices from the whole documented domain) bit for bit (tolerance 0 ulp)
translator: translate/specs/linref.py -> Generated/LinRef.lean -> Props/C19Gen.lean (regenerated C++ = model, every run)
          merge/node/polygonize/sharedpaths
                       the case carries input + output of GEOS; the driver runs the proved-sound checkers exactly (doubles scaled
                       to integers) — a "violated:<clause>" answer is a concrete input on which the property's contract fails
          holeassign   the REAL polygonize::EdgeRing::findEdgeRingContaining, asked on the rings PolygonizeGraph builds for generated
                       arrangements, every hole ring built from each of its possible start edges; the answer (shell index / none)
                       must equal the model Model/Lines/HoleAssign.lean (theorems: Props/C19Hole.lean).  A disagreement is turned
                       into a property-level input by polygonizing re-ordered / re-directed copies of the same lines
          oracle       property-level oracles for linear referencing (round trip nearest, interpolate at arc length, substring
                       length), used as the search when `linref` stops agreeing
"""
import os, json, struct, subprocess, resource
import verif
from verif import log

LEVEL = "proof"
PROPS = ["GeosModel.Props.C19", "GeosModel.Props.C19Hole"]
DRV = "drv_c19"

# stream -> (quick n, thorough n)
STREAMS = [
    ("linref", 40000, 1200000),
    ("oracle", 16000, 400000),
    ("merge", 6000, 200000),
    ("node", 4000, 100000),
    ("node_fp", 1200, 30000),
    ("polygonize", 4000, 100000),
    ("holeassign", 2400, 60000),
    ("sharedpaths", 4000, 100000),
    ("oracle_multi", 1500, 20000),
]
CONTRACT_STREAMS = ("merge", "node", "node_fp", "polygonize", "sharedpaths", "oracle", "oracle_multi")


# ----------------------------------------------------------------------------- case-line helpers
def parse_set(t, p):
    k = int(t[p]); p += 1
    ls = []
    for _ in range(k):
        n = int(t[p]); p += 1
        ls.append(t[p:p + 2 * n]); p += 2 * n
    return ls, p


def show_set(ls):
    return " ".join([str(len(ls))] + [" ".join([str(len(l) // 2)] + l) for l in ls])


def input_part(stream, case):
    """(prefix tokens, [input line sets], suffix tokens) of the *input* part of a case line (what `c19 replay` needs)."""
    t = case.split()
    if stream in ("merge", "node", "node_fp"):
        ls, p = parse_set(t, 2)
        return t[:2], [ls], []
    if stream == "holeassign":
        ls, p = parse_set(t, 1)
        return t[:1], [ls], []
    if stream == "polygonize":
        ls, p = parse_set(t, 3)
        return t[:3], [ls], []
    if stream == "sharedpaths":
        a, p = parse_set(t, 1)
        b, p = parse_set(t, p + 1)
        return t[:1], [a, b], []
    if stream in ("oracle", "oracle_multi"):
        ls, p = parse_set(t, 1)
        if t[0] == "RT":
            return t[:1], [ls], t[p:p + 3]          # | px py
        if t[0] in ("IL", "CL"):
            return t[:1], [ls], t[p:p + 1]
        return t[:1], [ls], t[p:p + 2]
    if stream == "linref":
        ls, p = parse_set(t, 1)
        return t[:1], [ls], t[p:]
    raise ValueError(stream)


def build_input(stream, pre, sets, suf):
    if stream == "sharedpaths":
        return " ".join(pre) + " " + show_set(sets[0]) + " | " + show_set(sets[1])
    return " ".join(pre + [show_set(sets[0])] + suf)


def run_case(exe, stream, inp_line):
    """Re-run GEOS on the input part and the driver on the regenerated case. Returns (case, expect, got)."""
    p = os.path.join(verif.BUILD, "work", "c19-replay-%d.txt" % os.getpid())
    os.makedirs(os.path.dirname(p), exist_ok=True)
    with open(p, "w") as f:
        f.write(inp_line + "\n")
    rc, out = verif.sh([exe, "replay", stream, p], timeout=120)
    line = out.strip().split("\n")[-1] if out.strip() else "bad-case\tno output"
    if "\t" not in line:
        return inp_line, "harness-error", line
    case, exp = line.split("\t", 1)
    rc2, lines = verif.run_driver_lines(stream, [case], driver_exe=DRV)
    got = lines[0] if lines else ""
    return case, exp, got


def same_failure(e0, g0, e, g):
    if e0.startswith("crash:"):
        return e.startswith("crash:")
    return g == g0 and e != g


def shrink(exe, stream, case, got0, exp0=""):
    """Greedy removal of input lines while the driver keeps giving the same answer (same violated clause)
    (or, for a crash, while the implementation keeps crashing)."""
    try:
        pre, sets, suf = input_part(stream, case)
    except Exception:
        return case, None, got0
    best = None
    changed = True
    rounds = 0
    while changed and rounds < 6:
        changed = False
        rounds += 1
        for si in range(len(sets)):
            i = len(sets[si]) - 1
            while i >= 0:
                if len(sets[si]) > 1:
                    cand = [list(s) for s in sets]
                    cand[si] = cand[si][:i] + cand[si][i + 1:]
                    c, e, g = run_case(exe, stream, build_input(stream, pre, cand, suf))
                    if same_failure(exp0, got0, e, g):
                        sets = cand
                        best = (c, e, g)
                        changed = True
                i -= 1
    if best is None:
        c, e, g = run_case(exe, stream, build_input(stream, pre, sets, suf))
        return c, e, g
    return best


def _limits():
    try:
        resource.setrlimit(resource.RLIMIT_AS, (2 << 30, 2 << 30))
    except Exception:
        pass


def replay_survives(exe, stream, lines, timeout):
    """True iff `c19 replay` gets through all `lines` (input lines) without throwing, crashing, being killed or timing out."""
    p = os.path.join(verif.BUILD, "work", "c19-crash-%d.txt" % os.getpid())
    os.makedirs(os.path.dirname(p), exist_ok=True)
    with open(p, "w") as f:
        f.write("\n".join(lines) + "\n")
    try:
        r = subprocess.run([exe, "replay", stream, p], stdout=subprocess.PIPE, stderr=subprocess.STDOUT, timeout=timeout,
                           preexec_fn=_limits)
    except subprocess.TimeoutExpired:
        return False, "timeout after %ds" % timeout
    if r.returncode != 0:
        return False, "exit %d %s" % (r.returncode, r.stdout.decode("utf-8", "replace")[-300:])
    outl = [l for l in r.stdout.decode("utf-8", "replace").split("\n") if l]
    if len(outl) != len(lines):
        return False, "answered fewer lines than cases"
    for l in outl:
        if "\tcrash:" in l:
            return False, l.split("\t", 1)[1]
    return True, ""


def find_crashing_input(exe, stream, seed, n, shards, workdir):
    """The harness died on this stream: regenerate the same inputs without calling GEOS (C19_DRY), replay them one process
    per shard (output flushed per case) and return an input on which the implementation throws, crashes or hangs:
    (input line, how) or None."""
    for k in range(shards):
        base = os.path.join(workdir, "%s.dry.%d" % (stream, k))
        rc, out = verif.sh([exe, stream, str(seed * 1000003 + k), str(max(1, n // shards)), base], env={"C19_DRY": "1"}, timeout=600)
        if rc != 0 or not os.path.exists(base + ".cases"):
            continue
        lines = [l for l in open(base + ".cases").read().split("\n") if l]
        try:
            r = subprocess.run([exe, "replay", stream, base + ".cases"], stdout=subprocess.PIPE, stderr=subprocess.PIPE, timeout=900,
                               preexec_fn=_limits)
            rc, outb = r.returncode, r.stdout
        except subprocess.TimeoutExpired as ex:
            rc, outb = 124, (ex.stdout or b"")
        outl = [l for l in outb.decode("utf-8", "replace").split("\n") if l]
        if rc != 0 and len(outl) < len(lines):
            cand = lines[len(outl)]               # the case being run when the process died
            ok, how = replay_survives(exe, stream, [cand], 60)
            if not ok:
                return cand, how
        for l in outl:
            if "\tcrash:" in l:
                c, e = l.split("\t", 1)
                return c, e
    return None


def hx(h):
    return struct.unpack(">d", bytes.fromhex(h))[0]


def wkt_of(sets):
    return ["MULTILINESTRING(" + ",".join("(" + ",".join("%.17g %.17g" % (hx(l[i]), hx(l[i + 1])) for i in range(0, len(l), 2)) + ")" for l in ls) + ")" for ls in sets]


def signature(stream, case, got):
    clause = got.split(":", 1)[1] if ":" in got else got
    sig = {"stream": "oracle" if stream == "oracle_multi" else stream, "clause": clause}
    t = case.split()
    if stream in ("oracle", "oracle_multi"):
        try:
            ls, _ = parse_set(t, 1)
            sig["op"] = t[0]
            sig["multi_component"] = len(ls) > 1
        except Exception:
            pass
    if stream == "merge":
        sig["directed"] = t[1] == "1"
    if stream == "polygonize":
        sig["mode"] = t[1]
    return sig


def linref_to_oracle(case):
    """The property-level question for the input of a disagreeing `linref` case (oracle input line)."""
    t = case.split()
    ls, p = parse_set(t, 1)
    if t[0] == "P":
        return "RT " + show_set(ls) + " | " + t[p] + " " + t[p + 1]
    if t[0] == "I":
        return "IL " + show_set(ls) + " " + t[p]
    if t[0] == "S":
        a, b = hx(t[p]), hx(t[p + 1])
        if 0 <= a <= 1 and 0 <= b <= 1:
            return "SL " + show_set(ls) + " " + t[p] + " " + t[p + 1]
    if t[0] == "X":          # LengthIndexedLine::extractLine(a, b) through the C++ API
        return "XL " + show_set(ls) + " " + t[p] + " " + t[p + 1]
    if t[0] == "C":          # LengthIndexedLine::clampIndex(a)
        return "CL " + show_set(ls) + " " + t[p]
    return None


def run(ctx):
    ctx.base_trust([
        "C19 models (lean/GeosModel/Model/LinRef/*.lean, Model/Lines/*.lean) are hand-written from src/linearref, src/operation/linemerge; "
        "the linear-referencing theorems are over exact rationals (segment lengths are inputs: the code's sqrt is not modelled), the Float "
        "instance run by the driver is tied to the code bit for bit by the `linref` stream",
        "noding / polygonize / shared paths: only the *contract checkers* are proved sound; that GEOS meets the contract is observed on "
        "generated grid and full-precision inputs (exact integer arithmetic on the doubles of each case, Kernel.segRel as intersection oracle)",
        "decomposition of an output coordinate list into input lines (Model/Lines/Noding.lean `decompose`) and the harness' geometry "
        "traversal are trusted; polygon interior-connectedness is taken from GEOSisValid_r",
        "NaN/Inf ordinates, empty components and Z/M are excluded",
        "translator tie: 26 functions of src/linearref + LineSegment / Distance / Coordinate are regenerated from the C++ (translate/cxx2lean.py, spec linref) and proved equal to the "
        "model over Rat (Props/C19Gen.lean) under explicit connecting hypotheses (LinearIterator positions = the model's items, getLength() = totalLen, getEndLocation = endLoc); "
        "the translator, its spec configuration and the functions it cannot express (setToEnd, resolveHigher, ExtractLineByLocation, ...) remain trusted / correspondence-only",
    ])
    proved = ctx.prove_generated([("linref", "GeosModel/Generated/LinRef.lean", "GeosModel.Props.C19Gen")], PROPS, extra_targets=(DRV,))
    ok, out = verif.build_geos("rel")
    if not ok:
        ctx.violation("GEOS does not build with -DGEOS_VERIF", {"kind": "build-failure", "log": out[-3000:]}, nofail=True)
        return
    exe, out = verif.build_harness("c19")
    if not exe:
        ctx.violation("harness c19 does not compile against the current tree",
                      {"kind": "tie-broken", "correspondence": "harness/c19.cpp", "log": out[-3000:]}, nofail=True)
        return
    quick = ctx.tier == "quick"
    corr = {}
    found_input = False
    # ---- object reuse: one C++ builder / merger object asked repeatedly must answer like a fresh one (the model side is a pure
    # function of the input, so the driver's answer is always "consistent"); the case line holds the input, the implementation's
    # own verdict says which repeated query differed
    rr = verif.run_stream(exe, "reuse", ctx.seed, (12000 if quick else 600000), ctx.work, shards=min(verif.NPROC, 8), driver_exe=DRV)
    corr["reuse"] = {"cases": rr["cases"], "disagreements": len(rr["disagreements"]) + rr.get("more_disagreements", 0), "distribution": rr["stats"]}
    if rr["error"]:
        ctx.violation("stream reuse could not run: " + rr["error"], {"kind": "tie-broken", "correspondence": "reuse", "detail": rr["error"]}, nofail=True)
    elif rr["disagreements"]:
        idx, case, exp, got = rr["disagreements"][0]
        found_input = True
        ctx.violation("a reused LineMerger answers differently from a fresh one on the same lines: " + exp[:300],
                      {"kind": "failing-input", "stream": "reuse", "case": case, "impl": exp, "model": got,
                       "replay_cmd": "%s reuse-replay: regenerate with `%s reuse %d %d <out>`" % (exe, exe, ctx.seed, (12000 if quick else 600000))},
                      signature={"stream": "reuse", "clause": " ".join(exp.split()[:2])})
    seen = []
    linref_bad = []
    ha_bad = []

    def report_contract(stream, case, exp, got):
        nonlocal found_input
        sig0 = signature(stream, case, "violated:implementation-crashes-or-hangs" if exp.startswith("crash:") else got)
        if sig0 in seen:
            return
        if exp.startswith("crash:"):
            got = "violated:implementation-crashes-or-hangs"
        c2, e2, g2 = shrink(exe, stream, case, got, exp)
        if exp.startswith("crash:"):
            g2 = got
            if not e2.startswith("crash:"):
                c2, e2 = case, exp
        elif e2 == g2:          # not reproducible through replay: keep the original
            c2, e2, g2 = case, exp, got
        sig = signature(stream, c2, g2)
        seen.append(sig0)
        if sig not in seen:
            seen.append(sig)
        try:
            pre, sets, suf = input_part(stream, c2)
            wkt = wkt_of(sets)
        except Exception:
            wkt = []
        if g2.startswith("violated:"):
            found_input = True
            ctx.violation("%s: output of GEOS violates the contract clause '%s' (%s)" % (stream, g2[9:], json.dumps(sig)),
                          {"kind": "failing-input", "stream": stream, "case": c2, "impl": e2, "verdict": g2, "input_wkt": wkt,
                           "replay_cmd": "bin/check C19 --replay <this file>", "signature": sig}, signature=sig)
        else:
            ctx.violation("%s: implementation and checker disagree without a contract verdict (impl %s, driver %s)" % (stream, e2, g2),
                          {"kind": "tie-broken", "correspondence": stream, "case": c2, "impl": e2, "driver": g2, "input_wkt": wkt}, nofail=True)

    for stream, nq, nt in STREAMS:
        n = nq if quick else nt
        r = verif.run_stream(exe, stream, ctx.seed, n, ctx.work, shards=min(verif.NPROC, 8), driver_exe=DRV,
                             timeout=900 if quick else 3000)
        corr[stream] = {"cases": r["cases"], "disagreements": len(r["disagreements"]) + r.get("more_disagreements", 0),
                        "distribution": r["stats"]}
        ctx.cov["samples"] += r.get("samples", [])[:1]
        if r["error"]:
            crash = None
            if "harness" in r["error"]:
                crash = find_crashing_input(exe, stream, ctx.seed, n, min(verif.NPROC, 8), ctx.work)
            if crash:
                line, how = crash
                try:
                    pre, sets, suf = input_part(stream, line)
                    # shrink: drop input lines while it still dies
                    changed = True
                    while changed:
                        changed = False
                        for si in range(len(sets)):
                            for i in range(len(sets[si]) - 1, -1, -1):
                                if len(sets[si]) > 1:
                                    cand = [list(x) for x in sets]
                                    cand[si] = cand[si][:i] + cand[si][i + 1:]
                                    ok2, h2 = replay_survives(exe, stream, [build_input(stream, pre, cand, suf)], 30)
                                    if not ok2:
                                        sets, how, changed = cand, h2, True
                    line = build_input(stream, pre, sets, suf)
                    wkt = wkt_of(sets)
                except Exception:
                    wkt = []
                found_input = True
                sig = {"stream": stream, "clause": "implementation-crashes-or-hangs"}
                ctx.violation("%s: GEOS crashes, hangs or exhausts memory on a generated input (%s)" % (stream, how.split("\n")[0][:80]),
                              {"kind": "failing-input", "stream": stream, "case": line, "how": how, "input_wkt": wkt, "signature": sig},
                              signature=sig)
            else:
                ctx.violation("correspondence stream %s could not run: %s" % (stream, r["error"]),
                              {"kind": "tie-broken", "correspondence": stream, "detail": r["error"]}, nofail=True)
            continue
        for idx, case, exp, got in r["disagreements"]:
            if stream == "linref":
                linref_bad.append((case, exp, got))
            elif stream == "holeassign":
                ha_bad.append((case, exp, got))
            else:
                report_contract(stream, case, exp, got)

    if ha_bad:
        # the real findEdgeRingContaining and its model differ for some hole ring built from some start edge.  Which start edge
        # Polygonizer itself uses depends on the order and direction of the input lines: polygonize re-ordered / re-directed
        # copies of the same arrangement and let the contract checker judge the result.
        import random
        rnd = random.Random(ctx.seed)
        hit = False
        for case, exp, got in ha_bad[:6]:
            pre, sets, suf = input_part("holeassign", case)
            lines = []
            for k in range(96):
                ls = [list(l) for l in sets[0]]
                rnd.shuffle(ls)
                for l in ls:
                    if rnd.random() < 0.5:
                        pts = [l[i:i + 2] for i in range(0, len(l), 2)]
                        pts.reverse()
                        l[:] = [x for pt in pts for x in pt]
                lines.append("Y f 0 " + show_set(ls))
            pth = os.path.join(ctx.work, "ha-perm.txt")
            with open(pth, "w") as f:
                f.write("\n".join(lines) + "\n")
            rc, outp = verif.sh([exe, "replay", "polygonize", pth], timeout=300)
            pairs = [l.split("\t", 1) for l in outp.split("\n") if "\t" in l]
            rc2, gots = verif.run_driver_lines("polygonize", [c for c, _ in pairs], driver_exe=DRV)
            for (c, e), g in zip(pairs, gots):
                if e != g:
                    hit = True
                    report_contract("polygonize", c, e, g)
                    break
            if hit:
                break
        if not hit:
            case, exp, got = ha_bad[0]
            ctx.violation("holeassign: polygonize::EdgeRing::findEdgeRingContaining no longer answers like its model (%d arrangements; impl %s, "
                          "model %s); 96 re-orderings of the lines of each of the first arrangements polygonize correctly" % (len(ha_bad), exp[:80], got[:80]),
                          {"kind": "tie-broken", "correspondence": "holeassign", "case": case, "impl": exp, "model": got}, nofail=True)

    if linref_bad:
        # model (Float instance) and implementation differ: does the *property* fail?  (i) the disagreeing inputs themselves,
        # (ii) a larger oracle run
        hit = False
        for case, exp, got in linref_bad[:50]:
            q = linref_to_oracle(case)
            if q is None:
                continue
            c2, e2, g2 = run_case(exe, "oracle", q)
            if e2 != g2:
                hit = True
                report_contract("oracle", c2, e2, g2)
        if not hit:
            r = verif.run_stream(exe, "oracle", ctx.seed + 7919, 200000 if quick else 2000000, ctx.work, shards=min(verif.NPROC, 8), driver_exe=DRV)
            ctx.cov["support_search"] = {"stream": "oracle", "cases": r["cases"], "disagreements": len(r["disagreements"])}
            for idx, case, exp, got in r["disagreements"][:5]:
                hit = True
                report_contract("oracle", case, exp, got)
        if not hit:
            case, exp, got = linref_bad[0]
            ctx.violation("linref: the Float instance of the model no longer reproduces GEOS (%d cases, e.g. op %s); the oracles found no "
                          "input on which the property fails" % (len(linref_bad), case.split()[0]),
                          {"kind": "tie-broken", "correspondence": "linref", "case": case, "impl": exp, "model": got}, nofail=True)
    ctx.cov["support_correspondence"] = corr
    if not proved:
        lf = getattr(ctx, "lean_failure", None) or {}
        ctx.violation("Lean obligations for C19 no longer check: " + "; ".join(str(i) for i in lf.get("items", [])[:5]),
                      {"kind": "proof-broken", "lean": lf}, nofail=not found_input)


def replay(ctx, path):
    r = json.load(open(path))
    ok, out = verif.build_geos("rel")
    exe, out = verif.build_harness("c19")
    verif.lake_build([DRV])
    stream = r.get("stream") or r.get("correspondence")
    case = r.get("case")
    if not stream or not case or not exe:
        print("replay file carries no case line")
        return 1 if r.get("no_failing_input_found") else 0
    pre, sets, suf = input_part(stream, case)
    if r.get("signature", {}).get("clause") == "implementation-crashes-or-hangs":
        ok2, how = replay_survives(exe, stream, [build_input(stream, pre, sets, suf)], 60)
        for w in wkt_of(sets):
            print("input :", w)
        print("survives:", ok2, how)
        if not ok2:
            print("VIOLATION property=C19 replay=%s" % path)
            return 1
        return 0
    c, e, g = run_case(exe, stream, build_input(stream, pre, sets, suf))
    for w in wkt_of(sets):
        print("input :", w)
    print("case  :", c[:2000])
    print("impl  :", e[:500])
    print("driver:", g[:500])
    if e != g or e.startswith("crash:"):
        print("VIOLATION property=C19 replay=%s" % path)
        return 1
    return 0
