"""C15 — spatial index queries return exactly the matching items after any history.

proof   : lean/GeosModel/Props/C15.lean  (history_refines & co. over the model of TemplateSTRtree)
tie     : translator (every run) — translate/cxx2lean.py (spec `strtree`) regenerates the geom::Envelope predicates (isNull, intersects,
          disjoint, covers, contains, expandToInclude), EnvelopeTraits::{intersects,isNull}, TemplateSTRNode::{isLeaf,isDeleted,isComposite,
          removeItem,getBounds,boundsIntersect} and TemplateSTRtreeImpl::{insert x2,sliceCount,sliceCapacity} into Generated/STRtree.lean;
          Props/C15Gen.lean proves each equal to the model function (Env.inter/union/isNull/covers/containsPt, Node.isLeaf, Entry.deleted,
          Tree.insert, STR.sliceCount/sliceCapacity) through the representations of Model/Index/Rep.lean, for all arguments (the slice
          functions under the explicit hypothesis that ceil(a/b), ceil(sqrt(m)) are exact); stream `envpreds` runs the same C++ functions.
          correspondence — generated histories run through GEOSSTRtree_* (C API -> TemplateSTRtree<void*>, stream strtree) and through
          the C++ API TemplateSTRtree<Item*> (stream strcxx: also query into a vector and the items() forward iterator)
          and through the model; sliceCount/sliceCapacity/treeSize arithmetic compared with the
          C++ `ceil(sqrt(double))` code via a subclass exposing the protected members; stream striter runs
          TemplateSTRtreeImpl::Iterator over trees with removal patterns (runs of removed leaves adjacent in storage order)
          and compares it IN ORDER with the model of the iterator (skipDeleted / ++ / * / !=) run on the leaf array;
          stream quadnode runs histories of quadtree::Root and Quadtree (insert / remove / query / visit / queryAll / size /
          depth / prunable flags) and compares every result IN ORDER with the model Model/Index/Quad.lean, whose
          removal / pruning behaviour is proved (quad_* theorems) to lose no item.
Because the model's outputs are *proved* equal to the live-multiset specification, any disagreement
on a query / iterate / remove / nearest token is a concrete failing input for the property."""
import os, json, re
import verif
from verif import log

LEVEL = "proof"
PROPS = ["GeosModel.Props.C15"]


def classify(exp, got):
    """first differing token kind, for the signature"""
    for a, b in zip(exp.split(), got.split()):
        if a != b:
            return a.split(":")[0], a, b
    return "len", "", ""


OPS_H = ("I", "B", "Q", "R", "T", "N", "V", "J")     # STRtree histories (lines H / HX)
OPS_N = ("I", "R", "Q", "V", "A", "S")               # quadtree histories (lines N)


def parse_ops(case):
    tk = case.split()
    nh, opset = (2, OPS_N) if tk[0] == "N" else (3, OPS_H)
    head, rest = tk[:nh], tk[nh:]
    ops, cur = [], []
    for t in rest:
        if t in opset and cur:
            ops.append(cur)
            cur = []
        cur.append(t)
    if cur:
        ops.append(cur)
    return head, ops


def driver_stream_of(case):
    k = case.split(" ", 1)[0]
    return {"E": "strslices", "K": "strslices", "S": "strslices", "N": "otheridx", "X": "otheridx"}.get(k, "strtree")


def disagrees(exe, case):
    p = os.path.join(verif.BUILD, "work", "c15-shrink-%d.txt" % os.getpid())
    os.makedirs(os.path.dirname(p), exist_ok=True)
    with open(p, "w") as f:
        f.write(case + "\n")
    rc, out = verif.sh([exe, "replay", p], timeout=60)
    impl = out.strip().split("\n")[-1] if out.strip() else ""
    rc2, lines = verif.run_driver_lines(driver_stream_of(case), [case])
    model = lines[0] if lines else ""
    return (rc != 0 or impl != model), impl, model


def crashing_case(exe, stream, seed, n, shards):
    """the harness died on this stream: re-run its shards one by one with C15_ECHO=1 (every case line is printed to stderr
    before it is executed); the last line echoed by the shard that dies is the failing input"""
    for k in range(shards):
        base = os.path.join(verif.BUILD, "work", "c15-crash-%d" % os.getpid())
        os.makedirs(os.path.dirname(base), exist_ok=True)
        env = dict(os.environ, C15_ECHO="1")
        rc, out = verif.sh([exe, stream, str(seed * 1000003 + k), str(max(1, n // shards)), base], timeout=600, env=env)
        if rc != 0:
            lines = [l for l in out.split("\n") if l[:2] in ("H ", "HX", "K ", "N ") or l == "K"]
            return (lines[-1] if lines else None), rc
    return None, 0


def shrink(exe, case):
    head, ops = parse_ops(case)
    changed = True
    while changed and len(ops) > 1:
        changed = False
        for i in range(len(ops) - 1, -1, -1):
            cand = ops[:i] + ops[i + 1:]
            c = " ".join(head + [t for o in cand for t in o])
            d, _, _ = disagrees(exe, c)
            if d:
                ops = cand
                changed = True
    c = " ".join(head + [t for o in ops for t in o])
    d, impl, model = disagrees(exe, c)
    return c, impl, model


def signature(case, impl, model):
    kind, a, b = classify(impl, model)
    head, ops = parse_ops(case)
    n_ins = sum(1 for o in ops if o[0] == "I")
    had_remove = any(o[0] == "R" for o in ops)
    if head[0] == "N":
        return {"stream": "quadnode", "api": "Quadtree" if head[1] == "f" else "Root", "op": kind, "after_remove": had_remove}
    return {"stream": "strtree" if head[0] == "H" else "strcxx", "op": kind, "single_item": n_ins == 1, "after_remove": had_remove}


def iter_signature(case):
    """striter: the longest run of removed leaves adjacent in storage order, and whether every leaf is removed"""
    run = best = 0
    leaves = case.split()[1:]
    for t in leaves:
        run = run + 1 if t.endswith("*") else 0
        best = max(best, run)
    return {"stream": "striter", "removed_run": "0" if best == 0 else "1" if best == 1 else ">=2",
            "all_removed": bool(leaves) and all(t.endswith("*") for t in leaves)}


def run(ctx):
    ctx.base_trust([
        "C15 model (lean/GeosModel/Model/Index/STR.lean) is hand-written from TemplateSTRtree.h; std::sort is abstracted as 'some permutation'; its envelope operations, node flags, null-envelope test of insert and slice arithmetic are proved equal to definitions regenerated from the C++ on every run (translate/cxx2lean.py + specs/strtree.py + t4ext.py — trusted: the translator's reading of the C++ fragment; templates read at BoundsTraits = EnvelopeTraits); the loops of query / remove / build / treeSize / nearest are outside the translator's fragment and tied by correspondence only",
        "slice arithmetic: the bridge assumes ceil((double)a/(double)b) and ceil(sqrt((double)m)) exact (ExactCeil); for IEEE doubles this is sampled by stream strslices, not proved",
        "doubles are compared through an order-preserving integer key (Driver.f64Key); NaN ordinates excluded (null envelope = none)",
        "other indexes (SimpleSTRtree, legacy STRtree, SIRtree, SortedPackedIntervalRTree, Quadtree, KdTree, HotPixelIndex) are specified by the brute-force filter and tied by correspondence only (stream otheridx); MonotoneChain overlap search is not covered",
        "quadtree model (lean/GeosModel/Model/Index/Quad.lean) is hand-written from NodeBase/Node/Root/Key/Quadtree; exact for integer ordinates (scaled by 4), IntervalSize::isZeroWidth read as min == max, frexp as the least power of two above the extent, Quadtree::minExtent = 1.0; tied by the in-order stream quadnode only; its removal / pruning / query-subset theorems are proved, 'insert places the item where every intersecting query reaches it' is not",
        "TemplateSTRtreeImpl::Iterator is hand-modelled (skipDeleted / itNext / itDeref / itemsLoop) and tied by the in-order stream striter and by the J operation of stream strcxx",
    ])
    # translator tie: Generated/STRtree.lean is rewritten from Envelope.h / Envelope.cpp / TemplateSTRNode.h / TemplateSTRtree.h and
    # proved equal (through the representations of Model/Index/Rep.lean) to the model functions the theorems rest on
    proved = ctx.prove_generated([("strtree", "GeosModel/Generated/STRtree.lean", "GeosModel.Props.C15Gen")], PROPS)
    ok, out = verif.build_geos("rel")
    if not ok:
        ctx.violation("GEOS does not build with -DGEOS_VERIF", {"kind": "build-failure", "log": out[-3000:]}, nofail=True)
        return
    exe, out = verif.build_harness("c15")
    if not exe:
        ctx.violation("harness c15 does not compile against the current tree", {"kind": "tie-broken", "correspondence": "harness/c15.cpp", "log": out[-3000:]}, nofail=True)
        return
    quick = ctx.tier == "quick"
    n_hist = 10000 if quick else 1500000
    n_sl = 20000 if quick else 4000000
    corr = {}
    found_input = False
    # geosdrv's stream table is shared and fixed: the driver answers `E …` and `K …` lines in its `strslices` handler, `HX …` lines
    # in `strtree`, `N …` lines in `otheridx`
    dstream = {"envpreds": "strslices", "striter": "strslices", "strcxx": "strtree", "quadnode": "otheridx"}
    for stream, n in (("strtree", n_hist), ("strcxx", n_hist), ("striter", 40000 if quick else 2000000), ("strslices", n_sl),
                      ("envpreds", 40000 if quick else 4000000), ("otheridx", 30000 if quick else 6000000),
                      ("quadnode", 40000 if quick else 1500000)):
        shards = min(verif.NPROC, 8)
        r = verif.run_stream(exe, stream, ctx.seed, n, ctx.work, shards=shards, driver_stream=dstream.get(stream))
        corr[stream] = {"cases": r["cases"], "disagreements": len(r["disagreements"]) + r.get("more_disagreements", 0),
                        "distribution": r["stats"]}
        ctx.cov["samples"] += r.get("samples", [])[:2]
        if r["error"]:
            m_rc = re.search(r"harness exit (-?\d+)", r["error"])
            h_rc = int(m_rc.group(1)) if m_rc else 0
            # died on a signal (negative), by abort()/assert (134) or exit(1): the library under the harness failed on an input.
            # 126 / 127 (the loader could not start the executable, e.g. the shared library is being relinked) is not a failing input.
            if h_rc < 0 or h_rc in (1, 134, 139):
                # the harness (i.e. the library under it) crashed: the failing input is the one this seed generates
                found_input = True
                case, crc = (None, 0)
                if stream in ("strtree", "strcxx", "striter", "quadnode"):
                    case, crc = crashing_case(exe, stream, ctx.seed, n, shards)
                ctx.violation("index code crashed while running stream %s (seed %d): %s%s" % (stream, ctx.seed, r["error"][:300],
                                                                                           ("  failing input: " + case[:400]) if case else ""),
                              {"kind": "failing-input", "stream": stream, "seed": ctx.seed, "n": n, "case": case,
                               "replay_cmd": ("%s replay <file with case line>" % exe) if case else
                                             "%s %s <seed*1000003+shard> %d /tmp/out" % (exe, stream, n // 8), "detail": r["error"][-1500:]},
                              signature={"stream": stream, "op": "crash"})
            else:
                ctx.violation("correspondence stream %s could not run: %s" % (stream, r["error"]),
                              {"kind": "tie-broken", "correspondence": stream, "detail": r["error"]}, nofail=True)
            continue
        seen_sigs = []
        for idx, case, exp, got in r["disagreements"]:
            if stream == "striter":
                sig = iter_signature(case)
                if sig in seen_sigs:
                    continue
                seen_sigs.append(sig)
                found_input = True
                ctx.violation("TemplateSTRtree::items(): the iterator does not visit exactly the live leaves of the leaf array "
                              "(`id*` = removed, storage order): %s  visited: %s  live: %s" % (case[:300], exp[:200], got[:200]),
                              {"kind": "failing-input", "stream": stream, "case": case, "impl": exp, "spec": got, "signature": sig,
                               "replay_cmd": "%s replay <file with case line>" % exe}, signature=sig)
            elif stream in ("strtree", "strcxx", "quadnode"):
                sig0 = signature(case, exp, got)
                if sig0 in seen_sigs:
                    continue
                c2, impl, model = shrink(exe, case)
                sig = signature(c2, impl, model)
                if sig in seen_sigs:
                    continue
                seen_sigs.append(sig)
                seen_sigs.append(sig0)
                found_input = True
                what = ("quadtree history: implementation output differs from the model of quadtree::Root / Quadtree"
                        if stream == "quadnode" else "STRtree history: implementation output differs from the live-multiset specification")
                ctx.violation("%s (%s)" % (what, json.dumps(sig)),
                              {"kind": "failing-input", "stream": stream, "case": c2, "impl": impl, "spec": model,
                               "replay_cmd": "%s replay <file with case line>" % exe, "signature": sig}, signature=sig)
            elif stream == "envpreds":
                # exp = implementation, got = model: name the first group (null/int/cov/pt/exp/leaf/rm/par) that differs
                grp = next((a.split("=")[0] for a, b in zip(exp.split(), got.split()) if a != b), "len")
                sig = {"stream": "envpreds", "group": grp}
                if sig in seen_sigs:
                    continue
                seen_sigs.append(sig)
                found_input = True
                what = {"null": "Envelope::isNull", "int": "Envelope::intersects / disjoint / EnvelopeTraits::intersects", "cov": "Envelope::covers / contains",
                        "pt": "Envelope point predicates (covers/contains/intersects(x,y))", "exp": "Envelope::expandToInclude",
                        "leaf": "TemplateSTRNode flags of a leaf (isLeaf/isDeleted/isComposite/boundsIntersect)",
                        "rm": "TemplateSTRNode::removeItem / flags of a removed leaf",
                        "par": "TemplateSTRNode flags / bounds of a composite node"}.get(grp, grp)
                ctx.violation("%s differs from the specification on envelope pair: %s  impl: %s  spec: %s" % (what, case, exp, got),
                              {"kind": "failing-input", "stream": stream, "case": case, "impl": exp, "spec": got, "signature": sig,
                               "replay_cmd": "%s replay <file with case line>" % exe}, signature=sig)
            elif stream == "otheridx":
                kind = case.split()[1] if len(case.split()) > 1 else "?"
                gt = got.split()
                sig = {"stream": "otheridx", "index": kind, "what": "remove" if gt[1:2] == ["remove"] else gt[2] if len(gt) > 2 else got}
                if sig in seen_sigs:
                    continue
                seen_sigs.append(sig)
                found_input = True
                ctx.violation("index %s: query/remove result differs from the brute-force filter: %s" % (kind, got[:200]),
                              {"kind": "failing-input", "stream": stream, "case": case, "verdict": got, "signature": sig}, signature=sig)
            else:
                if "slices" in seen_sigs:
                    continue
                seen_sigs.append("slices")
                # arithmetic differs: is it harmful?  harmful iff slices*capacity < n (items dropped) ; report either way
                ctx.violation("sliceCount/sliceCapacity/treeSize differ from the exact ceilings: case %s impl %s model %s" % (case, exp, got),
                              {"kind": "failing-input", "stream": stream, "case": case, "impl": exp, "model": got}, nofail=False)
                found_input = True
    ctx.cov["support_correspondence"] = corr
    if not proved:
        lf = getattr(ctx, "lean_failure", None) or {}
        if not found_input:
            ctx.violation("Lean obligations for C15 no longer check: " + "; ".join(str(i) for i in lf.get("items", [])[:5]),
                          {"kind": "proof-broken", "lean": lf}, nofail=True)
        else:
            ctx.violation("Lean obligations for C15 no longer check (a failing input was also found)", {"kind": "proof-broken", "lean": lf}, nofail=True)


def replay(ctx, path):
    r = json.load(open(path))
    ok, out = verif.build_geos("rel")
    exe, out = verif.build_harness("c15")
    verif.lake_build(["geosdrv"])
    d, impl, model = disagrees(exe, r["case"])
    print("case :", r["case"])
    print("impl :", impl)
    print("spec :", model)
    if d:
        print("VIOLATION property=C15 replay=%s" % path)
        return 1
    return 0
