"""C09 — WKB and HEX writing followed by reading is the identity, bit for bit.

proof : lean/GeosModel/Props/C09.lean — `read (write c g) = ok (canon c g)` for every well-formed tree and every
        writer configuration (mutual structural induction, no size/depth bound), `canon = docSpec` (the property's own
        promise) on plain inputs, lower dimension = dropping, byte orders agree, HEX = binary, re-writing reproduces the
        bytes; and the *negations* where the code deviates (C09_full_false, rewrite_fixpoint_needs_hyp,
        compound_empty_section_unreadable), each with a concrete witness replayed here on the implementation.
tie   : byte-exact correspondence against the library built from the current tree (harness/c09.cpp):
          wkb-write            GEOS' bytes (writer object + legacy context functions, binary + HEX) == model `write`
          wkb-write-seq        one REUSED writer object: two geometries in a row + settings read back == model (write is a
                               function of settings and geometry only; no state leaks from one write into the next)
          wkb-read             GEOS' accept/reject + decoded tree (reader object + legacy, binary + HEX) == model `read`
          wkb-roundtrip-model  GEOS' own write->read->rewrite == model `read (write …)` (plain + mixed + special shapes)
        and the property-level oracle
          wkb-roundtrip[-mixed] GEOS' own write->read result vs `docSpec` = what the property's sentence promises.
A disagreement in the oracle streams is a concrete input on which the implementation breaks the property: it is
shrunk, classified (which undocumented normalisation it triggers) and reported with a signature.  A disagreement in a
correspondence stream makes the check search the oracle streams with a larger budget; if no failing input is found
the tie itself is reported as broken (no-failing-input-found)."""
import os, json
import verif
from verif import log

LEVEL = "proof"
PROPS = ["GeosModel.Props.C09"]
DRV = "drv_c09"
COLL = ("GC", "MP", "ML", "MY", "MC", "MS", "K", "U")
SEQ = ("P", "L", "R", "C")

# witnesses of the negative theorems of Props/C09.lean, as roundtrip cases: (theorem, case, expected effect on GEOS)
WITNESSES = [
    ("C09_full_false",
     "4 le ext 0 0 Y 2 xyz 4 0000000000000000 0000000000000000 4014000000000000 3ff0000000000000 0000000000000000 4014000000000000 "
     "0000000000000000 3ff0000000000000 4014000000000000 0000000000000000 0000000000000000 4014000000000000 "
     "xy 4 0000000000000000 0000000000000000 3fe0000000000000 0000000000000000 0000000000000000 3fe0000000000000 0000000000000000 0000000000000000",
     "tree-differs"),
    ("rewrite_fixpoint_needs_hyp", "4 le ext 0 0 P xyz 1 7ff8000000000000 7ff8000000000000 4014000000000000", "rewrite-differs"),
]
# positive theorems with a concrete instance, replayed as well: (theorem, stream, case) must agree with the model
POSITIVE = [
    ("compound_empty_section_roundtrip", "wkb-roundtrip", "4 le ext 0 0 K 1 L xy 0"),
    ("C11.empty_section_rejected", "wkb-read",
     "B 010900000002000000010200000000000000010200000002000000" + "00" * 32),
]


# ------------------------------------------------------------------ token trees (for shrinking)
def parse_seq(t, p):
    fl, n = t[p], int(t[p + 1])
    w = 2 + ("z" in fl) + ("m" in fl)
    q = p + 2 + n * w
    return t[p:q], q


def parse_g(t, p):
    tag = t[p]
    if tag in SEQ:
        s, q = parse_seq(t, p + 1)
        return (tag, [s]), q
    k = int(t[p + 1])
    q = p + 2
    kids = []
    for _ in range(k):
        if tag == "Y":
            s, q = parse_seq(t, q)
            kids.append(s)
        else:
            g, q = parse_g(t, q)
            kids.append(g)
    return (tag, kids), q


def show_g(g):
    tag, kids = g
    if tag in SEQ:
        return [tag] + kids[0]
    out = [tag, str(len(kids))]
    for k in kids:
        out += k if tag == "Y" else show_g(k)
    return out


def split_case(case):
    t = case.split()
    cfg, srid = t[:4], t[4]
    g, _ = parse_g(t, 5)
    return cfg, srid, g


def join_case(cfg, srid, g):
    return " ".join(cfg + [srid] + show_g(g))


def candidates(g):
    """smaller trees: a child promoted to the root, or one child removed"""
    tag, kids = g
    out = []
    if tag in COLL:
        for k in kids:
            out.append(k)
        for i in range(len(kids)):
            if len(kids) > 1 and not (tag in ("K",) and 0 < i < len(kids) - 1):
                out.append((tag, kids[:i] + kids[i + 1:]))
        for i, k in enumerate(kids):
            for c in candidates(k):
                if c[0] in SEQ + COLL + ("Y",) and tag == "GC":
                    out.append((tag, kids[:i] + [c] + kids[i + 1:]))
    elif tag == "Y" and len(kids) > 2:
        for i in range(1, len(kids)):
            out.append((tag, kids[:i] + kids[i + 1:]))
    return out


# ------------------------------------------------------------------ evaluation helpers
def harness_eval(exe, stream, cases):
    p = os.path.join(verif.BUILD, "work", "c09-replay-%d.txt" % os.getpid())
    os.makedirs(os.path.dirname(p), exist_ok=True)
    with open(p, "w") as f:
        for c in cases:
            f.write(stream + " " + c + "\n")
    rc, out = verif.sh([exe, "replay", p], timeout=600)
    os.remove(p)
    lines = [l for l in out.split("\n") if l != "" and not l.startswith("WARNING")]
    if rc != 0 or len(lines) != len(cases):
        return None
    return lines


def driver_eval(stream, cases):
    rc, lines = verif.run_driver_lines(stream, cases, driver_exe=DRV)
    while lines and lines[-1] == "":
        lines.pop()
    return lines if rc == 0 and len(lines) == len(cases) else None


def effect_of(impl, spec):
    if impl.startswith("crash"):
        return "crash"
    if impl == "err" or impl.startswith("err"):
        return "read-err"
    tree = impl
    for suf in (" REWRITE-DIFFERS", " REWRITE-FAILED", " OTHER-ORDER-DIFFERS", " OTHER-ORDER-WRITE-FAILED"):
        if impl.endswith(suf):
            tree = impl[: -len(suf)]
            if tree == spec:
                return suf.strip().lower().replace("rewrite-failed", "rewrite-differs")
    return "tree-differs"


def oracle_disagrees(exe, case):
    """does GEOS' own write->read differ from what the property promises (docSpec) on this case?"""
    i = harness_eval(exe, "wkb-roundtrip", [case])
    s = driver_eval("wkb-roundtrip", [case])
    if i is None or s is None:
        return False, "", ""
    return i[0] != s[0] and i[0] != "reject", i[0], s[0]


def shrink(exe, case, want_effect):
    try:
        cfg, srid, g = split_case(case)
    except Exception:
        return case
    best = g
    changed = True
    rounds = 0
    while changed and rounds < 40:
        changed = False
        rounds += 1
        for cand in candidates(best):
            c = join_case(cfg, srid, cand)
            d, impl, spec = oracle_disagrees(exe, c)
            if d and effect_of(impl, spec) == want_effect:
                best = cand
                changed = True
                break
    for s2 in ("0",):
        c = join_case(cfg, s2, best)
        d, impl, spec = oracle_disagrees(exe, c)
        if d and effect_of(impl, spec) == want_effect:
            srid = s2
    return join_case(cfg, srid, best)


def all_disagreements(work, stream):
    """(case, expect, got) for every disagreeing line of every shard (run_stream keeps only the first 50)"""
    out = []
    k = 0
    while os.path.exists(os.path.join(work, "%s.%d.cases" % (stream, k))):
        b = os.path.join(work, "%s.%d" % (stream, k))
        try:
            cs = open(b + ".cases").read().split("\n")
            ex = open(b + ".expect").read().split("\n")
            gt = open(b + ".got").read().split("\n")
            for c, e, g in zip(cs, ex, gt):
                if c and e != g:
                    out.append((c, e, g))
        except OSError:
            pass
        k += 1
    return out


def report_oracle(ctx, exe, stream, dis, seen):
    """group property-level disagreements by (classes, effect); shrink one representative each; report."""
    if not dis:
        return 0
    cls = driver_eval("wkb-classify", [c for c, _, _ in dis]) or ["?"] * len(dis)
    groups = {}
    for (c, e, g), k in zip(dis, cls):
        key = (k, effect_of(e, g))
        if key not in groups or len(c) < len(groups[key][0]):
            groups[key] = (c, e, g)
    n = 0
    for (k, eff), (c, e, g) in sorted(groups.items(), key=lambda kv: len(kv[1][0])):
        c2 = shrink(exe, c, eff)
        d, impl, spec = oracle_disagrees(exe, c2)
        if not d:
            c2, impl, spec = c, e, g
        k2 = (driver_eval("wkb-classify", [c2]) or ["?"])[0]
        model = (driver_eval("wkb-roundtrip-model", [c2]) or ["?"])[0]
        sig = {"stream": "wkb-roundtrip", "class": k2, "effect": effect_of(impl, spec)}
        key = json.dumps(sig, sort_keys=True)
        if key in seen:
            continue
        seen.add(key)
        n += 1 if ctx.violation("WKB round trip in GEOS itself differs from the property's promise: %s (%s)" % (sig["class"], sig["effect"]),
                      {"kind": "failing-input", "stream": stream, "case": c2, "impl_roundtrip": impl, "property_promises": spec,
                       "model_predicts": model, "explained_by_model": model == impl,
                       "replay_cmd": "%s replay <file with line 'wkb-roundtrip %s'>" % (exe, c2[:60] + ("…" if len(c2) > 60 else "")),
                       "signature": sig}, signature=sig) else 0
    return n


def run(ctx):
    ctx.base_trust([
        "C09 model (lean/GeosModel/Model/WKB/*.lean) is hand-written from WKBWriter.cpp / WKBReader.cpp / ByteOrderValues.cpp / "
        "ByteOrderDataInStream.h and the geometry constructors' validateConstruction; its stream / loop / constructor structure is tied by "
        "byte-exact correspondence only; its word-level decisions (type code, type word of both flavours, SRID rule, output ordinates, "
        "decoding of the type word, reader dispatch, minMemSize units) are regenerated from the source by translate/cxx2lean.py on every "
        "run and proved equal to the model's (Props/C09Gen.lean)",
        "translator (translate/cxx2lean.py + translate/cxx_ext.py, spec wkb_words): the C++ fragment semantics it implements (int = Int "
        "without overflow, uint32_t/uint64_t = Nat, `|`/`&` on int = 32-bit two's complement, io::OrdinateSet as the pair (hasZ, hasM), "
        "writeInt(v) = append v to the word list, `#if DEBUG_*` blocks inactive); that readGeometry reads the SRID word exactly when "
        "hasSRID is checked textually by the spec's prepare()",
        "GTree abstraction: one SRID per top-level geometry (SRIDs of curve-polygon rings / compound sections not represented); every "
        "empty curve polygon is one token 'U 0' (its Z/M flags and shell type are not compared); hasZ/hasM as reported by the sequences "
        "(sequences created with explicit dimension flags)",
        "PrecisionModel is floating (makePrecise = identity); byte order arguments are 0 or 1; element counts < 2^32 (hypothesis Fits)",
        "the CircularString constructor's arc-envelope computation (CircularArcs::expandEnvelope: floating-point circum-centre, "
        "Orientation::index, Quadrant::quadrant) throws for some coordinate values; the model takes this as an oracle over the X/Y bit "
        "patterns (theorems hold for every oracle); the driver's oracle is a Lean Float transcription of the C++ (assumes IEEE binary64 "
        "without FMA contraction), compared on targeted mutations of arc coordinates in wkb-read",
        "a SIGSEGV/SIGBUS inside the library is caught by the harness and reported as result 'crash', which the model never predicts",
    ])
    # translator tie: the word-level decisions of WKBWriter / WKBReader are regenerated from the current source and proved equal
    # to the pieces of the hand-written model (Props/C09Gen.lean); the byte-exact streams below exercise the same functions
    proved = ctx.prove_generated([("wkb_words", "GeosModel/Generated/WkbWords.lean", "GeosModel.Props.C09Gen")], PROPS, extra_targets=(DRV,))
    ok, out = verif.build_geos("rel")
    if not ok:
        ctx.violation("GEOS does not build with -DGEOS_VERIF", {"kind": "build-failure", "log": out[-3000:]}, nofail=True)
        return
    exe, out = verif.build_harness("c09")
    if not exe:
        ctx.violation("harness c09 does not compile against the current tree",
                      {"kind": "tie-broken", "correspondence": "harness/c09.cpp", "log": out[-3000:]}, nofail=True)
        return
    if not os.path.exists(verif.driver_path(DRV)):
        ctx.violation("driver drv_c09 was not built", {"kind": "tie-broken", "lean": getattr(ctx, "lean_failure", None)}, nofail=True)
        return
    quick = ctx.tier == "quick"
    shards = min(verif.NPROC, 8)
    plan = [  # (harness stream, driver stream, n, role)
        ("wkb-write", "wkb-write", 1500 if quick else 25000, "corr"),
        ("wkb-write-seq", "wkb-write-seq", 12000 if quick else 200000, "corr"),
        ("wkb-read", "wkb-read", 250000 if quick else 4000000, "corr"),
        ("wkb-roundtrip-mixed", "wkb-roundtrip-model", 20000 if quick else 350000, "corr"),
        ("wkb-roundtrip", "wkb-roundtrip", 30000 if quick else 550000, "oracle"),
        ("wkb-roundtrip-mixed", "wkb-roundtrip", 15000 if quick else 250000, "oracle"),
    ]
    corr = {}
    seen = set()
    found_input = 0
    broken = []
    for hs, ds, n, role in plan:
        name = hs + (">docSpec" if role == "oracle" else ("" if ds == hs else ">" + ds))
        r = verif.run_stream(exe, hs, ctx.seed + (7 if role == "oracle" else 0), n, ctx.work, shards=shards, driver_exe=DRV, driver_stream=ds)
        ndis = len(r["disagreements"]) + r.get("more_disagreements", 0)
        corr[name] = {"cases": r["cases"], "disagreements": ndis, "role": role, "distribution": r["stats"]}
        ctx.cov["samples"] += r.get("samples", [])[:1]
        if r["error"]:
            ctx.violation("stream %s could not run: %s" % (name, r["error"]),
                          {"kind": "tie-broken", "correspondence": name, "detail": r["error"]}, nofail=True)
            broken.append(name)
            continue
        if role == "oracle":
            dis = all_disagreements(ctx.work, hs)
            found_input += report_oracle(ctx, exe, hs, dis, seen)
        elif ndis:
            broken.append((name, r["disagreements"][:5]))
    ctx.cov["support_correspondence"] = corr

    # witnesses of the negative theorems, replayed on the implementation
    wit = []
    impl = harness_eval(exe, "wkb-roundtrip", [w[1] for w in WITNESSES]) or ["?"] * len(WITNESSES)
    spec = driver_eval("wkb-roundtrip", [w[1] for w in WITNESSES]) or ["?"] * len(WITNESSES)
    model = driver_eval("wkb-roundtrip-model", [w[1] for w in WITNESSES]) or ["?"] * len(WITNESSES)
    for (thm, case, eff), i, s, m in zip(WITNESSES, impl, spec, model):
        shown = (i != s) and effect_of(i, s) == eff
        wit.append({"theorem": thm, "case": case, "impl": i, "promise": s, "model": m, "deviation_reproduced_on_impl": shown})
        if shown:
            found_input += report_oracle(ctx, exe, "witness:" + thm, [(case, i, s)], seen)
        elif i != m:
            broken.append(("witness " + thm, [(0, case, i, m)]))
    ctx.cov["negative_theorem_witnesses"] = wit
    pos = []
    for thm, st, case in POSITIVE:
        i = (harness_eval(exe, st, [case]) or ["?"])[0]
        m = (driver_eval("wkb-roundtrip-model" if st == "wkb-roundtrip" else st, [case]) or ["?"])[0]
        pos.append({"theorem": thm, "case": case, "impl": i, "model": m, "agree": i == m})
        if i != m:
            broken.append(("instance of " + thm + " (" + st + ")", [(0, case, i, m)]))
    ctx.cov["positive_theorem_instances"] = pos

    # a correspondence stream disagrees: model and code differ somewhere.  The oracle streams above already searched for an
    # input on which the *property* fails; try the disagreeing inputs themselves, then report the broken tie.
    for item in broken:
        if isinstance(item, str):
            continue
        name, ds = item
        extra = 0
        if name == "wkb-write-seq":
            # the model's `write` is a function of (settings, geometry): a reused writer whose second output or whose settings
            # differ has state that leaks from one write into the next - the sequence is the failing input (the second geometry
            # no longer round-trips under the settings the caller selected)
            idx, case, exp, got = ds[0]
            sig = {"stream": name, "effect": "writer-state-depends-on-history"}
            if ctx.violation("a reused WKBWriter gives different bytes / settings after writing another geometry first: impl=%s model=%s" % (exp[-60:], got[-60:]),
                             {"kind": "failing-input", "stream": name, "case": case, "impl": exp, "model": got,
                              "replay_cmd": "%s replay <file with line 'wkb-write-seq <case>'>" % exe, "signature": sig}, signature=sig):
                found_input += 1
            continue
        for idx, case, exp, got in ds:
            toks = case.split()
            rt = None
            if name.startswith("wkb-write") and len(toks) > 5:
                rt = " ".join(toks[1:])
            elif name.startswith("wkb-roundtrip"):
                rt = case
            if rt:
                d, i, s = oracle_disagrees(exe, rt)
                if d:
                    extra += report_oracle(ctx, exe, name, [(rt, i, s)], seen)
        found_input += extra
        crashes = [d for d in ds if d[2].startswith("crash")]
        for idx, case, exp, got in crashes[:1]:
            sig = {"stream": name.split(">")[0], "effect": "crash"}
            if ctx.violation("the library crashes (SIGSEGV) on this input (%s)" % name,
                             {"kind": "failing-input", "stream": name, "case": case, "impl": exp, "model": got, "signature": sig},
                             signature=sig):
                extra += 1
                found_input += 1
        idx, case, exp, got = ds[0]
        ctx.violation("correspondence stream %s: implementation and model disagree (%d shown); first: impl=%s model=%s" %
                      (name, len(ds), exp[:120], got[:120]),
                      {"kind": "tie-broken", "correspondence": name, "case": case, "impl": exp, "model": got,
                       "replay_cmd": "%s replay <file with line '%s <case>'>" % (exe, name.split(">")[0]),
                       "failing_input_for_property_found": bool(extra or found_input)},
                      nofail=not (extra or found_input))
    if not proved:
        lf = getattr(ctx, "lean_failure", None) or {}
        ctx.violation("Lean obligations for C09 no longer check: " + "; ".join(str(i) for i in lf.get("items", [])[:5]),
                      {"kind": "proof-broken", "lean": lf}, nofail=not found_input)


def replay(ctx, path):
    r = json.load(open(path))
    ok, out = verif.build_geos("rel")
    exe, out = verif.build_harness("c09")
    verif.lake_build([DRV])
    if not exe:
        print("harness does not build")
        return 1
    case = r.get("case")
    if not case:
        print("replay file has no case (kind=%s): %s" % (r.get("kind"), r.get("what")))
        return 1
    stream = (r.get("correspondence") or r.get("stream") or "wkb-roundtrip").split(">")[0]
    is_crash = (r.get("signature") or {}).get("effect") == "crash" and not stream.startswith("wkb-roundtrip")
    if (r.get("kind") == "failing-input" and not is_crash) or stream.startswith("witness"):
        d, impl, spec = oracle_disagrees(exe, case)
        print("case     :", case)
        print("impl     :", impl)
        print("promised :", spec)
        if d:
            print("VIOLATION property=C09 replay=%s" % path)
            return 1
        return 0
    for pre in ("instance of", "witness"):
        if stream.startswith(pre):
            stream = "wkb-read" if "(wkb-read)" in stream else "wkb-roundtrip"
    dstream = {"wkb-write": "wkb-write", "wkb-read": "wkb-read", "wkb-write-seq": "wkb-write-seq"}.get(stream, "wkb-roundtrip-model")
    hstream = stream if stream in ("wkb-write", "wkb-read", "wkb-write-seq") else "wkb-roundtrip"
    i = harness_eval(exe, hstream, [case])
    m = driver_eval(dstream, [case])
    print("case  :", case)
    print("impl  :", i and i[0])
    print("model :", m and m[0])
    if not i or not m or i[0] != m[0]:
        print("VIOLATION property=C09 replay=%s no-failing-input-found" % path)
        return 1
    return 0
