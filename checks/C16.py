"""C16 — triangulations tile exactly the right region and are Delaunay.

proof   : lean/GeosModel/Props/C16.lean — theorems about the exact certificate checkers of
          lean/GeosModel/Model/Tri/Check.lean (inCircle_sign, checker_sound, cdt_checker_sound,
          voronoi_checker_sound, edge_pairing_area, separated_no_common_interior,
          edge_pairing_area_cover_partial).
tie     : correspondence — harness/c16.cpp runs GEOSDelaunayTriangulation_r / GEOSConstrainedDelaunayTriangulation_r /
          GEOSVoronoiDiagram_r on generated grid inputs and ships input bits + output bits; the Lean driver
          drv_c16 runs the proved-sound checkers on them.  The expectation is `ok` on every line.
Because the checker evaluates the property's own conditions exactly, any `FAIL` line is a concrete failing
input for the property (not a model mismatch).
translator: translate/specs/tri_predicates.py regenerates TrianglePredicate / Vertex / TriDelaunayImprover decision functions into
          lean/GeosModel/Generated/TriPredicates.lean on every run; lean/GeosModel/Props/C16Gen.lean proves them equal to
          Kernel.det / Tri.inCircleLoc / Tri.robustInCircleLoc / Tri.flipInCircle / Tri.improverDelaunay; stream `predicates`
          calls the same C++ functions on small-integer quadruples (exact double arithmetic) against those models."""
import os, json, math, re
import verif
from verif import log

LEVEL = "proof"
PROPS = ["GeosModel.Props.C16"]
DRV = "drv_c16"


# ----------------------------------------------------------------------------- case-line plumbing

def hexd(x):
    import struct
    return "%016x" % struct.unpack("<Q", struct.pack("<d", x))[0]


def unhex(h):
    import struct
    return struct.unpack("<d", struct.pack("<Q", int(h, 16)))[0]


def parse_sites_case(case):
    """'D tol 0 MP n P xy 1 x y ...' or 'V tol flags (N|B ....) 0 MP n ...' -> (head tokens, [(x,y) hex], tail-less)"""
    tk = case.split()
    i = tk.index("MP")
    n = int(tk[i + 1])
    pts = []
    p = i + 2
    for _ in range(n):
        assert tk[p] == "P" and tk[p + 1] == "xy" and tk[p + 2] == "1"
        pts.append((tk[p + 3], tk[p + 4]))
        p += 5
    return tk[:i], pts


def sites_case(head, pts):
    return " ".join(head + ["MP", str(len(pts))] + ["P xy 1 %s %s" % p for p in pts])


def rerun(exe, work, lines, stream):
    """run the implementation again on the input part of each line; then the checker. Returns [(caseline, verdict)]"""
    if not lines:
        return []
    p = os.path.join(work, "rerun-%d.txt" % os.getpid())
    with open(p, "w") as f:
        f.write("\n".join(lines) + "\n")
    rc, out = verif.sh([exe, "replay", p], timeout=600)
    fresh = [l for l in out.split("\n") if l.strip()]
    if rc != 0 or len(fresh) != len(lines):
        return [(l, "harness-error") for l in lines]
    rc2, got = verif.run_driver_lines(stream, fresh, driver_exe=DRV)
    got = [g for g in got if g != ""]
    if len(got) != len(fresh):
        return [(l, "driver-error") for l in fresh]
    return list(zip(fresh, got))


def clause(verdict):
    t = verdict.split()
    return t[1] if len(t) > 1 and t[0] == "FAIL" else verdict


def shrink_sites(exe, work, case, stream, want_clause):
    """remove sites while the same clause keeps failing (chunks, then single sites)"""
    try:
        head, pts = parse_sites_case(case)
    except Exception:
        return case
    # inputs only (outputs are recomputed by `replay`): keep a syntactically complete line
    def mk(ps):
        if stream == "delaunay":
            return sites_case(head, ps) + " T ERR E ERR"
        return sites_case(head, ps) + " O ERR"
    chunk = max(1, len(pts) // 2)
    rounds = 0
    while chunk >= 1 and len(pts) > 1 and rounds < 60:
        rounds += 1
        cands = []
        for s in range(0, len(pts), chunk):
            c = pts[:s] + pts[s + chunk:]
            if c:
                cands.append(c)
        res = rerun(exe, work, [mk(c) for c in cands[:300]], stream)
        hit = None
        for c, (_, v) in zip(cands, res):
            if clause(v) == want_clause:
                hit = c
                break
        if hit is not None:
            pts = hit
            chunk = min(chunk, max(1, len(pts) // 2))
        else:
            if chunk == 1:
                break
            chunk = chunk // 2
    res = rerun(exe, work, [mk(pts)], stream)
    return res[0][0] if res and clause(res[0][1]) == want_clause else case


def wkt_of_case(case):
    """WKT of the input of a `C …` line when every ordinate prints exactly as an integer (small cases), else None"""
    try:
        import gtok
        w = gtok.wkt(case.split(" T ")[0].split(" ", 1)[1])
        return w if len(w) < 1500 else None
    except Exception:
        return None


def coll_member_removals(inp):
    """input tokens of a collection -> the variants with one member of one (nested) collection removed"""
    import copy, gtok
    geom = gtok.parse(inp)
    out = []

    def paths(g, path):
        if g[0] in gtok.COLL and g[0] not in ("K", "U"):
            yield path, g
            for i, e in enumerate(g[1]):
                yield from paths(e, path + [i])
    for path, node in list(paths(geom[1], [])):
        for i in range(len(node[1])):
            g2 = copy.deepcopy(geom)
            n = g2[1]
            for j in path:
                n = n[1][j]
            n[1].pop(i)
            out.append(gtok.show(g2))
    return out


def shrink_coll(exe, work, case, want_clause):
    """drop members of the input collection while the same clause keeps failing"""
    try:
        cur = case.split(" T ")[0].split(" ", 1)[1]
        for _ in range(80):
            cands = coll_member_removals(cur)
            if not cands:
                break
            res = rerun(exe, work, ["C " + c + " T ERR" for c in cands[:120]], "cdt")
            hit = None
            for c, (_, v) in zip(cands, res):
                if clause(v) == want_clause:
                    hit = c
                    break
            if hit is None:
                break
            cur = hit
        rr = rerun(exe, work, ["C " + cur + " T ERR"], "cdt")
        if rr and clause(rr[0][1]) == want_clause:
            return rr[0]
    except Exception:
        pass
    return None


_PT = re.compile(r"\((-?\d+),(-?\d+)\)")


def predicate_class(exe, verdict):
    """for a not-delaunay verdict: does the implementation's own predicate fail to decide the offending site?"""
    m = re.search(r"tri=((?:\(-?\d+,-?\d+\)){3}) site=(\(-?\d+,-?\d+\)) incircle=(-?\d+) unit=2\^(-?\d+)", verdict)
    if not m:
        return None
    tri = [(int(a), int(b)) for a, b in _PT.findall(m.group(1))]
    site = [(int(a), int(b)) for a, b in _PT.findall(m.group(2))][0]
    e0 = int(m.group(4))
    # The implementation evaluates isInCircleRobust(a,b,c,query) for whichever of the four points was inserted last and
    # in whatever corner order the quad-edge walk produced; rounding depends on that order.  The output is attributed to
    # the predicate giving up iff SOME role/order of these four points is answered "undecided" (BOUNDARY) although the
    # exact determinant is non-zero.
    import itertools
    four = tri + [site]
    qlines = []
    for qi in range(4):
        rest = [four[i] for i in range(4) if i != qi]
        for perm in itertools.permutations(rest):
            args = []
            for (x, y) in list(perm) + [four[qi]]:
                args += [hexd(math.ldexp(float(x), e0)), hexd(math.ldexp(float(y), e0))]
            qlines.append(" ".join(args))
    qf = os.path.join(verif.BUILD, "work", "c16-incircle-%d.txt" % os.getpid())
    os.makedirs(os.path.dirname(qf), exist_ok=True)
    with open(qf, "w") as f:
        f.write("\n".join(qlines) + "\n")
    rc, out = verif.sh([exe, "incirclef", qf], timeout=60)
    answers = set()
    for l in out.split():
        try:
            answers.add(int(l))
        except ValueError:
            pass
    answers.discard(-1)
    if not answers:
        return None
    loc = 1 if 1 in answers else sorted(answers)[0]
    return {"impl_predicate": {0: "interior", 1: "undecided", 2: "exterior"}.get(loc, str(loc)), "exact_incircle": m.group(3),
            "max_abs_ordinate_units": max(abs(v) for p in tri + [site] for v in p)}


def signature_for(stream, verdict, exe):
    cl = clause(verdict)
    sig = {"op": stream, "class": cl}
    extra = None
    if stream == "delaunay" and cl == "not-delaunay":
        extra = predicate_class(exe, verdict)
        if extra and extra["impl_predicate"] == "undecided":
            sig = {"op": "delaunay", "class": "non-delaunay-near-cocircular"}
    if stream == "cdt" and cl == "not-constrained-delaunay":
        # the offending pair: t = first triangle, the far corner of the second one
        m = re.search(r"tri=((?:\(-?\d+,-?\d+\)){3}) tri2=((?:\(-?\d+,-?\d+\)){3})(?: component=\d+)? unit=2\^(-?\d+)", verdict)
        if m:
            t = _PT.findall(m.group(1)); u = _PT.findall(m.group(2))
            far = [p for p in u if p not in t]
            if len(far) == 1:
                fake = "tri=%s site=(%s,%s) incircle=1 unit=2^%s" % ("".join("(%s,%s)" % p for p in t), far[0][0], far[0][1], m.group(3))
                extra = predicate_class(exe, fake)
                if extra:
                    extra.pop("exact_incircle", None)
                    if extra["impl_predicate"] == "undecided":
                        sig = {"op": "cdt", "class": "non-delaunay-near-cocircular"}
    return sig, extra


WHAT = {
    "not-delaunay": "Delaunay triangulation output has a site strictly inside a triangle's circumcircle",
    "not-constrained-delaunay": "constrained Delaunay output has a shared edge that is not locally Delaunay",
}


def run(ctx):
    ctx.base_trust([
        "C16 is SPEC+C: the insertion/flip, hole-joining and ear-clipping algorithms are not modelled; the Lean side is an exact certificate checker "
        "(lean/GeosModel/Model/Tri/Check.lean) proved sound w.r.t. the listed clauses; GEOS outputs are checked, not predicted",
        "covering: proved for the Delaunay case for all points in general position (edge_pairing_area_cover); the closure step to points on the "
        "finitely many edge lines, and for polygons with holes the fact 'winding number of the oriented boundary = indicator of the interior' "
        "(hypothesis PolygonWindingIsIndicator of cdt_cover_partial) are NOT proved in Lean",
        "Voronoi: cell vertices are computed doubles; metric clauses carry a slack of 1e-9 x (largest ordinate magnitude) — PARTIAL",
        "inputs are restricted to the grid of the property (integers times one power of two, |ordinate| <= 2^25 units); polygons are valid by construction "
        "(GEOSisValid is used only as a safety net to skip generator mistakes)",
        "doubles -> exact integers via F64.scaleAll (bit-level decode); harness generators and the C++ glue are trusted",
    ])
    # translator tie: the in-circle / orientation decision functions are regenerated from the current C++ and proved equal to
    # Kernel.det / Model/Tri/Predicates.lean
    proved = ctx.prove_generated([("tri_predicates", "GeosModel/Generated/TriPredicates.lean", "GeosModel.Props.C16Gen")], PROPS, extra_targets=(DRV,))
    ok, out = verif.build_geos("rel")
    if not ok:
        ctx.violation("GEOS does not build with -DGEOS_VERIF", {"kind": "build-failure", "log": out[-3000:]}, nofail=True)
        return
    exe, out = verif.build_harness("c16")
    if not exe:
        ctx.violation("harness c16 does not compile against the current tree",
                      {"kind": "tie-broken", "correspondence": "harness/c16.cpp", "log": out[-3000:]}, nofail=True)
        return
    corr = {}
    found_input = False
    reported = []            # signatures already reported (corpus + streams)
    # ---- object reuse: one C++ builder / merger object asked repeatedly must answer like a fresh one (the model side is a pure
    # function of the input, so the driver's answer is always "consistent"); the case line holds the input, the implementation's
    # own verdict says which repeated query differed
    rr = verif.run_stream(exe, "reuse", ctx.seed, (6000 if ctx.tier == "quick" else 300000), ctx.work, shards=min(verif.NPROC, 8), driver_exe=DRV)
    corr["reuse"] = {"cases": rr["cases"], "disagreements": len(rr["disagreements"]) + rr.get("more_disagreements", 0), "distribution": rr["stats"]}
    if rr["error"]:
        ctx.violation("stream reuse could not run: " + rr["error"], {"kind": "tie-broken", "correspondence": "reuse", "detail": rr["error"]}, nofail=True)
    elif rr["disagreements"]:
        idx, case, exp, got = rr["disagreements"][0]
        found_input = True
        ctx.violation("a reused DelaunayTriangulationBuilder / VoronoiDiagramBuilder answers differently on a repeated query: " + exp[:300],
                      {"kind": "failing-input", "stream": "reuse", "case": case, "impl": exp, "model": got,
                       "replay_cmd": "%s reuse-replay: regenerate with `%s reuse %d %d <out>`" % (exe, exe, ctx.seed, (6000 if ctx.tier == "quick" else 300000))},
                      signature={"stream": "reuse", "clause": " ".join(exp.split()[:2])})
    # ---- the decision functions themselves (the ones the translator tie regenerates), on quadruples where double arithmetic is exact
    npred = 20000 if ctx.tier == "quick" else 400000
    rp = verif.run_stream(exe, "predicates", ctx.seed, npred, ctx.work, shards=min(verif.NPROC, 8), driver_exe=DRV)
    corr["predicates"] = {"cases": rp["cases"], "disagreements": len(rp["disagreements"]) + rp.get("more_disagreements", 0), "distribution": rp["stats"]}
    ctx.cov["samples"] += [{"case": s_["case"][:300], "impl": s_["impl"], "model": s_["model"]} for s_ in rp.get("samples", [])[:1]]
    if rp["error"]:
        ctx.violation("stream predicates could not run: " + rp["error"], {"kind": "tie-broken", "correspondence": "predicates", "detail": rp["error"][:2000]}, nofail=True)
    elif rp["disagreements"]:
        names = ["TrianglePredicate::isInCircleRobust", "TrianglePredicate::isInCircleNormalized", "TrianglePredicate::isInCircleNonRobust",
                 "Vertex::isCCW", "Vertex::rightOf", "Vertex::leftOf", "Vertex::isInCircle"]
        seenf = set()
        for idx, case, exp, got in rp["disagreements"]:
            e_, g_ = exp.split(), got.split()
            diff = [names[i] for i in range(min(len(e_), len(g_), 7)) if e_[i] != g_[i]] or ["(line shape)"]
            if diff[0] in seenf:
                continue
            seenf.add(diff[0])
            # a decision function answers differently from its exact model on an input where its double arithmetic is exact.  The input
            # is an input of that function, not of the property: the delaunay / cdt streams below look for the triangulation it spoils.
            ctx.violation("%s answers differently from its exact model (Model/Tri/Predicates.lean) on a small-integer quadruple where double "
                          "arithmetic is exact: implementation %s, model %s (order: %s)" % (", ".join(diff), exp, got, " ".join(n.split("::")[-1] for n in names)),
                          {"kind": "tie-broken", "correspondence": "predicates", "stream": "predicates", "case": case, "impl": exp, "model": got,
                           "functions": diff, "replay_cmd": "bin/check C16 --replay <this file>"}, nofail=True)
    # ---- regression corpus first: hand-written boundary cases + the shrunk witness of each finding
    cpath = os.path.join(verif.ROOT, "corpus", "C16.cases")
    if os.path.exists(cpath):
        rows = [l.split(" ", 2) for l in open(cpath).read().split("\n") if l.strip()]
        bad = 0
        for stream in ("delaunay", "cdt", "voronoi"):
            sel = [r for r in rows if r[0] == stream]
            res = rerun(exe, ctx.work, [r[2] for r in sel], stream)
            for (st, exp, _), (case, verdict) in zip(sel, res):
                if exp.startswith("known:"):
                    if verdict == "ok":
                        continue          # the finding no longer reproduces (fixed)
                    exp = "ok"
                if verdict == exp:
                    continue
                bad += 1
                sig, extra = signature_for(stream, verdict, exe) if verdict.startswith("FAIL") else ({"op": stream, "class": "corpus:" + verdict.split()[0]}, None)
                if sig in reported:
                    continue
                reported.append(sig)
                found_input = True
                ctx.violation("%s (corpus case): %s — checker verdict: %s" % (stream, WHAT.get(clause(verdict), "expected %s" % exp), verdict[:300]),
                              {"kind": "failing-input", "stream": stream, "case": case, "checker": verdict, "expected": exp, "analysis": extra,
                               "replay_cmd": "bin/check C16 --replay <this file>", "signature": sig}, signature=sig)
        corr["corpus"] = {"cases": len(rows), "disagreements": bad, "distribution": {}}
    quick = ctx.tier == "quick"
    plan = (("delaunay", 4000 if quick else 40000), ("cdt", 6000 if quick else 80000), ("cdtcoll", 2400 if quick else 40000),
            ("voronoi", 3200 if quick else 40000))
    shards = min(verif.NPROC, 8 if quick else 16)
    for hstream, n in plan:
        # `cdtcoll` (collections of polygons) is a generator of its own; its lines are `C …` lines checked by the driver's `cdt`
        stream = "cdt" if hstream == "cdtcoll" else hstream
        r = verif.run_stream(exe, hstream, ctx.seed, n, ctx.work, shards=shards, driver_exe=DRV, driver_stream=stream)
        nd = len(r["disagreements"]) + r.get("more_disagreements", 0)
        corr[hstream] = {"cases": r["cases"], "disagreements": nd, "distribution": r["stats"]}
        ctx.cov["samples"] += [{"case": s["case"][:300], "impl": s["impl"], "model": s["model"]} for s in r.get("samples", [])[:1]]
        if r["error"]:
            ctx.violation("correspondence stream %s could not run: %s" % (hstream, r["error"]),
                          {"kind": "tie-broken", "correspondence": hstream, "detail": r["error"][:2000]}, nofail=True)
            continue
        seen = list(reported)
        budget = 12          # shrink at most this many disagreements per stream
        # run_stream keeps the first 50 disagreements only; read every shard again so that a rare second kind of
        # failure cannot hide behind a frequent one: one representative per (cheap) clause key and, for the in-circle
        # clauses, per predicate class
        dis = list(r["disagreements"])
        if r.get("more_disagreements", 0):
            dis = []
            for k in range(shards):
                base = os.path.join(ctx.work, "%s.%d" % (hstream, k))
                try:
                    with open(base + ".cases") as fc, open(base + ".expect") as fe, open(base + ".got") as fg:
                        for i, (c, e_, g) in enumerate(zip(fc.read().split("\n"), fe.read().split("\n"), fg.read().split("\n"))):
                            if e_ != g and c:
                                dis.append((i, c, e_, g))
                except OSError:
                    pass
        keyed, order = {}, []
        for d in dis:
            k0 = clause(d[3]) if d[3].startswith("FAIL") else d[3][:40]
            if k0 in ("not-delaunay", "not-constrained-delaunay"):
                sg, _ = signature_for(stream, d[3], exe)
                k0 = json.dumps(sg, sort_keys=True)
            if k0 not in keyed:
                keyed[k0] = d
                order.append(k0)
        corr[hstream]["failure_kinds"] = {k: sum(1 for d in dis if (clause(d[3]) if d[3].startswith("FAIL") else d[3][:40]) == k) for k in order if not k.startswith("{")}
        for idx, case, exp, got in [keyed[k] for k in order]:
            if not got.startswith("FAIL"):
                # ok vs ok-error mismatch or a driver parse problem: the tie itself is broken, not the property
                key = "shape:" + got.split()[0] if got else "shape"
                if key in seen:
                    continue
                seen.append(key)
                if got.startswith("ok") and exp.startswith("ok"):
                    found_input = True
                    ctx.violation("%s: documented NULL/non-NULL behaviour differs (expected %s, checker says %s)" % (stream, exp, got),
                                  {"kind": "failing-input", "stream": stream, "case": case, "expected": exp, "checker": got,
                                   "replay_cmd": "bin/check C16 --replay <this file>"}, signature={"op": stream, "class": "null-contract"})
                else:
                    ctx.violation("%s: case could not be interpreted by the driver (%s)" % (stream, got[:80]),
                                  {"kind": "tie-broken", "correspondence": stream, "case": case[:4000], "checker": got}, nofail=True)
                continue
            sig0, _ = signature_for(stream, got, exe)
            if sig0 in seen or budget <= 0:
                continue
            budget -= 1
            case2, got2 = case, got
            if stream in ("delaunay", "voronoi"):
                case2 = shrink_sites(exe, ctx.work, case, stream, clause(got))
                rr = rerun(exe, ctx.work, [case2], stream)
                if rr and clause(rr[0][1]) == clause(got):
                    case2, got2 = rr[0]
                else:
                    case2, got2 = case, got
            if hstream == "cdtcoll":
                sh = shrink_coll(exe, ctx.work, case, clause(got))
                if sh:
                    case2, got2 = sh
            sig, extra = signature_for(stream, got2, exe)
            if sig in seen:
                continue
            seen.append(sig)
            seen.append(sig0)
            found_input = True
            what = "%s: %s — checker verdict: %s" % (stream, WHAT.get(clause(got2), "output violates clause '%s' of the property" % clause(got2)), got2[:300])
            ctx.violation(what, {"kind": "failing-input", "stream": stream, "case": case2, "checker": got2, "analysis": extra,
                                 "n_sites": (len(parse_sites_case(case2)[1]) if stream != "cdt" else None),
                                 "input_wkt": (wkt_of_case(case2) if stream == "cdt" else None),
                                 "replay_cmd": "bin/check C16 --replay <this file>", "signature": sig}, signature=sig)
    ctx.cov["support_correspondence"] = corr
    if not proved:
        lf = getattr(ctx, "lean_failure", None) or {}
        ctx.violation("Lean obligations for C16 no longer check: " + "; ".join(str(i) for i in lf.get("items", [])[:5]) +
                      (" (a failing input was also found)" if found_input else ""),
                      {"kind": "proof-broken", "lean": lf}, nofail=True)


def replay(ctx, path):
    r = json.load(open(path))
    ok, out = verif.build_geos("rel")
    exe, out = verif.build_harness("c16")
    verif.lake_build([DRV])
    if exe and r.get("stream") == "predicates" and "case" in r:
        work = os.path.join(verif.BUILD, "work")
        os.makedirs(work, exist_ok=True)
        qf = os.path.join(work, "c16-pred-%d.txt" % os.getpid())
        with open(qf, "w") as f:
            f.write(r["case"] + "\n")
        rc, out = verif.sh([exe, "predicates-eval", qf], timeout=60)
        impl = (out.strip().split("\n") or [""])[-1]
        rc2, got = verif.run_driver_lines("predicates", [r["case"]], driver_exe=DRV)
        model = ([g for g in got if g != ""] or [""])[0]
        print("stream : predicates")
        print("case   :", r["case"])
        print("impl   :", impl, " (isInCircleRobust isInCircleNormalized isInCircleNonRobust isCCW rightOf leftOf isInCircle)")
        print("model  :", model)
        if impl != model:
            print("VIOLATION property=C16 replay=%s" % path)
            return 1
        return 0
    if not exe or "case" not in r or "stream" not in r:
        print("replay file has no case to run (kind=%s)" % r.get("kind"))
        return 1 if r.get("kind") in ("proof-broken", "tie-broken", "build-failure") else 0
    work = os.path.join(verif.BUILD, "work")
    os.makedirs(work, exist_ok=True)
    res = rerun(exe, work, [r["case"]], r["stream"])
    case, verdict = res[0]
    print("stream :", r["stream"])
    print("case   :", case[:2000])
    print("checker:", verdict)
    expected = r.get("expected", "ok")
    if verdict != expected and not (verdict == "ok" and expected == "ok"):
        sig, extra = signature_for(r["stream"], verdict, exe) if verdict.startswith("FAIL") else (None, None)
        if extra:
            print("analysis:", json.dumps(extra))
        print("VIOLATION property=C16 replay=%s" % path)
        return 1
    return 0
