"""GTree token strings in Python: parse / print / shrink candidates / WKT rendering (for replays and signatures)."""
import struct

def _dec(h):
    return struct.unpack('>d', bytes.fromhex(h))[0]

COLL = ("K", "U", "MP", "ML", "MY", "MC", "MS", "GC")

def parse_g(t, i):
    tag = t[i]; i += 1
    if tag in ("P", "L", "R", "C"):
        s, i = parse_seq(t, i)
        return [tag, s], i
    if tag == "Y":
        k = int(t[i]); i += 1
        rs = []
        for _ in range(k):
            s, i = parse_seq(t, i); rs.append(s)
        return [tag, rs], i
    k = int(t[i]); i += 1
    gs = []
    for _ in range(k):
        g, i = parse_g(t, i); gs.append(g)
    return [tag, gs], i

def parse_seq(t, i):
    fl = t[i]; n = int(t[i + 1]); i += 2
    d = 2 + (1 if 'z' in fl else 0) + (1 if 'm' in fl[2:] else 0)
    pts = []
    for _ in range(n):
        pts.append(t[i:i + d]); i += d
    return [fl, pts], i

def parse(line):
    t = line.split()
    g, i = parse_g(t, 1)
    return [t[0], g]

def show_seq(s):
    return [s[0], str(len(s[1]))] + [x for p in s[1] for x in p]

def show_g(g):
    tag = g[0]
    if tag in ("P", "L", "R", "C"):
        return [tag] + show_seq(g[1])
    if tag == "Y":
        return [tag, str(len(g[1]))] + [x for s in g[1] for x in show_seq(s)]
    return [tag, str(len(g[1]))] + [x for e in g[1] for x in show_g(e)]

def show(geom):
    return " ".join([geom[0]] + show_g(geom[1]))

def wkt_seq(s):
    if not s[1]:
        return "EMPTY"
    return "(" + ", ".join("%r %r" % (_dec(p[0]), _dec(p[1])) for p in s[1]) + ")"

NAMES = {"P": "POINT", "L": "LINESTRING", "R": "LINEARRING", "C": "CIRCULARSTRING", "Y": "POLYGON", "K": "COMPOUNDCURVE",
         "U": "CURVEPOLYGON", "MP": "MULTIPOINT", "ML": "MULTILINESTRING", "MY": "MULTIPOLYGON", "MC": "MULTICURVE",
         "MS": "MULTISURFACE", "GC": "GEOMETRYCOLLECTION"}

def wkt_g(g, top=True):
    tag = g[0]
    if tag in ("P", "L", "R", "C"):
        return NAMES[tag] + " " + wkt_seq(g[1])
    if tag == "Y":
        if not g[1] or not g[1][0][1]:
            return "POLYGON EMPTY"
        return "POLYGON (" + ", ".join(wkt_seq(s) for s in g[1]) + ")"
    if not g[1]:
        return NAMES[tag] + " EMPTY"
    return NAMES[tag] + " (" + ", ".join(wkt_g(e, False) for e in g[1]) + ")"

def wkt(line):
    return wkt_g(parse(line)[1])

def features(line):
    """token-level structural features used in finding signatures"""
    g = parse(line)[1]
    f = {"gc": False, "emptyElem": False, "mixedDim": False, "multiPolyInGC": False}
    def dim(e):
        return {"P": 0, "MP": 0, "L": 1, "R": 1, "ML": 1, "Y": 2, "MY": 2}.get(e[0], -1)
    def empty(e):
        if e[0] in ("P", "L", "R", "C"): return not e[1][1]
        if e[0] == "Y": return not e[1] or not e[1][0][1]
        return all(empty(x) for x in e[1])
    def walk(e, inside):
        if e[0] in COLL:
            if e[0] == "GC":
                f["gc"] = True
                ds = set(); npoly = 0
                def leaves(x):
                    nonlocal npoly
                    if x[0] in COLL:
                        for y in x[1]: leaves(y)
                    elif not empty(x):
                        ds.add(dim(x)); npoly += (1 if x[0] == "Y" else 0)
                leaves(e)
                if len(ds) > 1: f["mixedDim"] = True
                if npoly > 1: f["multiPolyInGC"] = True
            for x in e[1]:
                if empty(x): f["emptyElem"] = True
                walk(x, True)
    walk(g, False)
    return f

def shrink_candidates(line):
    """yield simpler variants of a geometry line (one reduction each)"""
    geom = parse(line)
    import copy
    def paths(g, path):
        yield path, g
        if g[0] in COLL:
            for i, e in enumerate(g[1]):
                yield from paths(e, path + [i])
    for path, node in list(paths(geom[1], [])):
        def rebuilt(mod):
            g2 = copy.deepcopy(geom)
            n = g2[1]
            for i in path:
                n = n[1][i]
            mod(n)
            return show(g2)
        if node[0] in COLL:
            for i in range(len(node[1])):
                yield rebuilt(lambda n, i=i: n[1].pop(i))
            if len(node[1]) == 1 and not path:
                g2 = [geom[0], copy.deepcopy(node[1][0])]
                yield show(g2)
        elif node[0] == "Y":
            for i in range(1, len(node[1])):
                yield rebuilt(lambda n, i=i: n[1].pop(i))
            for r in range(len(node[1])):
                k = len(node[1][r][1])
                if k > 4:
                    for j in range(1, k - 1):
                        yield rebuilt(lambda n, r=r, j=j: n[1][r][1].pop(j))
        elif node[0] in ("L",):
            k = len(node[1][1])
            if k > 2:
                for j in range(k):
                    yield rebuilt(lambda n, j=j: n[1][1].pop(j))


# ---------------------------------------------------------------------------------------------------------------------
# exact structural feature for GeometryCollection findings

def _frac(h):
    from fractions import Fraction
    v = _dec(h)
    return Fraction(v) if v == v and v not in (float("inf"), float("-inf")) else None


def gc_self_interaction(line):
    """True iff the geometry contains a collection (any Multi* or GC) two of whose leaf elements share a point: their linework
    meets (anywhere, also at end points), or a vertex of one lies inside / on another polygonal element.  Exact rational arithmetic.
    RelateNG / overlay union semantics for collections only matter in that case: a collection of pairwise disjoint elements
    is just the disjoint sum of its elements."""
    try:
        g = parse(line)[1]
    except Exception:
        return False
    leaves = []         # (kind, rings as point lists)

    def pts_of(sq):
        out = []
        for p in sq[1]:
            x, y = _frac(p[0]), _frac(p[1])
            if x is None or y is None:
                return None
            out.append((x, y))
        return out

    def walk(e):
        tag = e[0]
        if tag in ("P", "L", "R", "C"):
            ps = pts_of(e[1])
            if ps:
                leaves.append((0 if tag == "P" else 1, [ps]))
        elif tag == "Y":
            rs = [pts_of(r) for r in e[1]]
            rs = [r for r in rs if r]
            if rs:
                leaves.append((2, rs))
        else:
            for x in e[1]:
                walk(x)
    walk(g)
    if len(leaves) < 2:
        return False
    if sum(len(r) for _, rs in leaves for r in rs) > 600:
        return True

    def orient(a, b, c):
        v = (b[0] - a[0]) * (c[1] - a[1]) - (b[1] - a[1]) * (c[0] - a[0])
        return (v > 0) - (v < 0)

    def on_seg(a, b, p):
        return orient(a, b, p) == 0 and min(a[0], b[0]) <= p[0] <= max(a[0], b[0]) and min(a[1], b[1]) <= p[1] <= max(a[1], b[1])

    def seg_meet(a, b, c, d):
        o1, o2, o3, o4 = orient(a, b, c), orient(a, b, d), orient(c, d, a), orient(c, d, b)
        if o1 * o2 < 0 and o3 * o4 < 0:
            return True
        return on_seg(a, b, c) or on_seg(a, b, d) or on_seg(c, d, a) or on_seg(c, d, b)

    def segs(rs):
        return [(r[i], r[i + 1]) for r in rs for i in range(len(r) - 1)]

    def in_poly(rs, p):          # closed polygon (boundary counts), even-odd over all rings
        inside = False
        for r in rs:
            for i in range(len(r) - 1):
                a, b = r[i], r[i + 1]
                if on_seg(a, b, p):
                    return True
                if (a[1] > p[1]) != (b[1] > p[1]):
                    t = orient(a, b, p)
                    if (b[1] > a[1] and t > 0) or (b[1] < a[1] and t < 0):
                        inside = not inside
        return inside

    for i in range(len(leaves)):
        ki, ri = leaves[i]
        si = segs(ri)
        for j in range(i + 1, len(leaves)):
            kj, rj = leaves[j]
            sj = segs(rj)
            for (a, b) in si:
                for (c, d) in sj:
                    if seg_meet(a, b, c, d):
                        return True
            # points and containment without boundary contact
            if ki == 0 or kj == 0:
                P, (ko, ro, so) = (ri, (kj, rj, sj)) if ki == 0 else (rj, (ki, ri, si))
                for p in [q for r in P for q in r]:
                    if ko == 0 and any(p == q for r in ro for q in r):
                        return True
                    if ko == 1 and any(on_seg(a, b, p) for a, b in so):
                        return True
                    if ko == 2 and in_poly(ro, p):
                        return True
            if ki == 2 and any(in_poly(ri, q) for q in rj[0][:1]):
                return True
            if kj == 2 and any(in_poly(rj, q) for q in ri[0][:1]):
                return True
    return False
