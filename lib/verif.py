"""Common machinery for /verif checks.

Every check is `bin/check <ID> --tier quick|thorough [--replay f]`; the per-property
logic lives in checks/<ID>.py (function `run(ctx)`), everything shared is here:

  * building GEOS flavours from /repo's *current working tree* (incremental ninja)
  * building the Lean library / driver (`lake build`) and classifying failures
  * the axiom / sorry audit of every property theorem
  * building C++ harnesses against the freshly built library
  * running a correspondence stream (harness -> cases/expect, driver -> got, diff)
  * verdict plumbing: VIOLATION lines, replay files, KNOWN_FINDINGS, evidence
"""
import fcntl, hashlib, json, os, re, shutil, subprocess, sys, time, glob

ROOT = os.path.dirname(os.path.dirname(os.path.abspath(__file__)))
REPO = os.environ.get("VERIF_REPO", "/repo")
BUILD = os.environ.get("VERIF_BUILD_DIR", os.path.join(ROOT, ".build"))
LEAN = os.path.join(ROOT, "lean")
EVID = os.path.join(ROOT, "evidence")
REPLAYS = os.path.join(ROOT, "replays")
GUARD = "GEOS_VERIF"
ALLOWED_AXIOMS = {"propext", "Classical.choice", "Quot.sound"}
NPROC = os.cpu_count() or 4

FLAVOURS = {
    # name: (compiler env, build type, extra cxx flags, extra link flags)
    "rel":  (None, "Release", "", ""),
    "asan": (None, "Release",
             "-O1 -g -fno-omit-frame-pointer -fsanitize=address,undefined -fno-sanitize-recover=all",
             "-fsanitize=address,undefined"),
    "tsan": ("clang", "Release", "-O1 -g -fsanitize=thread", "-fsanitize=thread"),
}


def log(*a):
    print("[verif]", *a, file=sys.stderr, flush=True)


def sh(cmd, cwd=None, timeout=None, env=None, input=None):
    """Run, return (rc, stdout+stderr)."""
    e = dict(os.environ)
    if env:
        e.update(env)
    try:
        p = subprocess.run(cmd, cwd=cwd, shell=isinstance(cmd, str), stdout=subprocess.PIPE,
                           stderr=subprocess.STDOUT, timeout=timeout, env=e, input=input)
        return p.returncode, p.stdout.decode("utf-8", "replace")
    except subprocess.TimeoutExpired as ex:
        return 124, (ex.stdout or b"").decode("utf-8", "replace") + "\n[timeout]"


class Lock:
    def __init__(self, name):
        # locks that protect /verif/lean (shared by every run, whatever VERIF_BUILD_DIR says) live under /verif/.build;
        # locks of a GEOS build tree live in that tree's build dir
        base = os.path.join(ROOT, ".build") if name.startswith("lake") else BUILD
        os.makedirs(base, exist_ok=True)
        self.path = os.path.join(base, "lock-" + name)

    def __enter__(self):
        self.f = open(self.path, "w")
        fcntl.flock(self.f, fcntl.LOCK_EX)
        return self

    def __exit__(self, *a):
        fcntl.flock(self.f, fcntl.LOCK_UN)
        self.f.close()


# --------------------------------------------------------------------------- GEOS builds

def geos_dir(flavour):
    return os.path.join(BUILD, "geos-" + flavour)


def build_geos(flavour="rel", targets=("geos_c",)):
    """Configure (once) and incrementally build GEOS from /repo's working tree with the guard on.
    Returns (ok, log)."""
    comp, btype, cxx, ld = FLAVOURS[flavour]
    d = geos_dir(flavour)
    with Lock("geos-" + flavour):
        if not os.path.exists(os.path.join(d, "build.ninja")):
            cfg = ["cmake", "-S", REPO, "-B", d, "-G", "Ninja", "-DCMAKE_BUILD_TYPE=" + btype,
                   "-DBUILD_TESTING=OFF", "-DBUILD_DOCUMENTATION=OFF", "-DBUILD_SHARED_LIBS=ON",
                   "-DBUILD_BENCHMARKS=OFF",
                   "-DCMAKE_CXX_FLAGS=-D%s -Wno-error %s" % (GUARD, cxx),
                   "-DCMAKE_C_FLAGS=-D%s %s" % (GUARD, cxx),
                   "-DCMAKE_SHARED_LINKER_FLAGS=" + ld, "-DCMAKE_EXE_LINKER_FLAGS=" + ld]
            if comp == "clang":
                cfg += ["-DCMAKE_CXX_COMPILER=clang++-14", "-DCMAKE_C_COMPILER=clang-14"]
            rc, out = sh(cfg)
            if rc != 0:
                return False, out
        rc, out = sh(["ninja", "-C", d] + list(targets))
        return rc == 0, out


def geos_cxx_flags(flavour="rel"):
    d = geos_dir(flavour)
    comp, btype, cxx, ld = FLAVOURS[flavour]
    inc = ["-I" + os.path.join(REPO, "include"), "-I" + os.path.join(d, "include"),
           "-I" + os.path.join(d, "capi"), "-I" + os.path.join(REPO, "capi")]
    lib = ["-L" + os.path.join(d, "lib"), "-Wl,-rpath," + os.path.join(d, "lib"), "-lgeos_c", "-lgeos"]
    return inc, lib, cxx.split(), ld.split()


def build_harness(name, flavour="rel", extra=()):
    """Compile harness/<name>.cpp against the flavour's library. Rebuilt when any dependency
    (including /repo headers compiled into it) is newer than the binary. Returns (path|None, log)."""
    src = os.path.join(ROOT, "harness", name + ".cpp")
    outdir = os.path.join(BUILD, "harness-" + flavour)
    os.makedirs(outdir, exist_ok=True)
    exe = os.path.join(outdir, name)
    dep = exe + ".d"
    with Lock("harness-%s-%s" % (flavour, name)):
        fresh = False
        if os.path.exists(exe) and os.path.exists(dep):
            try:
                t = os.path.getmtime(exe)
                txt = open(dep).read().replace("\\\n", " ")
                deps = txt.split(":", 1)[1].split()
                libs = glob.glob(os.path.join(geos_dir(flavour), "lib", "libgeos*.so"))
                fresh = all(os.path.exists(x) and os.path.getmtime(x) <= t for x in deps + libs)
            except Exception:
                fresh = False
        if fresh:
            return exe, "up to date"
        inc, lib, cxx, ld = geos_cxx_flags(flavour)
        comp = "clang++-14" if FLAVOURS[flavour][0] == "clang" else "g++"
        base = ["-O2"] if flavour == "rel" else []
        cmd = [comp, "-std=c++17", "-D" + GUARD, "-DUSE_UNSTABLE_GEOS_CPP_API", "-MMD", "-MF", dep] + base + cxx + inc + \
              ["-I" + os.path.join(ROOT, "harness"), src, "-o", exe] + list(extra) + lib + ld + ["-lpthread"]
        rc, out = sh(cmd)
        if rc != 0:
            if os.path.exists(exe):
                os.remove(exe)
            return None, out
        return exe, out


# --------------------------------------------------------------------------- Lean

def lake_build(targets, timeout=3000):
    """lake build the given targets (module names or exe). Returns (ok, log)."""
    with Lock("lake"):
        rc, out = sh(["lake", "build"] + list(targets), cwd=LEAN, timeout=timeout)
    return rc == 0, out


def driver_path(exe=None):
    return os.path.join(LEAN, ".lake", "build", "bin", exe or "geosdrv")


_THM_RE = re.compile(r"^\s*(?:@\[[^\]]*\]\s*)?(?:protected\s+|private\s+)?theorem\s+([A-Za-z_][\w.'!?]*)", re.M)
_NS_RE = re.compile(r"^\s*namespace\s+([\w.]+)", re.M)
_BAD_RE = re.compile(r"\b(sorry|admit|native_decide|bv_decide|implemented_by|unsafe)\b|^\s*axiom\s|maxHeartbeats\s+0\b", re.M)


def strip_comments(src):
    # remove block comments (nested) and line comments
    out = []
    i = 0
    depth = 0
    n = len(src)
    while i < n:
        if src.startswith("/-", i):
            depth += 1
            i += 2
        elif depth and src.startswith("-/", i):
            depth -= 1
            i += 2
        elif depth:
            if src[i] == "\n":
                out.append("\n")
            i += 1
        elif src.startswith("--", i):
            while i < n and src[i] != "\n":
                i += 1
        else:
            out.append(src[i])
            i += 1
    return "".join(out)


def lean_files_of(modules):
    """Transitive project-local imports of the given modules (file paths)."""
    seen, todo = {}, list(modules)
    while todo:
        m = todo.pop()
        if m in seen:
            continue
        p = os.path.join(LEAN, m.replace(".", "/") + ".lean")
        if not os.path.exists(p):
            continue
        seen[m] = p
        for im in re.findall(r"^\s*(?:public\s+)?import\s+([\w.]+)", open(p).read(), re.M):
            if im.startswith("GeosModel") or im.startswith("Driver"):
                todo.append(im)
    return seen


def theorems_in(module):
    """Fully-qualified theorem names declared in a Props module (simple namespace tracking)."""
    p = os.path.join(LEAN, module.replace(".", "/") + ".lean")
    src = strip_comments(open(p).read())
    names = []
    ns = []
    for line in src.split("\n"):
        m = re.match(r"^\s*namespace\s+([\w.]+)", line)
        if m:
            ns.append(m.group(1))
            continue
        m = re.match(r"^\s*end\s+([\w.]+)\s*$", line)
        if m and ns and ns[-1] == m.group(1):
            ns.pop()
            continue
        m = _THM_RE.match(line)
        if m:
            names.append(".".join(ns + [m.group(1)]))
    return names


def audit(prop_modules, extra_theorems=()):
    """Axiom + forbidden-token audit.
    Returns dict: obligations [names], discharged [names], failed {name: reason}, axioms {name: [..]}, log."""
    res = {"obligations": [], "discharged": [], "failed": {}, "axioms": {}, "log": ""}
    files = lean_files_of(prop_modules)
    for m, p in files.items():
        src = strip_comments(open(p).read())
        for mm in _BAD_RE.finditer(src):
            res["failed"]["<source:%s>" % m] = "forbidden token %r" % mm.group(0).strip()
    thms = []
    for pm in prop_modules:
        thms += theorems_in(pm)
    thms += list(extra_theorems)
    res["obligations"] = thms
    if not thms:
        return res
    tmp = os.path.join(BUILD, "audit-%d.lean" % os.getpid())
    with open(tmp, "w") as f:
        for pm in prop_modules:
            f.write("import %s\n" % pm)
        for t in thms:
            f.write("#print axioms %s\n" % t)
    with Lock("lake"):
        rc, out = sh(["lake", "env", "lean", tmp], cwd=LEAN, timeout=1200)
    os.remove(tmp)
    res["log"] = out
    # parse: "'name' depends on axioms: [a, b]" / "'name' does not depend on any axioms"
    cur = {}
    for m in re.finditer(r"'([^']+)' (?:depends on axioms: \[([^\]]*)\]|does not depend on any axioms)", out, re.S):
        ax = [a.strip() for a in (m.group(2) or "").replace("\n", " ").split(",") if a.strip()]
        cur[m.group(1)] = ax
    for t in thms:
        if t not in cur:
            res["failed"][t] = "not checked (missing or build error)"
            continue
        res["axioms"][t] = cur[t]
        bad = [a for a in cur[t] if a not in ALLOWED_AXIOMS]
        if bad:
            res["failed"][t] = "disallowed axioms " + ",".join(bad)
        else:
            res["discharged"].append(t)
    if any(k.startswith("<source:") for k in res["failed"]):
        # a forbidden token anywhere in the dependency cone taints everything
        res["discharged"] = []
    return res


def failing_lean_items(build_log):
    """Names of files / declarations mentioned in lake error output (for the replay file)."""
    items = []
    for m in re.finditer(r"^error: (?:\S+?/)?((?:GeosModel|Driver)/[\w/]+\.lean):(\d+):(\d+): (.*)$", build_log, re.M):
        items.append({"file": m.group(1), "line": int(m.group(2)), "msg": m.group(4)[:300]})
    return items


# --------------------------------------------------------------------------- correspondence

def run_stream(harness_exe, stream, seed, n, workdir, driver_stream=None, harness_args=(), timeout=3000,
               env=None, shards=1, driver_exe=None):
    """Harness writes <workdir>/<stream>.cases and .expect ; driver reads cases, writes .got ; diff.
    Returns dict(cases, disagreements=[(idx, case, expect, got)], stats=str, error=str|None)."""
    os.makedirs(workdir, exist_ok=True)
    res = {"cases": 0, "disagreements": [], "stats": {}, "error": None}
    procs = []
    for k in range(shards):
        base = os.path.join(workdir, "%s.%d" % (stream, k))
        cmd = [harness_exe, stream, str(seed * 1000003 + k), str(max(1, n // shards)), base] + list(harness_args)
        e = dict(os.environ)
        if env:
            e.update(env)
        procs.append((base, subprocess.Popen(cmd, stdout=subprocess.PIPE, stderr=subprocess.STDOUT, env=e)))
    for base, p in procs:
        try:
            out, _ = p.communicate(timeout=timeout)
        except subprocess.TimeoutExpired:
            p.kill()
            res["error"] = "harness timeout on stream " + stream
            return res
        out = out.decode("utf-8", "replace")
        if p.returncode != 0:
            res["error"] = "harness exit %d on stream %s: %s" % (p.returncode, stream, out[-2000:])
            res["harness_output"] = out
            return res
        for line in out.splitlines():
            if line.startswith("STAT "):
                try:
                    k_, v_ = line[5:].split("=", 1)
                    res["stats"][k_] = res["stats"].get(k_, 0) + int(v_)
                except ValueError:
                    pass
    dprocs = []
    for base, _ in procs:
        fin = open(base + ".cases", "rb")
        fout = open(base + ".got", "wb")
        dprocs.append((base, fin, fout, subprocess.Popen([driver_path(driver_exe), driver_stream or stream], stdin=fin,
                                                         stdout=fout, stderr=subprocess.PIPE)))
    for base, fin, fout, p in dprocs:
        try:
            _, err = p.communicate(timeout=timeout)
        except subprocess.TimeoutExpired:
            p.kill()
            res["error"] = "driver timeout on stream " + stream
            return res
        fin.close()
        fout.close()
        if p.returncode != 0:
            res["error"] = "driver exit %d on stream %s: %s" % (p.returncode, stream, err.decode("utf-8", "replace")[-2000:])
            return res
        with open(base + ".cases", errors="replace") as fc, open(base + ".expect", errors="replace") as fe, \
                open(base + ".got", errors="replace") as fg:
            cases = fc.read().split("\n")
            exp = fe.read().split("\n")
            got = fg.read().split("\n")
        while cases and cases[-1] == "":
            cases.pop()
        while exp and exp[-1] == "":
            exp.pop()
        while got and got[-1] == "":
            got.pop()
        if not (len(cases) == len(exp)):
            res["error"] = "harness wrote %d cases but %d expectations (%s)" % (len(cases), len(exp), stream)
            return res
        if len(got) != len(cases):
            res["error"] = "driver answered %d of %d cases (%s)" % (len(got), len(cases), stream)
            return res
        res["cases"] += len(cases)
        for i, (c, e_, g) in enumerate(zip(cases, exp, got)):
            if e_ != g:
                if len(res["disagreements"]) < 50:
                    res["disagreements"].append((i, c, e_, g))
                else:
                    res.setdefault("more_disagreements", 0)
                    res["more_disagreements"] += 1
        res.setdefault("samples", [])
        if cases and len(res["samples"]) < 3:
            res["samples"].append({"case": cases[0][:400], "impl": exp[0][:200], "model": got[0][:200]})
    return res


def run_driver_lines(stream, lines, timeout=600, driver_exe=None):
    p = subprocess.run([driver_path(driver_exe), stream], input=("\n".join(lines) + "\n").encode(), stdout=subprocess.PIPE,
                       stderr=subprocess.PIPE, timeout=timeout)
    return p.returncode, p.stdout.decode("utf-8", "replace").split("\n")


# --------------------------------------------------------------------------- verdict / evidence

def known_findings():
    p = os.path.join(ROOT, "KNOWN_FINDINGS.json")
    if not os.path.exists(p):
        return []
    return json.load(open(p)).get("findings", [])


class Ctx:
    def __init__(self, prop, tier, seed, level="proof"):
        self.prop, self.tier, self.seed, self.level = prop, tier, seed, level
        self.t0 = time.time()
        self.violations = []          # list of dict(replay, note, nofail)
        self.known_seen = []
        self.cov = {"obligations": 0, "discharged": 0, "checker_cmd": "", "trusted_base": [],
                    "samples": [], "support_correspondence": {}}
        self.assumptions = []
        self.work = os.path.join(BUILD, "work", "%s-%s-%d" % (prop, tier, os.getpid()))
        os.makedirs(self.work, exist_ok=True)
        os.makedirs(REPLAYS, exist_ok=True)
        self.known = [k for k in known_findings() if k.get("property") == prop and k.get("status") == "known"]

    # -- reporting
    def violation(self, what, replay_obj, nofail=False, signature=None):
        """Record a violation unless its signature matches a known finding."""
        if signature is not None:
            for k in self.known:
                if k.get("signature") == signature:
                    if signature not in [s for s, _ in self.known_seen]:
                        self.known_seen.append((signature, k.get("what", what)))
                    return False
        h = hashlib.sha1(json.dumps(replay_obj, sort_keys=True, default=str).encode()).hexdigest()[:12]
        path = os.path.join(REPLAYS, "%s-%s.json" % (self.prop, h))
        replay_obj = dict(replay_obj)
        replay_obj.update({"property": self.prop, "what": what, "seed": self.seed, "tier": self.tier,
                           "no_failing_input_found": nofail})
        with open(path, "w") as f:
            json.dump(replay_obj, f, indent=1, default=str)
        self.violations.append({"replay": path, "what": what, "nofail": nofail})
        return True

    def finish(self):
        for sig, what in self.known_seen:
            print("KNOWN-FINDING: property=%s %s" % (self.prop, what))
        self.cov["known_findings_seen"] = [w for _, w in self.known_seen]
        ev = {"property_id": self.prop, "tier": self.tier, "seed": self.seed, "level": self.level,
              "coverage": self.cov, "assumptions": self.assumptions,
              "wall_s": round(time.time() - self.t0, 2), "violations": len(self.violations)}
        os.makedirs(EVID, exist_ok=True)
        with open(os.path.join(EVID, self.prop + ".json"), "w") as f:
            json.dump(ev, f, indent=1, default=str)
        # one VIOLATION line per distinct replay; failing-input ones first
        vs = sorted(self.violations, key=lambda v: v["nofail"])
        for v in vs[:20]:
            print("VIOLATION property=%s replay=%s%s" % (self.prop, v["replay"], " no-failing-input-found" if v["nofail"] else ""))
            log("  ->", v["what"])
        shutil.rmtree(self.work, ignore_errors=True)
        return 1 if vs else 0

    # -- standard proof stage
    def prove(self, prop_modules, extra_targets=("geosdrv",), extra_theorems=()):
        """lake build property modules (+driver), audit axioms. Fills coverage. Returns True when all
        obligations are discharged."""
        ok, out = lake_build(list(prop_modules) + list(extra_targets))
        self.cov["checker_cmd"] = "cd lean && lake build %s && lake env lean <#print axioms of every theorem>" % " ".join(prop_modules)
        if not ok:
            items = failing_lean_items(out)
            self.lean_failure = {"log_tail": out[-3000:], "items": items}
            # still try to audit what does build (for counts)
            try:
                thms = []
                for pm in prop_modules:
                    thms += theorems_in(pm)
                self.cov["obligations"] = len(thms) + len(extra_theorems)
            except Exception:
                pass
            self.cov["discharged"] = 0
            self.cov["lean_build"] = "FAILED"
            return False
        a = audit(prop_modules, extra_theorems)
        self.cov["obligations"] = len(a["obligations"])
        self.cov["discharged"] = len(a["discharged"])
        self.cov["theorems"] = a["obligations"]
        self.cov["axioms_used"] = sorted({x for v in a["axioms"].values() for x in v})
        self.cov["lean_build"] = "ok"
        if a["failed"]:
            self.lean_failure = {"items": [{"theorem": k, "msg": v} for k, v in a["failed"].items()], "log_tail": a["log"][-2000:]}
            return False
        self.lean_failure = None
        return True

    def prove_generated(self, gens, prop_modules, extra_targets=("geosdrv",), extra_theorems=()):
        """Translator tie.  `gens` = [(spec_name, "GeosModel/Generated/X.lean", "GeosModel.Props.CxxGen"), ...]:
        regenerate each Generated file from the CURRENT source tree (translate/cxx2lean.py + translate/specs/<spec>.py), then
        build and audit the property modules together with the bridge modules (`gen_*_eq` theorems: regenerated definition =
        hand-written model, for all arguments).  A refusal of the translator or a broken bridge theorem is a broken tie;
        the caller's correspondence streams then search for a concrete failing input.  Regeneration + build run under one
        lock so that concurrent checks against different source trees cannot mix their generated files."""
        sys.path.insert(0, os.path.join(ROOT, "translate"))
        import cxx2lean
        rec = {}
        with Lock("lake-gen"):
            bridges = []
            for spec_name, rel, bridge in gens:
                out = os.path.join(LEAN, rel)
                try:
                    text = cxx2lean.generate(cxx2lean.load_spec(spec_name), REPO, out)
                    rec[spec_name] = {"generated": rel, "functions": len(re.findall(r"^def ", text, re.M)), "bridge": bridge,
                                      "sha1": hashlib.sha1(text.encode()).hexdigest()[:12]}
                    if bridge not in bridges:
                        bridges.append(bridge)
                except cxx2lean.AssumptionBroken as ex:
                    # a fact the hand-written model rests on (constant, enumerator, class / macro shape) changed in the source
                    rec[spec_name] = {"generated": rel, "assumption_broken": str(ex), "bridge": bridge}
                    self.violation("a source fact the model of spec %s depends on no longer holds: %s — the bridge theorems of %s say nothing "
                                   "about this tree" % (spec_name, ex, bridge),
                                   {"kind": "tie-broken", "translator": "cxx2lean.py", "spec": spec_name, "detail": str(ex)}, nofail=True)
                except (cxx2lean.Refuse, OSError) as ex:
                    # the translator cannot read the current text of these functions (a construct outside its fragment, a function
                    # moved or renamed): for this run the model is tied to the code by the correspondence streams alone — the second
                    # of the two admissible ties — and the bridge theorems of this spec are not counted as obligations
                    rec[spec_name] = {"generated": rel, "refused": str(ex), "bridge": bridge,
                                      "tie_this_run": "correspondence streams only (translator refused; no bridge obligations counted)"}
                    log("translator (spec %s) refuses the current source: %s -- falling back to the correspondence tie for this run" % (spec_name, ex))
            proved = self.prove(list(prop_modules) + bridges, extra_targets=extra_targets, extra_theorems=extra_theorems)
        self.cov["translator"] = rec
        return proved

    def base_trust(self, extra=()):
        self.cov["trusted_base"] = [
            "Lean 4.33 kernel; axioms limited to propext, Classical.choice, Quot.sound (audited per theorem each run)",
            "hand-written Lean model tied to /repo by the correspondence harness (C++ harness, generators, Lean compiler/runtime for the driver)",
        ] + list(extra)
