#!/usr/bin/env python3
"""C13 translator (second inventory): the data members of the classes whose objects sit inside a prepared geometry / a
built index and are therefore reached by several threads once the object is "built before sharing", together with the
member functions that WRITE each member.

  shared_objects_inventory.py [--repo /repo] --out SharedObjects.lean

The first inventory (globals_inventory.py) lists process-wide symbols and `mutable` members.  A prepared geometry, however,
answers `const` predicates through `mutable std::unique_ptr<…>` members whose pointees have ordinary members and non-const
query methods (`IndexedPointInAreaLocator::locate`, `TemplateSTRtree::query`, …).  "Built before sharing" is only sound if
the query methods of those pointee classes do not write their object.  This program reads, for every class declared in
HEADERS, every non-static data member (name, declared type -> type class as in globals_inventory.py) and scans the class'
header and the .cpp of the same base name for the functions of that class in whose body the member is assigned / modified
(`m =`, `m +=`, `++m`, `m++`, `m.reset(`, `m.push_back(`, `m.emplace…(`, `m.insert(`, `m.clear(`, `m.resize(`, `m.reserve(`,
`m.swap(`, `m[i] =`, `std::swap(m`, `m->… =` is NOT followed).  Constructors / destructors are not listed (an object under
construction is not shared).  The Lean theorem `shared_objects_written_only_while_built` (Props/C13.lean) then demands that
every writer of every member that is not safe by its type is one of the build-phase functions named in the theorem statement.

Textual scan, not a compiler: writes through references / pointers handed to other functions are invisible (trusted).
Output is deterministic (sorted).  A data-member line that cannot be parsed makes the program exit non-zero."""
import argparse, os, re, sys

sys.path.insert(0, os.path.dirname(os.path.abspath(__file__)))
import globals_inventory as gi      # strip_code, type_class, lean_str (read-only reuse)

HEADERS = [
    "include/geos/geom/prep/BasicPreparedGeometry.h",
    "include/geos/geom/prep/PreparedPolygon.h",
    "include/geos/geom/prep/PreparedLineString.h",
    "include/geos/algorithm/locate/IndexedPointInAreaLocator.h",
    "include/geos/algorithm/locate/SimplePointInAreaLocator.h",
    "include/geos/noding/FastSegmentSetIntersectionFinder.h",
    "include/geos/noding/MCIndexSegmentSetMutualIntersector.h",
    "include/geos/noding/SegmentSetMutualIntersector.h",
    "include/geos/operation/distance/IndexedFacetDistance.h",
    "include/geos/operation/distance/FacetSequence.h",
    "include/geos/index/strtree/TemplateSTRtree.h",
    "include/geos/index/chain/MonotoneChain.h",
]

CONTROL = {"if", "for", "while", "switch", "catch", "return", "sizeof", "decltype", "alignof", "static_assert", "assert"}


class Fail(Exception):
    pass


class Scope:
    def __init__(self, kind, name, head, start, parent):
        self.kind, self.name, self.head, self.start, self.end, self.parent = kind, name, head, start, None, parent
        self.children = []
        self.stmts = []          # (text, offset) of statements directly inside this scope

    def classpath(self):
        p, s = [], self
        while s is not None:
            if s.kind == "class":
                p.append(s.name)
            s = s.parent
        return list(reversed(p))


def classify(head):
    h = head.strip()
    if not h:
        return "other", ""
    if re.search(r"\bnamespace\b[\s\w:]*$", h) or re.search(r'\bextern\s*""\s*$', h):
        return "ns", ""
    if re.search(r"\benum\b[^()]*$", h):
        return "other", ""
    m = re.search(r"\b(class|struct|union)\b(?:\s+(?:GEOS_DLL|alignas\s*\([^)]*\)|\[\[[^\]]*\]\]))*\s+([A-Za-z_]\w*)\s*(?:final\s*)?(?::[^{;]*)?$", h)
    if m and "(" not in h[m.start():].split(":")[0]:
        return "class", m.group(2)
    # function definition: ... name ( params ) quals [-> type] [: init-list]
    depth, i, n, first_close = 0, 0, len(h), -1
    cut = n
    while i < n:
        c = h[i]
        if c in "(<[" and not (c == "<" and depth == 0 and first_close < 0 and False):
            if c != "<":
                depth += 1
        elif c in ")]":
            depth -= 1
            if depth == 0 and c == ")" and first_close < 0:
                first_close = i
        elif c == ":" and depth == 0 and first_close >= 0:
            if h.startswith("::", i):
                i += 2
                continue
            if i > 0 and h[i - 1] == ":":
                i += 1
                continue
            cut = i
            break
        i += 1
    sig = h[:cut].rstrip()
    sig = re.sub(r"->\s*[\w:<>,\s\*&]+$", "", sig).rstrip()
    sig = re.sub(r"(\b(const|noexcept|override|final|mutable)\b\s*)+$", "", sig).rstrip()
    if not sig.endswith(")"):
        return "other", ""
    depth, j = 0, len(sig) - 1
    while j >= 0:
        if sig[j] == ")":
            depth += 1
        elif sig[j] == "(":
            depth -= 1
            if depth == 0:
                break
        j -= 1
    if j <= 0:
        return "other", ""
    before = sig[:j].rstrip()
    m = re.search(r"((?:[A-Za-z_]\w*(?:<[^<>]*>)?\s*::\s*)*(?:~\s*)?[A-Za-z_]\w*|operator\s*[^\s\w(]+|operator\s*\(\))$", before)
    if not m:
        return "other", ""          # lambda, block after a macro, ...
    name = re.sub(r"\s+", "", m.group(1))
    if name.split("::")[-1] in CONTROL:
        return "other", ""
    return "fn", name


def parse(text):
    root = Scope("ns", "", "", 0, None)
    cur = root
    last = 0
    i, n = 0, len(text)
    paren = 0
    while i < n:
        c = text[i]
        if c == "(":
            paren += 1
        elif c == ")":
            paren = max(0, paren - 1)
        elif c == "{":
            head = text[last:i]
            kind, name = classify(head) if paren == 0 else ("other", "")
            s = Scope(kind, name, head, i + 1, cur)
            s.paren = paren
            paren = 0
            cur.children.append(s)
            cur = s
            last = i + 1
        elif c == "}":
            cur.end = i
            paren = getattr(cur, "paren", 0)
            if cur.parent is not None:
                cur = cur.parent
            last = i + 1
        elif c == ";" and paren == 0:
            cur.stmts.append((text[last:i], last))
            last = i + 1
        i += 1
    root.end = n
    return root


def walk(s):
    yield s
    for c in s.children:
        yield from walk(c)


SPEC_WORDS = {"static", "const", "constexpr", "mutable", "volatile", "inline", "thread_local"}
NOT_MEMBER = re.compile(r"^\s*(using|typedef|friend|template|enum|class|struct|union|public|private|protected|return|static_assert|namespace|extern)\b")
MEMBER_RX = re.compile(r"^(?P<type>[A-Za-z_][\w:<>,\s\*&\(\)]*?)\s*(?P<ptr>[\*&]*)\s*\b(?P<name>[A-Za-z_]\w*)\s*(?P<arr>\[[^\]]*\])?\s*(?:=.*|\{.*\})?$", re.S)


def members_of(cls_scope, rel, text):
    out = []
    for stmt, off in cls_scope.stmts:
        st = re.sub(r"\b(public|private|protected)\s*:", " ", stmt)
        st = re.sub(r"\s+", " ", st).strip()
        if not st or NOT_MEMBER.match(st):
            continue
        # a function declaration has a parameter list outside of template brackets / initialiser
        probe = re.sub(r"=.*$", "", st)
        probe = re.sub(r"\{.*$", "", probe)
        depth, has_call = 0, False
        for ch in probe:
            if ch == "<":
                depth += 1
            elif ch == ">":
                depth = max(0, depth - 1)
            elif ch == "(" and depth == 0:
                has_call = True
        if has_call or probe.strip().startswith("~") or "operator" in probe:
            continue
        words = st.split(" ")
        pre = []
        while words and words[0] in SPEC_WORDS:
            pre.append(words.pop(0))
        if "static" in pre:
            continue                # static data members are process-wide symbols: first inventory
        body = " ".join(words)
        m = MEMBER_RX.match(body)
        if not m or not m.group("type").strip():
            raise Fail("cannot parse data member of %s at %s:%d: %s" % ("::".join(cls_scope.classpath()), rel, text.count("\n", 0, off) + 1, st[:160]))
        ty = m.group("type").strip()
        if ty.split(" ")[0] in ("return", "delete", "new", "goto", "throw", "case", "else"):
            continue
        line = text.count("\n", 0, off + len(stmt) - len(stmt.lstrip())) + 1
        out.append({"cls": "::".join(cls_scope.classpath()), "member": m.group("name"), "pre": " ".join(pre), "type": ty, "ptr": m.group("ptr"),
                    "arr": m.group("arr") or "", "decl": (" ".join(pre + [body]))[:160], "loc": "%s:%d" % (rel, line)})
    return out


def write_rx(name):
    n = re.escape(name)
    pre = r"(?<![\w.>:])(?:this\s*->\s*)?"
    return re.compile(
        pre + n + r"\b\s*(?:=(?!=)|\+=|-=|\*=|/=|%=|\|=|&=|\^=|<<=|>>=|\+\+|--|\[[^\]]*\]\s*(?:=(?!=)|\+=|-=|\+\+|--)|"
        r"\.\s*(?:reset|push_back|emplace_back|emplace|insert|clear|resize|reserve|swap|release|erase|pop_back|assign|push|pop|expandToInclude|init|setToNull)\s*\()"
        r"|(?:\+\+|--)\s*(?:this\s*->\s*)?" + n + r"\b"
        r"|std::swap\s*\(\s*(?:this\s*->\s*)?" + n + r"\b|std::swap\s*\([^,()]*,\s*(?:this\s*->\s*)?" + n + r"\b")


def fn_owner(fn_scope, known_paths):
    """class path (list) owning this function definition, or None"""
    inline = fn_scope.parent.classpath() if fn_scope.parent is not None else []
    q = [re.sub(r"<[^<>]*>", "", c) for c in fn_scope.name.split("::")[:-1]]
    if inline:
        return inline
    # out-of-line: longest suffix of the qualifier that is a known class path
    for k in range(len(q), 0, -1):
        for start in range(0, len(q) - k + 1):
            cand = q[start:start + k]
            if tuple(cand) in known_paths and start + k == len(q):
                return cand
    return None


def outer_fn(scope):
    f, s = None, scope
    while s is not None:
        if s.kind == "fn":
            f = s
        s = s.parent
    return f


def main():
    ap = argparse.ArgumentParser()
    ap.add_argument("--repo", default=os.environ.get("VERIF_REPO", "/repo"))
    ap.add_argument("--out", required=True)
    a = ap.parse_args()
    try:
        members, trees = [], {}
        for rel in HEADERS:
            p = os.path.join(a.repo, rel)
            if not os.path.exists(p):
                raise Fail("missing header %s (class moved or renamed: update HEADERS and the theorem)" % rel)
            files = [rel]
            cpp = rel.replace("include/geos/", "src/").replace(".h", ".cpp")
            if os.path.exists(os.path.join(a.repo, cpp)):
                files.append(cpp)
            texts = {f: gi.strip_code(open(os.path.join(a.repo, f), errors="replace").read()) for f in files}
            roots = {f: parse(t) for f, t in texts.items()}
            mine = []
            for sc in walk(roots[rel]):
                if sc.kind == "class" and outer_fn(sc) is None:
                    mine += members_of(sc, rel, texts[rel])
            if not mine:
                # every header of the list declares data members; finding none means the scan failed
                raise Fail("no data member found in %s" % rel)
            known = {tuple(m["cls"].split("::")) for m in mine}
            by_cls = {}
            for m in mine:
                m["writers"] = set()
                by_cls.setdefault(m["cls"], []).append(m)
            for f in files:
                for sc in walk(roots[f]):
                    if sc.kind != "fn" or outer_fn(sc) is not sc:
                        continue
                    owner = fn_owner(sc, known)
                    if not owner:
                        continue
                    base = sc.name.split("::")[-1]
                    if base.lstrip("~") == owner[-1]:
                        continue            # constructor / destructor
                    body = texts[f][sc.start:sc.end]
                    for m in by_cls.get("::".join(owner), []):
                        if m["member"] in body and write_rx(m["member"]).search(body):
                            m["writers"].add(base)
            members += mine
        for m in members:
            m["tycls"] = gi.type_class(m["pre"], m["type"], m["ptr"])
            if m["arr"] and "*" in (m["type"] + m["ptr"]) and not re.search(r"\*\s*const\s*$", (m["type"] + m["ptr"]).strip()):
                m["tycls"] = "plain"
        members.sort(key=lambda m: (m["cls"], m["member"], m["loc"]))
        L = ["/- GENERATED by translate/shared_objects_inventory.py from the headers / sources of the classes that live inside prepared",
             "   geometries and built indexes — DO NOT EDIT.  One entry per non-static data member, with the member functions (constructors and",
             "   destructors excluded) whose body textually assigns or modifies it. -/",
             "import GeosModel.Model.Conc.SharedCells", "namespace GeosModel.Generated.SharedObjects", "open GeosModel.Conc", "",
             "def members : List Member := ["]
        rows = []
        for m in members:
            rows.append("  { name := %s, ty := .%s, decl := %s, loc := %s, writers := [%s] }" % (
                gi.lean_str(m["cls"] + "::" + m["member"]), m["tycls"], gi.lean_str(re.sub(r"\s+", " ", m["decl"])), gi.lean_str(m["loc"]),
                ", ".join(gi.lean_str(w) for w in sorted(m["writers"]))))
        L.append(",\n".join(rows))
        L += ["]", "", "end GeosModel.Generated.SharedObjects"]
        txt = "\n".join(L) + "\n"
        os.makedirs(os.path.dirname(os.path.abspath(a.out)), exist_ok=True)
        old = open(a.out).read() if os.path.exists(a.out) else None
        if old != txt:
            with open(a.out, "w") as f:
                f.write(txt)
        print("members=%d classes=%d plain=%d with_writers=%d changed=%d" % (
            len(members), len({m["cls"] for m in members}), sum(m["tycls"] == "plain" for m in members),
            sum(bool(m["writers"]) for m in members), int(old != txt)))
        return 0
    except Fail as e:
        print("shared_objects_inventory: FAILED: %s" % e, file=sys.stderr)
        return 3


if __name__ == "__main__":
    sys.exit(main())
