#!/usr/bin/env python3
"""C12 translator: capi/geos_c.h.in + capi/geos_ts_c.cpp  ->  lean/GeosModel/Generated/Api.lean

Re-run on every check ("tie by regeneration").  For every reentrant entry point (`*_r`) it records

  from the header : return C type class, parameter kinds with const-ness and ownership mode,
                    documented error value (taken from the declaration's own doc comment, or, for a
                    `\\see X` comment, from the documentation of the non-reentrant twin X), whether the
                    documentation says the result is owned by another object ("do not free").
  from the source : how the body is protected (one `execute` call, `execute` inside other control flow,
                    delegation to other entry points, a hand-written try/catch, nothing), which
                    `execute` overload and which literal error value, the literal `return`s outside
                    `execute`, whether the result's SRID is taken from the first geometry argument
                    (`X->setSRID(<first geom param>->getSRID())` in the body, or delegation to an entry
                    point that does it).

The translator refuses (non-zero exit, message on stderr) instead of guessing: an unparsable
declaration, an unknown parameter/return type, an `execute` call whose error literal it cannot read, an
entry point present in only one of {header, source, `nm -D libgeos_c.so`} are all fatal.

Usage: api_table.py [--repo /repo] [--lib path/to/libgeos_c.so] [--out file.lean] [--json file.json]
"""
import argparse, json, os, re, subprocess, sys


class TranslateError(Exception):
    pass


def die(msg):
    raise TranslateError(msg)


# ----------------------------------------------------------------------------- lexical helpers

def blank_comments_and_strings(s, keep_strings=False):
    """Same length as s; comments (and string/char literal contents) replaced by blanks."""
    out = []
    i, n = 0, len(s)
    while i < n:
        if s.startswith("//", i):
            while i < n and s[i] != "\n":
                out.append(" ")
                i += 1
        elif s.startswith("/*", i):
            j = s.find("*/", i + 2)
            j = n if j < 0 else j + 2
            out.append("".join(c if c == "\n" else " " for c in s[i:j]))
            i = j
        elif s[i] in "\"'":
            q = s[i]
            j = i + 1
            while j < n and s[j] != q:
                if s[j] == "\\":
                    j += 1
                j += 1
            body = s[i + 1:j]
            out.append(q + (body if keep_strings else "".join(c if c == "\n" else " " for c in body)) + q)
            i = j + 1
        else:
            out.append(s[i])
            i += 1
    return "".join(out)


def match_close(s, i, open_c, close_c):
    """s[i] == open_c ; index of the matching close_c"""
    assert s[i] == open_c, (s[i - 20:i + 20], open_c)
    d = 0
    n = len(s)
    while i < n:
        if s[i] == open_c:
            d += 1
        elif s[i] == close_c:
            d -= 1
            if d == 0:
                return i
        i += 1
    die("unbalanced %s%s" % (open_c, close_c))


def split_top(s, sep=","):
    parts, d, cur = [], 0, []
    for c in s:
        if c in "([{<":
            d += 1
        elif c in ")]}>":
            d -= 1
        if c == sep and d == 0:
            parts.append("".join(cur))
            cur = []
        else:
            cur.append(c)
    parts.append("".join(cur))
    return parts


# ----------------------------------------------------------------------------- C types -> kinds

OBJ_TYPES = {
    "GEOSGeometry": "geom", "Geometry": "geom", "GEOSGeom_t": "geom",
    "GEOSCoordSequence": "coordSeq", "CoordinateSequence": "coordSeq", "GEOSCoordSeq_t": "coordSeq",
    "GEOSPreparedGeometry": "prepared", "PreparedGeometry": "prepared",
    "GEOSSTRtree": "strtree",
    "GEOSWKTReader": "wktReader", "GEOSWKTWriter": "wktWriter",
    "GEOSWKBReader": "wkbReader", "GEOSWKBWriter": "wkbWriter",
    "GEOSGeoJSONReader": "jsonReader", "GEOSGeoJSONWriter": "jsonWriter",
    "GEOSBufferParams": "bufParams", "BufferParameters": "bufParams",
    "GEOSMakeValidParams": "mvParams",
    "GEOSClusterInfo": "clusterInfo",
    "GEOSCoverageCleanParams": "covParams",
}
# header typedefs that are already pointers
PTR_TYPEDEFS = {"GEOSGeom": ("geom", False), "GEOSCoordSeq": ("coordSeq", False)}
INT_TYPES = {"int", "unsigned int", "unsigned", "size_t", "std::size_t", "char", "unsigned char", "uint8_t",
             "enum GEOSGeomTypes", "GEOSMakeValidMethods", "enum GEOSMakeValidMethods", "GEOSPolygonHullParameterModes",
             "enum GEOSPolygonHullParameterModes", "enum GEOSVoronoiFlags", "enum GEOSPrecisionRules",
             "enum GEOSRelateBoundaryNodeRules", "enum GEOSValidFlags", "enum GEOSWKBByteOrders", "enum GEOSWKBFlavors",
             "enum GEOSBufCapStyles", "enum GEOSBufJoinStyles", "GEOSWKBFlavors", "GEOSWKBByteOrders", "long", "unsigned long"}
CALLBACK_TYPES = {"GEOSMessageHandler", "GEOSMessageHandler_r", "GEOSQueryCallback", "GEOSDistanceCallback",
                  "GEOSTransformXYCallback", "GEOSTransformXYZCallback", "GEOSInterruptCallback", "GEOSContextInterruptCallback"}


def norm_type(t):
    t = re.sub(r"\s+", " ", t.replace("*", " * ")).strip()
    t = t.replace("struct ", "")
    return t


def classify_type(t):
    """-> dict(cls, obj, const, depth).   cls in ctx|obj|objArr|str|bytes|dbl|int|outDbl|outInt|outStr|callback|opaque|void"""
    t0 = norm_type(t)
    toks = t0.split(" ")
    stars = toks.count("*")
    words = [w for w in toks if w not in ("*", "const")]
    base = " ".join(words)
    # const applying to the pointee = a `const` before the first star
    first_star = toks.index("*") if "*" in toks else len(toks)
    pointee_const = "const" in toks[:first_star]
    if base == "GEOSContextHandle_t":
        return dict(cls="ctx", obj="", const=False)
    if base in PTR_TYPEDEFS and stars == 0:
        return dict(cls="obj", obj=PTR_TYPEDEFS[base][0], const=pointee_const)
    if base in OBJ_TYPES:
        if stars == 1:
            return dict(cls="obj", obj=OBJ_TYPES[base], const=pointee_const)
        if stars == 2:
            return dict(cls="objArr", obj=OBJ_TYPES[base], const=pointee_const)
        if stars == 0:
            die("object type by value: %r" % t)
    if base in CALLBACK_TYPES:
        return dict(cls="callback", obj="", const=False)
    if base == "void":
        if stars == 0:
            return dict(cls="void", obj="", const=False)
        return dict(cls="opaque", obj="", const=pointee_const)
    if base == "double":
        if stars == 0:
            return dict(cls="dbl", obj="", const=False)
        if stars == 1:
            return dict(cls="dblBuf" if pointee_const else "outDbl", obj="", const=pointee_const)
        if stars == 2:
            return dict(cls="outDbl", obj="", const=False)
    if base in ("char", "unsigned char") and stars >= 1:
        if stars == 1 and pointee_const:
            return dict(cls="str" if base == "char" else "bytes", obj="", const=True)
        return dict(cls="outStr", obj="", const=False)
    if base in INT_TYPES:
        if stars == 0:
            return dict(cls="int", obj="", const=False)
        return dict(cls="intBuf" if pointee_const else "outInt", obj="", const=pointee_const)
    die("unknown C type %r (normalised %r)" % (t, t0))


def ret_class(t):
    """return type -> (retClass, objKind|'' , const)"""
    t0 = norm_type(t)
    c = classify_type(t0)
    cls = c["cls"]
    if cls == "void":
        return "void", "", False
    if cls == "obj":
        return "ptr", c["obj"], c["const"]
    if cls == "objArr":
        return "ptr", c["obj"] + "Arr", c["const"]
    if cls in ("str", "bytes", "outStr"):
        return "ptr", "buffer", c["const"]
    if cls == "opaque":
        return "ptr", "opaque", c["const"]
    if cls == "callback":
        return "ptr", "handler", False
    if cls == "ctx":
        return "ptr", "ctx", False
    if cls == "dbl":
        return "dbl", "", False
    if cls == "int":
        base = " ".join(w for w in t0.split(" ") if w != "const")
        if base == "char":
            return "charBool", "", False
        if base in ("size_t", "std::size_t"):
            return "size", "", False
        return "int", "", False
    if cls in ("intBuf", "outInt"):
        return "ptr", "buffer", c["const"]     # e.g. unsigned* GEOSCoverage... / int* arrays owned by caller
    if cls in ("outDbl", "dblBuf"):
        return "ptr", "buffer", c["const"]
    die("unknown return type %r" % t)


# ----------------------------------------------------------------------------- header

DECL_RE = re.compile(r"\bextern\b(?P<pre>[^;(){}]*?)\bGEOS_DLL\b(?P<post>[\s\*]*)(?P<name>[A-Za-z_]\w*)\s*\(", re.S)


def parse_param(p, fname):
    p = p.strip()
    if p in ("", "void"):
        return None
    # function-pointer parameter?
    if "(" in p:
        die("function-pointer parameter in %s: %r" % (fname, p))
    ma = re.match(r"^(.*?)(\b[A-Za-z_]\w*)\s*\[\s*\]\s*$", p, re.S)
    if ma:                                   # `T name[]` is `T* name`
        p = ma.group(1) + " * " + ma.group(2)
    p = re.sub(r"\s+", " ", p.replace("*", " * ")).strip()
    toks = p.split(" ")
    # last identifier is the name unless the declaration is unnamed
    name = ""
    if re.match(r"^[A-Za-z_]\w*$", toks[-1]) and len(toks) > 1 and toks[-1] not in ("int", "char", "double", "unsigned", "const", "long") \
            and not (" ".join(toks) in INT_TYPES) and toks[-1] not in OBJ_TYPES and toks[-1] not in CALLBACK_TYPES \
            and toks[-1] not in ("GEOSContextHandle_t", "size_t", "void", "GEOSGeom", "GEOSCoordSeq"):
        name = toks[-1]
        toks = toks[:-1]
    ty = " ".join(toks)
    c = classify_type(ty)
    c["name"] = name
    c["ctype"] = norm_type(ty)
    return c


def parse_header(path):
    raw = open(path, encoding="utf-8", errors="replace").read()
    code = blank_comments_and_strings(raw)
    # doc comments by end offset
    docs = [(m.start(), m.end(), m.group(0)) for m in re.finditer(r"/\*\*.*?\*/|/\*.*?\*/", raw, re.S)]
    decls = {}
    order = []
    n_extern = len(re.findall(r"\bextern\b", code))
    n_seen = 0
    for m in DECL_RE.finditer(code):
        name = m.group("name")
        po = m.end() - 1
        pc = match_close(code, po, "(", ")")
        tail = code[pc + 1:pc + 200]
        mt = re.match(r"\s*(GEOS_DEPRECATED\w*\s*(\([^)]*\))?)?\s*;", tail)
        if not mt:
            die("header: declaration of %s is not terminated as expected: %r" % (name, tail[:60]))
        ret = (m.group("pre") + " " + m.group("post")).strip()
        params = [parse_param(p, name) for p in split_top(code[po + 1:pc])]
        params = [p for p in params if p is not None]
        # the doc comment that ends just before this declaration
        doc = ""
        for (ds, de, dt) in reversed(docs):
            if de <= m.start():
                between = code[de:m.start()]
                if between.strip() == "":
                    doc = dt
                break
        if name in decls:
            die("header: %s declared twice" % name)
        decls[name] = dict(name=name, ret=norm_type(ret), params=params, doc=doc, pos=m.start())
        order.append(name)
        n_seen += 1
    # every `extern` in the header must be accounted for (the `extern "C" {` linkage block is one)
    n_linkage = len(re.findall(r'\bextern\s*"', code))
    if n_seen + n_linkage != n_extern:
        die("header: %d `extern` keywords but %d declarations parsed (+%d linkage blocks)" % (n_extern, n_seen, n_linkage))
    # declarations that carry GEOS_DLL but were not matched
    n_dll = len(re.findall(r"\bGEOS_DLL\b", code))
    if n_dll != n_seen:
        die("header: %d GEOS_DLL markers but %d declarations parsed" % (n_dll, n_seen))
    return decls, order


ERR_PATTERNS = [
    (re.compile(r"\bNULL\s+(?:is\s+returned\s+)?on\s+(?:exception|error|failure)", re.I), "null"),
    (re.compile(r"\bNULL\s+if\s+an\s+exception\s+occurr?ed", re.I), "null"),
    (re.compile(r"\bNULL\s+in\s+case\s+of\s+exception", re.I), "null"),
    (re.compile(r"(-?\d+)\s+on\s+(?:exception|error|failure)", re.I), None),
    (re.compile(r"(-?\d+)\s+if\s+an\s+exception\s+occurr?ed", re.I), None),
    (re.compile(r"(-?\d+)\s+in\s+case\s+of\s+exception", re.I), None),
]


def doc_error_value(doc):
    """first error phrase in a doc comment -> 'null' | int | None ; conflicting phrases are fatal"""
    text = re.sub(r"\s*\n\s*\*?\s*", " ", doc)
    found = []
    for rx, val in ERR_PATTERNS:
        for m in rx.finditer(text):
            v = val if val is not None else int(m.group(1))
            found.append((m.start(), v))
    found.sort(key=lambda x: x[0])
    vals = []
    for _, v in found:
        if v not in vals:
            vals.append(v)
    if not vals:
        return None, text
    if len(vals) > 1:
        return ("conflict", vals), text
    return vals[0], text


BORROWED_RE = re.compile(r"do not free|do not directly free|must NOT be destroyed|should not be (?:modified or )?freed|Owned by parent|"
                         r"pointer to internal storage|owned by the (?:parent|geometry)", re.I)
TRANSFER_ALL_RE = re.compile(r"ownership\s+of\s+the\s+pointed-to\s+objects\s+is\s+transferred", re.I)
TRANSFER_PARAM_RE = re.compile(r"\\param(?:\[\w+\])?\s+(\w+)\s+[^\\]*?ownership\s+passes", re.I | re.S)
OUT_PARAM_RE = re.compile(r"\\param\[out\]\s+(\w+)")


# ----------------------------------------------------------------------------- implementation

def parse_impl(path):
    raw = open(path, encoding="utf-8", errors="replace").read()
    code = blank_comments_and_strings(raw)
    anchor = code.find("inline void execute")
    if anchor < 0:
        die("source: the void `execute` overload was not found")
    st = raw.find('extern "C" {', anchor)
    if st < 0:
        die("source: extern \"C\" block after execute() not found")
    # the three overloads: what does each return on error?
    ov = {}
    for m in re.finditer(r"inline\s+(auto|void)\s+execute\s*\(", code[:st]):
        po = m.end() - 1
        pc = match_close(code, po, "(", ")")
        bo = code.find("{", pc)
        bc = match_close(code, bo, "{", "}")
        params = code[po + 1:pc]
        body = code[bo:bc + 1]
        nparams = len(split_top(params))
        rets = re.findall(r"\breturn\s+([^;]+);", body)
        # what the overload returns after the catch blocks (its last `return`) and when the context is not initialised
        if m.group(1) == "void":
            ov["void"] = dict(nparams=nparams, err=None)
        elif nparams == 3:
            if not rets or rets[-1].strip() != "errval" or any(r.strip() not in ("errval", "f()") for r in rets):
                die("source: the execute(errval) overload no longer returns errval on every error path: %s" % rets)
            ov["errval"] = dict(nparams=3, err="errval")
        else:
            if not rets or rets[-1].strip() != "nullptr" or any(r.strip() not in ("nullptr", "f()") for r in rets):
                die("source: the pointer execute overload no longer returns nullptr on every error path: %s" % rets)
            ov["null"] = dict(nparams=2, err="null")
        if m.group(1) != "void" or True:
            if "catch" not in body or "ERROR_MESSAGE" not in body:
                die("source: an execute overload no longer catches and reports")
    if set(ov) != {"void", "errval", "null"}:
        die("source: expected three execute overloads, found %s" % sorted(ov))
    i = code.find("{", st) + 1
    depth = 1
    funcs = {}
    order = []
    last_end = i
    n = len(code)
    while i < n:
        c = code[i]
        if c == "{":
            if depth == 1:
                hdr = code[last_end:i]
                j = match_close(code, i, "{", "}")
                body = code[i:j + 1]
                body_raw = blank_comments_and_strings(raw[i:j + 1], keep_strings=True)
                h = hdr.strip()
                if h.startswith("struct ") or h.startswith("class ") or h.startswith("namespace") or h.startswith("typedef") or h.startswith("enum "):
                    i = j + 1
                    # consume trailing ';'
                    last_end = i
                    continue
                if h.startswith("extern"):
                    # nested extern "C" { : descend
                    depth += 1
                    i += 1
                    last_end = i
                    continue
                mm = re.search(r"([A-Za-z_]\w*)\s*\(", h)
                if not mm:
                    die("source: cannot find a function name in %r" % h[:120])
                name = mm.group(1)
                po = h.find("(", mm.start())
                pc = match_close(h, po, "(", ")")
                if h[pc + 1:].strip() not in ("", "const"):
                    die("source: unexpected text after the parameter list of %s: %r" % (name, h[pc + 1:][:60]))
                ret = h[:mm.start()].strip()
                params = []
                for p in split_top(h[po + 1:pc]):
                    p = p.strip()
                    if p in ("", "void"):
                        continue
                    p2 = re.sub(r"\s+", " ", p.replace("*", " * ").replace("&", " & ")).strip().split(" ")
                    pname = p2[-1] if re.match(r"^[A-Za-z_]\w*$", p2[-1]) else ""
                    params.append(dict(name=pname, text=re.sub(r"\s+", " ", p)))
                if name in funcs:
                    die("source: %s defined twice" % name)
                funcs[name] = dict(name=name, ret=ret, params=params, body=body, body_raw=body_raw, pos=i)
                order.append(name)
                i = j + 1
                last_end = i
                continue
            depth += 1
        elif c == "}":
            depth -= 1
            if depth == 0:
                break
            last_end = i + 1
        elif c == ";" and depth == 1:
            last_end = i + 1
        i += 1
    return funcs, order


LIT_RE = re.compile(r"^\(?\s*(-?\d+(?:\.\d*)?)\s*\)?$")


def parse_literal(s, fname, where):
    s = s.strip()
    s = re.sub(r"^static_cast<[^>]+>\((.*)\)$", r"\1", s)
    s = re.sub(r"^\([A-Za-z_ ]+\*?\)\s*", "", s)
    if s in ("nullptr", "NULL", "(nullptr)"):
        return "null"
    m = LIT_RE.match(s)
    if m:
        v = float(m.group(1))
        if v != int(v):
            die("%s: non-integral error literal %r in %s" % (fname, s, where))
        return int(v)
    if s in ("false",):
        return 0
    if s in ("true",):
        return 1
    return None


def analyse_body(f, ret_is_void):
    """-> dict(wrap, overload, implErr, manualRets, delegates, outsideText)"""
    name = f["name"]
    body = f["body"].strip()
    inner = body[1:-1]
    execs = []
    out = inner
    guard = 0
    while True:
        m = re.search(r"(\breturn\s+)?\bexecute\s*\(", out)
        if not m:
            break
        guard += 1
        po = m.end() - 1
        pc = match_close(out, po, "(", ")")
        args = split_top(out[po + 1:pc])
        a0 = args[0].strip()
        if a0 not in ("extHandle", "handle"):
            die("%s: first argument of execute is %r, expected the context handle" % (name, a0))
        lam = [k for k, a in enumerate(args) if a.strip().startswith("[")]
        if not lam:
            die("%s: execute call without a lambda argument" % name)
        k = lam[0]
        if k == 1:
            ov, err = ("void", None) if ret_is_void else ("null", "null")
        elif k == 2:
            lit = parse_literal(args[1], name, "execute")
            if lit is None:
                die("%s: cannot read the error literal %r of execute" % (name, args[1].strip()))
            ov, err = "errval", lit
        else:
            die("%s: execute call with %d leading arguments" % (name, k))
        execs.append(dict(overload=ov, err=err, returned=bool(m.group(1)), lam="".join(args[k:])))
        out = out[:m.start()] + " @EXEC@ " + out[pc + 1:]
    # drop `using ...;` and local struct/class definitions
    rest = re.sub(r"\busing\s+[\w:]+\s*;", " ", out)
    while True:
        m = re.search(r"\b(struct|class)\s+\w+[^{;]*\{", rest)
        if not m:
            break
        bo = rest.find("{", m.start())
        bc = match_close(rest, bo, "{", "}")
        mt = re.match(r"\s*;", rest[bc + 1:])
        rest = rest[:m.start()] + " " + rest[bc + 1 + (mt.end() if mt else 0):]
    rest_n = re.sub(r"\s+", " ", rest).strip()
    delegates = [d for d in re.findall(r"\b(GEOS\w*_r|finishGEOS_r|initGEOS_r)\s*\(", rest) if d != name]
    manual = []
    for r in re.findall(r"\breturn\s+([^;]+);", rest):
        if "@EXEC@" in r:
            continue
        lit = parse_literal(r, name, "return")
        if lit is not None and lit not in manual:
            manual.append(lit)
    if execs and rest_n == "@EXEC@ ;":
        wrap = "execute"
    elif execs:
        wrap = "executePartial"
    elif re.search(r"\btry\s*\{", rest) and re.search(r"\bcatch\s*\(\s*\.\.\.\s*\)", rest):
        wrap = "tryCatch"
    elif delegates:
        wrap = "delegate"
    else:
        wrap = "none"
    errs = []
    for e in execs:
        if e["err"] not in errs:
            errs.append(e["err"])
    if len(errs) > 1:
        die("%s: several execute calls with different error values %s" % (name, errs))
    return dict(wrap=wrap, overload=execs[0]["overload"] if execs else "", implErr=errs[0] if errs else None,
                manualRets=manual, delegates=delegates, outside=rest_n if wrap != "execute" else "",
                returnsDelegate=[d for d in re.findall(r"\breturn\s+(?:\([^()]*\)\s*)?(GEOS\w*_r)\s*\(", rest)])


def srid_from_first(f, first_geom_names):
    """syntactic: some `X->setSRID(<first geom param>->getSRID())` in the body"""
    body = f["body"]
    for g in first_geom_names:
        if re.search(r"->\s*setSRID\s*\(\s*%s\s*->\s*getSRID\s*\(\s*\)\s*\)" % re.escape(g), body):
            return True
    return False


# ----------------------------------------------------------------------------- assemble

def lean_str(s):
    return '"' + s.replace("\\", "\\\\").replace('"', '\\"') + '"'


def lean_err(v):
    if v is None:
        return "none"
    if v == "null":
        return "(some .null)"
    return "(some (.int (%d)))" % v


def lean_errs(vs):
    def one(v):
        return ".null" if v == "null" else "(.int (%d))" % v
    return "[" + ", ".join(one(v) for v in vs) + "]"


def exported_r_symbols(lib):
    p = subprocess.run(["nm", "-D", "--defined-only", lib], stdout=subprocess.PIPE, stderr=subprocess.PIPE)
    if p.returncode != 0:
        die("nm failed on %s: %s" % (lib, p.stderr.decode()[:300]))
    syms = set()
    for line in p.stdout.decode().splitlines():
        t = line.split()
        if len(t) >= 3 and t[1] in ("T", "W", "t"):
            syms.add(t[2].split("@")[0])
    return syms


def build_table(repo, lib=None):
    hdr_path = os.path.join(repo, "capi", "geos_c.h.in")
    src_path = os.path.join(repo, "capi", "geos_ts_c.cpp")
    decls, dorder = parse_header(hdr_path)
    funcs, forder = parse_impl(src_path)
    r_decl = [n for n in dorder if n.endswith("_r")]
    r_impl = [n for n in forder if n.endswith("_r")]
    only_h = sorted(set(r_decl) - set(r_impl))
    only_c = sorted(set(r_impl) - set(r_decl))
    if only_h or only_c:
        die("entry points differ between header and source: only in header %s ; only in source %s" % (only_h, only_c))
    nm_checked = False
    if lib:
        syms = exported_r_symbols(lib)
        r_syms = sorted(s for s in syms if s.endswith("_r"))
        miss = sorted(set(r_syms) - set(r_impl))
        extra = sorted(set(r_impl) - set(r_syms))
        if miss or extra:
            die("entry points differ between `nm -D %s` and the source: exported but not parsed %s ; parsed but not exported %s" % (lib, miss, extra))
        nm_checked = True
    entries = []
    by_name = {}
    for name in r_decl:
        d = decls[name]
        f = funcs[name]
        rc, robj, rconst = ret_class(d["ret"])
        # parameter count must agree between header and source
        if len(d["params"]) != len(f["params"]):
            die("%s: %d parameters in the header, %d in the source" % (name, len(d["params"]), len(f["params"])))
        # documentation: own comment, or the twin named by \see
        doc = d["doc"]
        doc_src = name
        own_val, _ = doc_error_value(doc)
        twin = name[:-2]
        sees = re.findall(r"\\see\s+(\w+)", doc)
        tdoc = ""
        if twin in decls:
            tdoc = decls[twin]["doc"]
        elif sees and sees[0] in decls:
            tdoc = decls[sees[0]]["doc"]
            twin = sees[0]
        else:
            twin = ""
        val = own_val
        if val is None and tdoc:
            val, _ = doc_error_value(tdoc)
            doc_src = twin
        if isinstance(val, tuple):
            die("%s: the documentation (%s) names conflicting error values %s" % (name, doc_src, val[1]))
        alldoc = doc + "\n" + tdoc
        # borrowed result: the documentation says so, or a const geometry / coordinate sequence pointer
        # (neither can be passed to its destroy function)
        borrowed_ret = rc == "ptr" and (bool(BORROWED_RE.search(alldoc)) or (rconst and robj in ("geom", "coordSeq")))
        transfer_all = bool(TRANSFER_ALL_RE.search(alldoc))
        transfer_named = set(TRANSFER_PARAM_RE.findall(alldoc))
        out_named = set(OUT_PARAM_RE.findall(alldoc))
        is_destroy = bool(re.search(r"_destroy(_r)?$|^GEOSFree_r$|^GEOS_finish_r$|^finishGEOS_r$", name))
        params = []
        twin_params = decls[twin]["params"] if twin in decls else None
        for k, p in enumerate(d["params"]):
            cls = p["cls"]
            mode = "na"
            pname = p["name"] or f["params"][k]["name"]
            tw_name = ""
            if twin_params is not None:
                off = 1 if d["params"] and d["params"][0]["cls"] == "ctx" else 0
                if 0 <= k - off < len(twin_params):
                    tw_name = twin_params[k - off]["name"]
            names = {pname, tw_name, f["params"][k]["name"]}
            obj = p["obj"]
            if cls == "obj":
                if p["const"]:
                    mode = "const"
                elif is_destroy or (transfer_all and obj == "geom") or (names & transfer_named):
                    mode = "consume"
                else:
                    mode = "mut"
                if is_destroy and p["const"]:
                    mode = "consume"          # GEOSPreparedGeom_destroy_r takes a const pointer
            elif cls == "objArr":
                if p["const"]:
                    mode = "const"
                elif transfer_all or "_create" in name:
                    # documented transfer, or (createCompoundCurve: undocumented) an input array of a constructor
                    mode = "consume"
                elif names & out_named or True:
                    # a non-const GEOSGeometry** that is not a consumed array is an output slot
                    cls = "outObj"
                    mode = "na"
            elif cls == "opaque" and name == "GEOSFree_r":
                cls, obj, mode = "obj", "buffer", "consume"
            elif cls == "ctx" and name in ("GEOS_finish_r", "finishGEOS_r"):
                mode = "consume"
            params.append(dict(cls=cls, obj=obj, mode=mode, const=bool(p["const"]), name=pname, ctype=p["ctype"]))
        # a geometry handed to a function returning a prepared geometry stays borrowed by the result
        if robj == "prepared" and rc == "ptr":
            for p in params:
                if p["cls"] == "obj" and p["obj"] == "geom" and p["mode"] == "const":
                    p["mode"] = "retain"
        a = analyse_body(f, rc == "void")
        if rc == "ptr":                          # `return 0;` in a pointer-returning function is NULL
            a["manualRets"] = [("null" if v == 0 else v) for v in a["manualRets"]]
            a["manualRets"] = [v for k, v in enumerate(a["manualRets"]) if v not in a["manualRets"][:k]]
        first_geom = []
        for k, p in enumerate(params):
            if p["cls"] in ("obj", "objArr") and p["obj"] == "geom" and p["mode"] in ("const", "retain"):
                first_geom = [n for n in {p["name"], f["params"][k]["name"]} if n]
                break
        e = dict(name=name, ret=rc, retObj=robj, retConst=rconst, retBorrowed=borrowed_ret, params=params,
                 docErr=val, docSrc=doc_src if val is not None else "", wrap=a["wrap"], overload=a["overload"],
                 implErr=a["implErr"], manualRets=a["manualRets"], delegates=a["delegates"],
                 returnsDelegate=a["returnsDelegate"], outside=a["outside"],
                 sridDirect=srid_from_first(f, first_geom) if first_geom else False)
        entries.append(e)
        by_name[name] = e
    # delegation closure: wrapped-by-delegation, inherited error value, inherited SRID handling
    for e in entries:
        for dname in e["delegates"]:
            if dname not in by_name:
                die("%s delegates to %s which is not an entry point" % (e["name"], dname))

    def protected(e, seen=()):
        if e["wrap"] in ("execute", "executePartial", "tryCatch"):
            return True
        if e["wrap"] == "delegate":
            return all(protected(by_name[d], seen + (e["name"],)) for d in e["delegates"] if d not in seen)
        return False

    def inherited_err(e, seen=()):
        if e["implErr"] is not None or e["wrap"] != "delegate":
            return e["implErr"]
        for d in e["returnsDelegate"]:
            if d in by_name and d not in seen:
                v = inherited_err(by_name[d], seen + (e["name"],))
                if v is not None:
                    return v
        return None

    def srid(e, seen=()):
        if e["sridDirect"]:
            return True
        for d in e["returnsDelegate"]:
            if d in by_name and d not in seen and srid(by_name[d], seen + (e["name"],)):
                return True
        return False

    for e in entries:
        e["protected"] = protected(e)
        e["implErrEff"] = inherited_err(e)
        e["sridFromFirst"] = srid(e)
    entries.sort(key=lambda e: e["name"])
    return dict(entries=entries, nm_checked=nm_checked, counts=dict(header=len(r_decl), source=len(r_impl)))


KINDS = ["geom", "coordSeq", "prepared", "strtree", "wktReader", "wktWriter", "wkbReader", "wkbWriter", "jsonReader",
         "jsonWriter", "bufParams", "mvParams", "clusterInfo", "covParams", "buffer", "ctx"]
RET_OBJS = KINDS + ["geomArr", "opaque", "handler"]


def emit_lean(tab):
    L = []
    L.append("import GeosModel.Model.Api.Schema")
    L.append("/-! GENERATED by translate/api_table.py from capi/geos_c.h.in and capi/geos_ts_c.cpp — do not edit.")
    L.append("One record per reentrant C API entry point (`*_r`): %d entries. -/" % len(tab["entries"]))
    L.append("namespace GeosModel.Generated")
    L.append("open GeosModel.Api")
    L.append("")
    names = []
    for e in tab["entries"]:
        ident = "e_" + e["name"]
        names.append(ident)
        ps = []
        for p in e["params"]:
            if p["cls"] in ("obj", "objArr", "outObj"):
                if p["obj"] not in KINDS:
                    die("%s: object kind %r not in the schema" % (e["name"], p["obj"]))
                ps.append("⟨.%s .%s, .%s⟩" % (p["cls"], p["obj"], {"const": "const_", "mut": "modify"}.get(p["mode"], p["mode"])))
            elif p["cls"] == "ctx":
                ps.append("⟨.ctx, .%s⟩" % ("consume" if p["mode"] == "consume" else "na"))
            else:
                ps.append("⟨.%s, .na⟩" % p["cls"])
        ro = e["retObj"]
        if e["ret"] == "ptr":
            if ro in KINDS:
                rk = "(.obj .%s)" % ro
            elif ro == "geomArr":
                rk = "(.objArr .geom)"
            elif ro in ("opaque", "handler"):
                rk = "." + ro
            else:
                die("%s: return object %r not in the schema" % (e["name"], ro))
        else:
            rk = ".scalar"
        L.append("def %s : Entry :=" % ident)
        L.append("  { name := %s" % lean_str(e["name"]))
        L.append("    ret := .%s, retKind := %s, retBorrowed := %s" % (e["ret"], rk, "true" if e["retBorrowed"] else "false"))
        L.append("    params := [%s]" % ", ".join(ps))
        L.append("    docErr := %s, implErr := %s, manualRets := %s" % (lean_err(e["docErr"]), lean_err(e["implErrEff"]), lean_errs(e["manualRets"])))
        L.append("    wrap := .%s, guarded := %s, delegates := [%s]" % (e["wrap"], "true" if e["protected"] else "false",
                                                                      ", ".join(lean_str(d) for d in sorted(set(e["delegates"])))))
        L.append("    sridFromFirst := %s }" % ("true" if e["sridFromFirst"] else "false"))
        L.append("")
    L.append("def apiTable : List Entry :=")
    L.append("  [" + ",\n   ".join(names) + "]")
    L.append("")
    L.append("end GeosModel.Generated")
    return "\n".join(L) + "\n"


def generate(repo, out_path, lib=None, json_path=None):
    tab = build_table(repo, lib)
    txt = emit_lean(tab)
    old = None
    if os.path.exists(out_path):
        old = open(out_path, encoding="utf-8").read()
    if old != txt:
        os.makedirs(os.path.dirname(out_path), exist_ok=True)
        tmp = out_path + ".tmp%d" % os.getpid()
        with open(tmp, "w", encoding="utf-8") as fh:
            fh.write(txt)
        os.replace(tmp, out_path)
    if json_path:
        with open(json_path, "w") as fh:
            json.dump(tab, fh, indent=1, sort_keys=True)
    tab["changed"] = old != txt
    return tab


def main():
    ap = argparse.ArgumentParser()
    here = os.path.dirname(os.path.dirname(os.path.abspath(__file__)))
    ap.add_argument("--repo", default=os.environ.get("VERIF_REPO", "/repo"))
    ap.add_argument("--lib", default=None)
    ap.add_argument("--out", default=os.path.join(here, "lean", "GeosModel", "Generated", "Api.lean"))
    ap.add_argument("--json", default=None)
    a = ap.parse_args()
    try:
        tab = generate(a.repo, a.out, a.lib, a.json)
    except TranslateError as ex:
        print("api_table.py: REFUSED: %s" % ex, file=sys.stderr)
        return 3
    es = tab["entries"]
    print("entries=%d documented_errval=%d execute=%d executePartial=%d delegate=%d tryCatch=%d none=%d srid=%d nm_checked=%s changed=%s" % (
        len(es), sum(1 for e in es if e["docErr"] is not None), sum(1 for e in es if e["wrap"] == "execute"),
        sum(1 for e in es if e["wrap"] == "executePartial"), sum(1 for e in es if e["wrap"] == "delegate"),
        sum(1 for e in es if e["wrap"] == "tryCatch"), sum(1 for e in es if e["wrap"] == "none"),
        sum(1 for e in es if e["sridFromFirst"]), tab["nm_checked"], tab["changed"]))
    return 0


if __name__ == "__main__":
    sys.exit(main())
