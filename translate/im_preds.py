#!/usr/bin/env python3
"""translate/im_preds.py — regenerate lean/GeosModel/Generated/IMPreds.lean from the CURRENT source of
src/geom/IntersectionMatrix.cpp (+ the enumerators of include/geos/geom/Dimension.h).

Translated: the static `matches(int, char)` and the ten named predicates `isDisjoint … isCoveredBy`.  The accepted C++
is a small, closed fragment (anything else makes the translator REFUSE — it never guesses):

    body   ::= stmt*                                     (must end by returning on every path)
    stmt   ::= 'if' '(' expr ')' block | 'return' expr ';' | 'bool' IDENT '=' expr ';'
    block  ::= '{' stmt* '}' | stmt                      (an `if` block must itself end in `return`)
    expr   ::= || , && , == != , < > <= >= , ! , ( ) , integer, 'c', true, false, IDENT (parameter / local),
               Dimension::X, get(Location::X, Location::Y), matches(expr, expr), isDisjoint(), and a call of the
               function being defined (self recursion; emitted through a `self` parameter and unrolled twice).

Output is deterministic.  Props/C01.lean proves every generated function equal to the hand-written model of Base/IM
that the named_*_eq_pattern theorems are about, so a semantic change of the C++ breaks a proof obligation; the check then
enumerates all matrices over {F,0,1,2} and all dimension pairs for a distinguishing argument (driver stream `impreds`)."""
import os, re, sys


class Refuse(Exception):
    pass


FUNCS = ["matches", "isDisjoint", "isIntersects", "isTouches", "isCrosses", "isWithin", "isContains", "isEquals", "isOverlaps",
         "isCovers", "isCoveredBy"]
LEAN_NAME = {"matches": "matchesDim"}
LOC = {"INTERIOR": ".I", "BOUNDARY": ".B", "EXTERIOR": ".E"}


def strip_comments(s):
    s = re.sub(r"/\*.*?\*/", " ", s, flags=re.S)
    s = re.sub(r"//[^\n]*", " ", s)
    return s


def dimension_enum(repo):
    p = os.path.join(repo, "include/geos/geom/Dimension.h")
    s = strip_comments(open(p).read())
    m = re.search(r"enum\s+DimensionType\s*\{(.*?)\}", s, re.S)
    if not m:
        raise Refuse("Dimension.h: enum DimensionType not found")
    vals = {}
    for item in m.group(1).split(","):
        item = item.strip()
        if not item:
            continue
        mm = re.match(r"^(\w+)\s*=\s*(-?\d+)$", item)
        if not mm:
            raise Refuse("Dimension.h: cannot read enumerator `%s`" % item)
        vals[mm.group(1)] = int(mm.group(2))
    for need in ("False", "True", "P", "L", "A"):
        if need not in vals:
            raise Refuse("Dimension.h: enumerator %s missing" % need)
    return vals


TOK = re.compile(r"\s*(?:(?P<num>\d+)|(?P<chr>'(?:\\.|[^'\\])')|(?P<id>[A-Za-z_]\w*(?:::[A-Za-z_]\w*)*)|(?P<op>\|\||&&|==|!=|<=|>=|[(){};,!<>=]))")


def tokenize(s):
    toks, pos = [], 0
    s = s.strip()
    while pos < len(s):
        m = TOK.match(s, pos)
        if not m or m.end() == pos:
            raise Refuse("cannot tokenize near `%s`" % s[pos:pos + 40])
        pos = m.end()
        for k in ("num", "chr", "id", "op"):
            if m.group(k) is not None:
                toks.append((k, m.group(k)))
                break
    return toks


def find_function(src, name, want_params):
    """body text of IntersectionMatrix::<name> with the given parameter type list"""
    for m in re.finditer(r"IntersectionMatrix::%s\s*\(([^)]*)\)\s*(const)?\s*\{" % re.escape(name), src):
        params = [p.strip() for p in m.group(1).split(",") if p.strip()]
        types = [re.sub(r"\s+\w+$", "", p).strip() for p in params]
        names = [re.search(r"(\w+)$", p).group(1) for p in params]
        if types != want_params:
            continue
        depth, i = 1, m.end()
        while i < len(src) and depth:
            depth += {"{": 1, "}": -1}.get(src[i], 0)
            i += 1
        if depth:
            raise Refuse("%s: unbalanced braces" % name)
        return names, src[m.end():i - 1]
    raise Refuse("IntersectionMatrix::%s(%s) not found" % (name, ", ".join(want_params)))


class Parser:
    def __init__(self, toks, fname, params, ptypes, dims):
        self.t, self.p, self.fname, self.dims = toks, 0, fname, dims
        self.vars = dict(zip(params, ptypes))     # name -> 'int' | 'char' | 'bool'
        self.recursive = False

    def peek(self):
        return self.t[self.p] if self.p < len(self.t) else (None, None)

    def eat(self, val=None, kind=None):
        k, v = self.peek()
        if k is None or (val is not None and v != val) or (kind is not None and k != kind):
            raise Refuse("%s: expected %s, found %s" % (self.fname, val or kind, v))
        self.p += 1
        return v

    # ---- statements -> Lean expression (string)
    def stmts(self, until):
        """sequence of statements up to token `until` (None = end of input); returns a Lean Bool expression"""
        k, v = self.peek()
        if v == until or k is None:
            raise Refuse("%s: a path falls off the end without `return`" % self.fname)
        if v == "return":
            self.eat("return")
            e = self.expr()
            self.eat(";")
            k2, v2 = self.peek()
            if not (v2 == until or (until is None and k2 is None)):
                raise Refuse("%s: code after `return`" % self.fname)
            return e
        if v == "bool":
            self.eat("bool")
            name = self.eat(kind="id")
            self.eat("=")
            e = self.expr()
            self.eat(";")
            self.vars[name] = "bool"
            rest = self.stmts(until)
            return "(let %s : Bool := %s\n    %s)" % (name, e, rest)
        if v == "if":
            self.eat("if")
            self.eat("(")
            c = self.expr()
            self.eat(")")
            if self.peek()[1] == "{":
                self.eat("{")
                th = self.stmts("}")
                self.eat("}")
            else:
                k3, v3 = self.peek()
                if v3 != "return":
                    raise Refuse("%s: `if` without braces must guard a `return`" % self.fname)
                self.eat("return")
                th = self.expr()
                self.eat(";")
            if self.peek()[1] == "else":
                raise Refuse("%s: `else` is outside the fragment" % self.fname)
            rest = self.stmts(until)
            return "(if %s then %s\n    else %s)" % (c, th, rest)
        raise Refuse("%s: statement starting with `%s` is outside the fragment" % (self.fname, v))

    # ---- expressions
    def expr(self):
        return self.or_()

    def or_(self):
        e = self.and_()
        while self.peek()[1] == "||":
            self.eat("||")
            e = "(%s || %s)" % (e, self.and_())
        return e

    def and_(self):
        e = self.eq()
        while self.peek()[1] == "&&":
            self.eat("&&")
            e = "(%s && %s)" % (e, self.eq())
        return e

    def eq(self):
        e = self.rel()
        while self.peek()[1] in ("==", "!="):
            op = self.eat()
            r = self.rel()
            e = "(%s %s %s)" % (e, op, r)
        return e

    def rel(self):
        e = self.unary()
        while self.peek()[1] in ("<", ">", "<=", ">="):
            op = self.eat()
            r = self.unary()
            e = "decide (%s %s %s)" % (e, {"<": "<", ">": ">", "<=": "≤", ">=": "≥"}[op], r)
            e = "(" + e + ")"
        return e

    def unary(self):
        if self.peek()[1] == "!":
            self.eat("!")
            return "(!%s)" % self.unary()
        return self.primary()

    def primary(self):
        k, v = self.peek()
        if v == "(":
            self.eat("(")
            e = self.expr()
            self.eat(")")
            return e
        if k == "num":
            self.eat()
            return "(%s : Int)" % v
        if k == "chr":
            self.eat()
            c = v[1:-1]
            if len(c) != 1 or c in "'\\":
                raise Refuse("%s: character literal %s is outside the fragment" % (self.fname, v))
            return "'%s'" % c
        if k == "id":
            self.eat()
            if v.startswith("Dimension::"):
                n = v.split("::", 1)[1]
                if n not in self.dims:
                    raise Refuse("%s: unknown enumerator %s" % (self.fname, v))
                return "(%d : Int)" % self.dims[n]
            if self.peek()[1] == "(":
                return self.call(v)
            if v in self.vars:
                return v
            if v in ("true", "false"):
                return v
            raise Refuse("%s: unknown identifier `%s`" % (self.fname, v))
        raise Refuse("%s: unexpected token `%s`" % (self.fname, v))

    def args(self):
        self.eat("(")
        a = []
        if self.peek()[1] != ")":
            a.append(self.arg())
            while self.peek()[1] == ",":
                self.eat(",")
                a.append(self.arg())
        self.eat(")")
        return a

    def arg(self):
        k, v = self.peek()
        if k == "id" and v.startswith("Location::"):
            self.eat()
            n = v.split("::", 1)[1]
            if n not in LOC:
                raise Refuse("%s: unknown location %s" % (self.fname, v))
            return LOC[n]
        return self.expr()

    def call(self, name):
        a = self.args()
        if name == "get" and len(a) == 2 and all(x in LOC.values() for x in a):
            return "(m.get %s %s)" % (a[0], a[1])
        if name == "matches" and len(a) == 2:
            return "(matchesDim %s %s)" % (a[0], a[1])
        if name == "isDisjoint" and not a and self.fname != "isDisjoint":
            return "(isDisjoint m)"
        if name == self.fname and len(a) == len(self.vars_params()):
            self.recursive = True
            return "(self %s)" % " ".join(a)
        raise Refuse("%s: call of `%s` with %d argument(s) is outside the fragment" % (self.fname, name, len(a)))

    def vars_params(self):
        return [n for n, t in self.vars.items() if t in ("int", "char")]


SIGS = {"matches": ["int", "char"], "isDisjoint": [], "isIntersects": [], "isTouches": ["int", "int"], "isCrosses": ["int", "int"],
        "isWithin": [], "isContains": [], "isEquals": ["int", "int"], "isOverlaps": ["int", "int"], "isCovers": [], "isCoveredBy": []}
LTYPE = {"int": "Int", "char": "Char"}


def generate(repo, out_path=None):
    dims = dimension_enum(repo)
    srcp = os.path.join(repo, "src/geom/IntersectionMatrix.cpp")
    src = strip_comments(open(srcp).read())
    L = ["import GeosModel.Base.IM",
         "/-! GENERATED by translate/im_preds.py from src/geom/IntersectionMatrix.cpp and include/geos/geom/Dimension.h — do not edit.",
         "   The static `matches(int, char)` and the named predicates of `geom::IntersectionMatrix`, statement by statement. -/",
         "namespace GeosModel.Generated.IMPreds", "open GeosModel", ""]
    for f in FUNCS:
        names, body = find_function(src, f, SIGS[f])
        ps = Parser(tokenize(body), f, names, SIGS[f], dims)
        e = ps.stmts(None)
        ln = LEAN_NAME.get(f, f)
        params = " ".join("(%s : %s)" % (n, LTYPE[t]) for n, t in zip(names, SIGS[f]))
        mpar = "" if f == "matches" else "(m : IM) "
        if ps.recursive:
            selft = " → ".join([LTYPE[t] for t in SIGS[f]] + ["Bool"])
            L.append("def %sBody %s(self : %s) %s : Bool :=\n    %s" % (ln, mpar, selft, params, e))
            L.append("")
            L.append("/-- self recursion unrolled twice (a deeper recursion would make the equality with the model fail) -/")
            argn = " ".join(names)
            L.append("def %s %s%s : Bool :=\n    %sBody %s(fun %s => %sBody %s(fun %s => false) %s) %s" %
                     (ln, mpar, params, ln, "m " if mpar else "", argn, ln, "m " if mpar else "", " ".join("_" for _ in names), argn, argn))
        else:
            L.append("def %s %s%s : Bool :=\n    %s" % (ln, mpar, params, e))
        L.append("")
    L.append("end GeosModel.Generated.IMPreds")
    text = "\n".join(L) + "\n"
    if out_path:
        old = open(out_path).read() if os.path.exists(out_path) else None
        if old != text:
            with open(out_path, "w") as fh:
                fh.write(text)
    return text


if __name__ == "__main__":
    repo = sys.argv[1] if len(sys.argv) > 1 else "/repo"
    out = sys.argv[2] if len(sys.argv) > 2 else None
    try:
        t = generate(repo, out)
        if not out:
            sys.stdout.write(t)
    except Refuse as ex:
        sys.stderr.write("REFUSE: %s\n" % ex)
        sys.exit(3)
