#!/usr/bin/env python3
"""C13 translator: inventory of memory that more than one thread can reach.

  globals_inventory.py [--repo /repo] [--libdir <dir with libgeos.so, libgeos_c.so>] [--out Globals.lean]

Sources of truth (nothing is hard-coded about *which* cells exist):
  * the freshly built shared libraries: every OBJECT/TLS symbol of non-zero size that lives in a writable,
    non-relro section (.data .bss .tdata .tbss), local symbols included (`readelf -SW`, `readelf -sW`, `c++filt`);
  * the headers under include/geos/geom, include/geos/geom/prep, include/geos/index/strtree: every `mutable`
    data member (state that `const` methods of an object shared read-only between threads may still write).
For every cell the *declared type* is looked up in the source text (brace-tracked scan of src/, include/, capi/),
and reduced to a type class:  atomic | mutex | threadLocal | constAfterInit | guard | plain.

Skipped symbols (tool-chain owned, written only by the loader / at process start-up or exit, never by library code
running in a caller's thread): `DW.ref.*` (EH type-info indirection, relocated by ld.so), `__dso_handle`,
`__TMC_END__`, `completed.N` (crtstuff's run-once flag for global destructors), `std::__ioinit` (iostream
initialiser object of each TU).  vtables / typeinfo live in .data.rel.ro or .rodata and are not writable after
relocation; should one ever appear in .data it is skipped as well.
`guard variable for X` is kept, with class `guard`: the Itanium ABI's __cxa_guard_acquire/release make the
initialisation of function-local statics thread-safe (C++11 [stmt.dcl]/4); it is the synchronisation, not data.

Output is deterministic (sorted).  Any symbol or `mutable` line that cannot be resolved to exactly one declaration
makes the program exit non-zero with a message (a *new* global is precisely what must not pass silently)."""
import argparse, os, re, subprocess, sys

SECTIONS_WANTED = {".data", ".bss", ".tdata", ".tbss"}
SKIP_PREFIX = ("DW.ref.", "__dso_handle", "__TMC_END__", "completed.", "std::__ioinit", "vtable for ", "typeinfo for ",
               "typeinfo name for ", "VTT for ", "construction vtable for ", "__bss_start", "_edata", "_end", "__data_start")
HEADER_DIRS = ["include/geos/geom", "include/geos/geom/prep", "include/geos/index/strtree"]
SRC_DIRS = ["src", "include", "capi"]


class Fail(Exception):
    pass


def sh(cmd, inp=None):
    p = subprocess.run(cmd, input=inp, stdout=subprocess.PIPE, stderr=subprocess.PIPE)
    if p.returncode != 0:
        raise Fail("command failed: %s\n%s" % (" ".join(cmd), p.stderr.decode("utf-8", "replace")[-2000:]))
    return p.stdout.decode("utf-8", "replace")


# ------------------------------------------------------------------------------------------------ ELF side

def elf_cells(path):
    lib = os.path.basename(path).split(".so")[0]
    secs = {}
    for line in sh(["readelf", "-SW", path]).splitlines():
        m = re.match(r"\s*\[\s*(\d+)\]\s+(\S+)\s+(\S+)\s+[0-9a-f]+\s+[0-9a-f]+\s+[0-9a-f]+\s+\S+\s+(\S*)", line)
        if m:
            secs[int(m.group(1))] = (m.group(2), m.group(4))
    if not secs:
        raise Fail("no section table in " + path)
    out = sh(["readelf", "-sW", path])
    if ".symtab" not in out:
        raise Fail("%s has no .symtab (stripped): local statics would be invisible" % path)
    raw = {}
    for line in out.splitlines():
        m = re.match(r"\s*\d+:\s+([0-9a-f]+)\s+(\d+)\s+(\S+)\s+(\S+)\s+(\S+)\s+(\S+)\s+(\S+)", line)
        if not m:
            continue
        addr, size, typ, bind, vis, ndx, name = m.groups()
        if typ not in ("OBJECT", "TLS") or not ndx.isdigit():
            continue
        sec = secs.get(int(ndx))
        if not sec or sec[0] not in SECTIONS_WANTED:
            continue
        name = name.split("@")[0]
        raw[(name, addr)] = (int(size), sec[0], bind)
    names = sorted({k[0] for k in raw})
    dem = sh(["c++filt"], ("\n".join(names) + "\n").encode()).splitlines()
    if len(dem) != len(names):
        raise Fail("c++filt returned %d lines for %d names" % (len(dem), len(names)))
    dm = dict(zip(names, dem))
    cells = []
    for (name, addr), (size, sec, bind) in sorted(raw.items()):
        d = dm[name]
        if d.startswith(SKIP_PREFIX) or name.startswith(SKIP_PREFIX):
            continue
        if size == 0:
            continue
        cells.append({"lib": lib, "sym": d, "mangled": name, "size": size, "section": sec, "bind": bind})
    return cells


# ------------------------------------------------------------------------------------------------ source side

def strip_code(text):
    """remove comments and string/char literals, keep line structure"""
    out, i, n = [], 0, len(text)
    while i < n:
        c = text[i]
        if text.startswith("//", i):
            while i < n and text[i] != "\n":
                i += 1
        elif text.startswith("/*", i):
            j = text.find("*/", i + 2)
            j = n if j < 0 else j + 2
            out.append("".join(ch if ch == "\n" else " " for ch in text[i:j]))
            i = j
        elif c == '"' or c == "'":
            q = c
            j = i + 1
            while j < n and text[j] != q and text[j] != "\n":
                j += 2 if text[j] == "\\" else 1
            out.append(q + q)
            i = j + 1
        else:
            out.append(c)
            i += 1
    return "".join(out)


class SrcFile:
    """lines with the scope stack in force at the start of each line: list of ('ns'|'class'|'fn'|'other', name)"""

    def __init__(self, root, rel):
        self.rel = rel
        self.text = strip_code(open(os.path.join(root, rel), errors="replace").read())
        self.lines = self.text.split("\n")
        self.scopes = []
        stack, pending = [], ""
        for ln in self.lines:
            self.scopes.append(list(stack))
            s = ln
            for ch_i, ch in enumerate(s):
                if ch == "{":
                    head = (pending + " " + s[:ch_i]).strip()
                    head = head.split(";")[-1].split("}")[-1]
                    m_ns = re.search(r"\bnamespace\b\s*([\w:]*)\s*$", head) or re.search(r'\bextern\s*""\s*$', head)
                    m_cl = re.search(r"\b(class|struct|union)\b(?:\s+\w+)*?\s+(\w+)\s*(?:final\s*)?(?::[^{;]*)?$", head)
                    m_en = re.search(r"\benum\b", head)
                    if m_ns:
                        stack.append(("ns", m_ns.group(1) if m_ns.lastindex else ""))
                    elif m_en:
                        stack.append(("other", ""))
                    elif m_cl and "(" not in head.split(m_cl.group(1))[-1]:
                        stack.append(("class", m_cl.group(2)))
                    elif re.search(r"\)\s*(const|noexcept|override|final|\s)*(->[^{]*)?(:[^{]*)?$", head) and not re.search(r"\b(if|for|while|switch|catch)\s*\($", head.split("(")[0] + "("):
                        m_fn = re.search(r"([~\w]+)\s*\([^()]*(?:\([^()]*\)[^()]*)*\)\s*(const|noexcept|override|final|\s)*(->[^{]*)?(:[^{]*)?$", head)
                        stack.append(("fn", m_fn.group(1) if m_fn else ""))
                    else:
                        stack.append(("other", ""))
                    pending = ""
                    s = s[:ch_i] + " " + s[ch_i + 1:]
                elif ch == "}":
                    if stack:
                        stack.pop()
                    pending = ""
            tail = ln.split("{")[-1].split("}")[-1].split(";")[-1]
            pending = (pending + " " + tail) if ("{" not in ln and "}" not in ln and ";" not in ln) else tail


KEYWORDS = {"return", "delete", "new", "case", "else", "goto", "throw", "using", "typedef", "namespace", "class", "struct",
            "if", "while", "for", "switch", "friend", "template", "operator", "public", "private", "protected"}
SPEC = r"(?:(?:static|const|constexpr|thread_local|extern|inline|mutable|volatile|GEOS_DLL)\s+)*"


def decl_regex(v):
    return re.compile(
        r"^\s*(?P<pre>" + SPEC + r")(?P<type>[A-Za-z_][\w:<>,\s\*&]*?)\s*(?P<ptr>[\*&]*)\s*(?P<qual>(?:[A-Za-z_]\w*::)*)\b" + re.escape(v) +
        r"\b\s*(?P<arr>\[[^\]]*\])?\s*(?P<tail>=|;|\(|\{)")


def find_decls(files, v):
    rx = decl_regex(v)
    res = []
    for f in files:
        if v not in f.text:
            continue
        for i, ln in enumerate(f.lines):
            if v not in ln:
                continue
            m = rx.match(ln)
            if not m:
                continue
            ty = m.group("type").strip()
            first = re.split(r"[\s:<(]", (m.group("pre") + ty).strip())[0]
            if not ty or first in KEYWORDS or ty.split()[0] in KEYWORDS or ty.endswith("::"):
                continue
            if m.group("tail") == "(":
                inside = ln[m.end():].split(")")[0]
                if re.search(r"[A-Za-z_][\w:<>]*[\s\*&]+[A-Za-z_]\w*\s*(,|$)", inside.strip()) and "static" not in m.group("pre"):
                    continue      # looks like a function declaration
            res.append({"file": f.rel, "line": i + 1, "pre": m.group("pre").strip(), "type": ty, "ptr": m.group("ptr"),
                        "qual": m.group("qual"), "arr": m.group("arr") or "", "scope": f.scopes[i], "text": ln.strip()})
    return res


def split_top(sym):
    """split a demangled name on top-level '::'"""
    parts, depth, cur, i = [], 0, "", 0
    while i < len(sym):
        ch = sym[i]
        if ch in "(<[":
            depth += 1
        elif ch in ")>]":
            depth -= 1
        if depth == 0 and sym.startswith("::", i):
            parts.append(cur)
            cur = ""
            i += 2
            continue
        cur += ch
        i += 1
    parts.append(cur)
    return parts


def type_class(pre, ty, ptr):
    text = (pre + " " + ty + " " + ptr).strip()
    if "thread_local" in pre:
        return "threadLocal"
    if re.search(r"\bstd::atomic\b|\batomic<|\batomic_\w+", ty):
        return "atomic"
    if re.search(r"\bstd::(recursive_|shared_|timed_)?mutex\b|\bonce_flag\b", ty):
        return "mutex"
    if "*" in text:
        return "constAfterInit" if re.search(r"\*\s*const\s*$", text) else "plain"
    if re.search(r"\bconst\b|\bconstexpr\b", text):
        return "constAfterInit"
    return "plain"


def path_score(rel, comps):
    pc = set(re.split(r"[/.]", rel))
    return sum(1 for c in comps if c in pc)


def resolve_symbol(files, cell):
    sym = cell["sym"]
    if sym.startswith("guard variable for "):
        cell.update(kind="guard", name=sym, cls="guard", decl="(ABI guard of a function-local static)", loc="-")
        return
    comps = split_top(sym)
    v = comps[-1]
    quals = comps[:-1]
    fn_idx = [i for i, q in enumerate(quals) if "(" in q and not q.startswith("(anonymous")]
    is_fnstatic = bool(fn_idx) or (cell["lib"] == "libgeos_c" and len(quals) == 1 and not quals[0].startswith("("))
    ns = [q for q in quals if not q.startswith("(") and "(" not in q and q != "geos"]
    cands = find_decls(files, v)
    if is_fnstatic:
        fq = quals[fn_idx[-1]] if fn_idx else quals[-1]
        fname = fq.split("(")[0]
        owner = quals[fn_idx[-1] - 1] if fn_idx and fn_idx[-1] > 0 else ""
        keep = []
        for c in cands:
            if "static" not in c["pre"].split():
                continue
            infn = any(k == "fn" for k, _ in c["scope"])
            if not infn:
                continue
            fnnames = [n for k, n in c["scope"] if k == "fn"]
            if fname not in fnnames:
                continue
            keep.append(c)
        if len(keep) > 1 and owner and not owner.startswith("("):
            k2 = [c for c in keep if re.search(r"\b%s::%s\b" % (re.escape(owner), re.escape(fname)), open_text(files, c["file"])) or
                  os.path.basename(c["file"]).split(".")[0] == owner]
            keep = k2 or keep
        kind = "functionStatic"
    else:
        last = quals[-1] if quals else ""
        keep = [c for c in cands if c["qual"] and last and c["qual"].rstrip(":").split("::")[-1] == last
                and not any(k in ("fn", "other") for k, _ in c["scope"])]
        if not keep:
            keep = [c for c in cands if not c["qual"] and all(k == "ns" for k, _ in c["scope"])]
            if last and not last.startswith("("):
                k2 = [c for c in cands if not c["qual"] and c["scope"] and c["scope"][-1] == ("class", last) and "static" in c["pre"].split()]
                keep = keep + k2 if not keep else keep
        kind = "global"
    # de-duplicate identical declarations (extern decl in header + definition): prefer definitions (non-extern)
    nonext = [c for c in keep if "extern" not in c["pre"].split()]
    keep = nonext or keep
    if len(keep) > 1:
        best = max(path_score(c["file"], ns) for c in keep)
        keep = [c for c in keep if path_score(c["file"], ns) == best]
    if len(keep) > 1:
        tys = {(c["pre"], c["type"], c["ptr"]) for c in keep}
        if len(tys) == 1:
            keep = keep[:1]
    if len(keep) != 1:
        raise Fail("cannot resolve the declaration of %s symbol `%s` (%s): %d candidates %s" % (
            cell["lib"], sym, cell["section"], len(keep), [(c["file"], c["line"], c["text"]) for c in (keep or cands)][:6]))
    c = keep[0]
    cell.update(kind=kind, name=sym, cls=type_class(c["pre"], c["type"], c["ptr"]),
                decl=re.sub(r"\s+", " ", c["text"])[:160], loc="%s:%d" % (c["file"], c["line"]))
    # arrays of pointers to const are not const themselves
    if c["arr"] and "*" in (c["type"] + c["ptr"]) and not re.search(r"\*\s*const\s*$", (c["type"] + c["ptr"]).strip()):
        cell["cls"] = "plain"


_text_cache = {}


def open_text(files, rel):
    if rel not in _text_cache:
        for f in files:
            if f.rel == rel:
                _text_cache[rel] = f.text
    return _text_cache.get(rel, "")


def mutable_members(files):
    cells = []
    rx = re.compile(r"^\s*mutable\s+(?P<type>.+?)\s*(?P<ptr>[\*&]*)\s*\b(?P<name>[A-Za-z_]\w*)\s*(?:=[^;]*|\{[^;]*\})?;\s*$")
    for f in files:
        if not any(f.rel.startswith(d + "/") and f.rel.count("/") == d.count("/") + 1 for d in HEADER_DIRS):
            continue
        for i, ln in enumerate(f.lines):
            if not re.search(r"\bmutable\b", ln):
                continue
            if re.search(r"\)\s*mutable\b", ln):       # lambda
                continue
            m = rx.match(ln)
            classes = [n for k, n in f.scopes[i] if k == "class"]
            if not m or not classes:
                raise Fail("cannot parse `mutable` line %s:%d: %s" % (f.rel, i + 1, ln.strip()))
            ty = m.group("type").strip()
            cells.append({"lib": "header", "kind": "mutableMember", "name": "%s::%s" % (classes[-1], m.group("name")),
                          "cls": type_class("", ty, m.group("ptr")), "decl": re.sub(r"\s+", " ", ln.strip())[:160],
                          "loc": "%s:%d" % (f.rel, i + 1), "size": 0, "section": "-", "sym": "", "bind": "-"})
    return cells


def lean_str(s):
    return '"' + s.replace("\\", "\\\\").replace('"', '\\"') + '"'


def emit(cells, libs):
    L = []
    L.append("/- GENERATED by translate/globals_inventory.py from the freshly built %s and the headers — DO NOT EDIT." % " and ".join(libs))
    L.append("   One entry per cell of memory reachable from more than one thread: writable symbols (.data/.bss/.tdata/.tbss)")
    L.append("   of the shared libraries and `mutable` data members of geometry / prepared geometry / strtree classes. -/")
    L.append("import GeosModel.Model.Conc.Cells")
    L.append("namespace GeosModel.Generated.Globals")
    L.append("open GeosModel.Conc")
    L.append("")
    L.append("def cells : List Cell := [")
    rows = []
    for c in cells:
        rows.append("  { name := %s, lib := %s, kind := .%s, ty := .%s, decl := %s, loc := %s, size := %d }" % (
            lean_str(c["name"]), lean_str(c["lib"]), c["kind"], c["cls"], lean_str(c["decl"]), lean_str(c["loc"]), c["size"]))
    L.append(",\n".join(rows))
    L.append("]")
    L.append("")
    L.append("end GeosModel.Generated.Globals")
    return "\n".join(L) + "\n"


def main():
    ap = argparse.ArgumentParser()
    ap.add_argument("--repo", default=os.environ.get("VERIF_REPO", "/repo"))
    ap.add_argument("--libdir", required=True)
    ap.add_argument("--out", required=True)
    a = ap.parse_args()
    try:
        libs = []
        cells = []
        for so in ("libgeos.so", "libgeos_c.so"):
            p = os.path.realpath(os.path.join(a.libdir, so))
            if not os.path.exists(p):
                raise Fail("missing library " + p)
            libs.append(so)
            cells += elf_cells(p)
        files = []
        for d in SRC_DIRS:
            for root, _, fs in os.walk(os.path.join(a.repo, d)):
                for fn in sorted(fs):
                    if fn.endswith((".cpp", ".h", ".hpp", ".inl", ".c")):
                        files.append(SrcFile(a.repo, os.path.relpath(os.path.join(root, fn), a.repo)))
        files.sort(key=lambda f: f.rel)
        for c in cells:
            resolve_symbol(files, c)
        cells += mutable_members(files)
        order = {"global": 0, "functionStatic": 1, "guard": 2, "mutableMember": 3}
        cells.sort(key=lambda c: (c["lib"], order[c["kind"]], c["name"], c["loc"]))
        seen = set()
        uniq = []
        for c in cells:
            k = (c["lib"], c["kind"], c["name"], c["loc"])
            if k in seen:
                continue
            seen.add(k)
            uniq.append(c)
        txt = emit(uniq, libs)
        os.makedirs(os.path.dirname(os.path.abspath(a.out)), exist_ok=True)
        old = open(a.out).read() if os.path.exists(a.out) else None
        if old != txt:
            with open(a.out, "w") as f:
                f.write(txt)
        print("cells=%d globals=%d functionStatics=%d guards=%d mutableMembers=%d plain=%d changed=%d" % (
            len(uniq), sum(c["kind"] == "global" for c in uniq), sum(c["kind"] == "functionStatic" for c in uniq),
            sum(c["kind"] == "guard" for c in uniq), sum(c["kind"] == "mutableMember" for c in uniq),
            sum(c["cls"] == "plain" for c in uniq), int(old != txt)))
        return 0
    except Fail as e:
        print("globals_inventory: FAILED: %s" % e, file=sys.stderr)
        return 3


if __name__ == "__main__":
    sys.exit(main())
