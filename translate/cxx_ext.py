"""translate/cxx_ext.py — extensions of the generic translator used by the C09 / C17 specs (`SPEC["parser_class"] = ExtParser`).

cxx2lean.Parser is subclassed, never patched; everything here keeps its rule: translate statement by statement or raise
`Refuse` — no guessing.  What is added (each item only fires on the exact syntax named):

tokens      hex literals `0x…` (typed as C++ types them: `int` below 2^31, else 32-bit unsigned), the compound operators
            `|=` `&=`, `std::unique_ptr<T>` as the single type name `UPtr_T`, `std::vector<…>` as `Vec_…`
region      `f["region"] = {"from": "<tokens>", "until": "<tokens>"|None, "outputs": [locals]}`: translate only the statements
            from the (unique) anchor `from` (inclusive) up to the (unique) anchor `until` (exclusive); the values of the named
            locals at the end of the region are returned as a tuple (the spec's `ret` is a configured product type).  Control
            must reach the end of the region (no return inside unless `until` is None).  Inputs are declared as `fields`.
            `f["rest"] = {"call": "<C++ call expression>"}`: instead of outputs, `return <call>;` is appended to the region — the
            rest of the function is abstracted to that configured oracle call (stated in the spec and in the bridge theorem).
bit ops     binary `|` `&` with C precedence (between `&&` and `==`); on `int` they are the configured 32-bit two's complement
            functions (spec["bitops"]), on unsigned values Lean's `|||` `&&&`; `<<` `>>` on unsigned values with a literal
            shift count (`<<` truncated to 32 bits: spec["bitops"]["shl32"]); `^` `~` refused
literals    a mixed signed/unsigned operation is accepted when the signed side is a *non-negative integer constant
            expression* (digits, +, *, or `c ? a : b` with such arms): C++ converts it to unsigned without changing its value
            `sizeof(double)` = 8; `static_cast<int>(unsigned)` = the configured wrap-around function
statements  `f(e);` for `spec["stmt_calls"][f] = {"append_to": state}` — the call's argument is appended to a list-valued
            state member (an output stream seen as the list of values written)
            `x.m(args);` for `spec["mutators"][".m"]` on a mutable local / state of struct type: `x := lean x args`
            `while (c) S` in `monad: except` functions with a declared field `whileFuel`: at most `whileFuel` iterations, then
            `throw "while: out of fuel"` if `c` still holds — whenever the result is `ok v`, the C++ loop terminates with `v`
            `std::stringstream s;` / `s << …;` (message building for an exception; the translator drops messages) are skipped
objects     `T xs;` for a configured type with `"empty": <lean>` (a container: default construction = that value);
            `T obj(args);` for a configured type with `"ctor": {"args": […], "lean": f}` (a value class: `obj := f args`)
pointers    `nullptr` (type `null`, converts to any configured `"nullable": True` type as spec["null"], default `none`);
            `p == nullptr`, `p != nullptr` on nullable types -> `Option.isNone` / `Option.isSome`; `if (p)` / `!p` likewise;
            `static_cast<const T*>(e)` between configured opaque pointer types that share one Lean carrier is the identity;
            `std::move(e)` and `e.release()` / `e.get()` are the identity (ownership is not modelled)
            a value of a configured pointee type returned where a nullable type is expected is wrapped with spec["some"]
"""
import os, re, sys

# when cxx2lean.py runs as a script *without* re-importing itself it is the module `__main__`; a plain `import cxx2lean` would then create a second copy whose
# Parser / Refuse / strip_comments are not the ones `generate` uses
_main = sys.modules.get("__main__")
if "cxx2lean" not in sys.modules and getattr(_main, "translate_function", None) is not None and \
        os.path.basename(getattr(_main, "__file__", "") or "") == "cxx2lean.py":
    sys.modules["cxx2lean"] = _main
import cxx2lean as C
from cxx2lean import T, INT, NAT, BOOL, VOID, Refuse, indent

NULL = T("null")


# ---------------------------------------------------------------------------------------------- inactive debug blocks
# cxx2lean.tokenize has no rule for `#`: a function body containing `#if DEBUG_X … #endif` is refused as a whole.  Such blocks
# are dead code unless the macro is defined; they are dropped here when (a) the macro's name is DEBUG_* / GEOS_DEBUG*, and (b) the
# file itself never `#define`s it (comments are stripped first, so a commented-out define does not count).  Assumption recorded
# in the manifest: no DEBUG_* macro is defined on the compiler command line.  Any other directive is left in place (and refused
# by the tokenizer if it is inside a translated body).
_DEBUG = re.compile(r"^(?:DEBUG_\w+|GEOS_DEBUG\w*)$")
_orig_strip = C.strip_comments


def drop_inactive_debug_blocks(s):
    if "#if" not in s:
        return s
    defined = set(re.findall(r"^[ \t]*#[ \t]*define[ \t]+(\w+)", s, re.M))
    out, stack = [], []          # stack of (kind, dropping) with kind in debug|other
    for line in s.split("\n"):
        m = re.match(r"^[ \t]*#[ \t]*(if|ifdef|ifndef|else|elif|endif)\b[ \t]*(.*?)[ \t]*$", line)
        if not m:
            if not any(d for _, d in stack):
                out.append(line)
            else:
                out.append("")
            continue
        d, arg = m.group(1), m.group(2)
        if d in ("if", "ifdef", "ifndef"):
            if d in ("if", "ifdef") and _DEBUG.match(arg) and arg not in defined:
                stack.append(["debug", True]); out.append("")
            else:
                stack.append(["other", False])
                out.append(line if not any(dd for _, dd in stack) else "")
        elif d in ("else", "elif"):
            if stack and stack[-1][0] == "debug" and d == "else":
                stack[-1][1] = False; out.append("")
            else:
                out.append(line if not any(dd for _, dd in stack) else "")
        else:
            if stack:
                kind, _ = stack.pop()
                out.append("" if kind == "debug" else (line if not any(dd for _, dd in stack) else ""))
            else:
                out.append(line)
    return "\n".join(out)


def _strip_comments_ext(s):
    return drop_inactive_debug_blocks(_orig_strip(s))


if getattr(C.strip_comments, "__name__", "") != "_strip_comments_ext":
    C.strip_comments = _strip_comments_ext


def toks_of(text):
    return C.tokenize(text, "anchor")


def find_anchor(toks, anchor, what, name):
    a = preprocess(toks_of(anchor), name)
    hits = [i for i in range(len(toks) - len(a) + 1) if toks[i:i + len(a)] == a]
    if len(hits) != 1:
        raise Refuse("%s: region anchor %s `%s` occurs %d times in the body (must be exactly once)" % (name, what, anchor, len(hits)))
    return hits[0]


def preprocess(toks, name):
    out, i, n = [], 0, len(toks)
    while i < n:
        k, v = toks[i]
        nk, nv = toks[i + 1] if i + 1 < n else (None, None)
        if k == "num" and v == "0" and nk == "id" and re.match(r"^[xX][0-9a-fA-F]+[uUlL]*$", nv):
            out.append(("num", "0" + nv)); i += 2; continue
        if k == "op" and v in ("|", "&") and (nk, nv) == ("op", "="):
            out.append(("op", v + "=")); i += 2; continue
        if k == "id" and v in ("std::unique_ptr", "std::vector") and (nk, nv) == ("op", "<"):
            j, depth, inner = i + 2, 1, []
            while j < n and depth:
                kk, vv = toks[j]
                if kk == "op" and vv == "<":
                    depth += 1
                elif kk == "op" and vv == ">":
                    depth -= 1
                elif kk == "op" and vv == ">>":
                    depth -= 2
                if depth > 0:
                    inner.append(vv)
                j += 1
            if depth < 0 or j > n:
                raise Refuse("%s: unbalanced template argument list after %s" % (name, v))
            ids = [w.split("::")[-1] for w in inner if re.match(r"^[A-Za-z_]", w) and w not in ("const", "std::unique_ptr", "geom")]
            if not ids:
                raise Refuse("%s: cannot name the template type %s<%s>" % (name, v, " ".join(inner)))
            out.append(("id", ("UPtr_" if v == "std::unique_ptr" else "Vec_") + "_".join(ids))); i = j; continue
        out.append((k, v)); i += 1
    return out


class ExtParser(C.Parser):
    def __init__(self, spec, f, repo, toks, params):
        toks = preprocess(toks, f["name"])
        reg = f.get("region")
        if reg:
            a = find_anchor(toks, reg["from"], "from", f["name"])
            b = find_anchor(toks, reg["until"], "until", f["name"]) if reg.get("until") else len(toks)
            if b <= a:
                raise Refuse("%s: region anchors are out of order" % f["name"])
            toks = toks[a:b]
            if "rest" in f:          # the remainder of the function is abstracted to one configured (oracle) call
                toks = toks + [("id", "return")] + preprocess(toks_of(f["rest"]["call"]), f["name"]) + [("op", ";")]
        C.Parser.__init__(self, spec, f, repo, toks, params)
        self.streams = set()
        self.natver = {}                   # Lean text of an int-typed `c ? a : b` with constant non-negative arms -> its Nat version

    # ------------------------------------------------------------------ region end
    def stmts_until_end(self):
        lines, term = C.Parser.stmts_until_end(self)
        reg = self.f.get("region")
        if not reg:
            return lines, term
        if reg.get("until") and term and "rest" not in self.f:
            raise self.R("control does not reach the end of the region")
        if term:
            return lines, term
        if "rest" in self.f:
            raise self.R("internal: region with `rest` must end in the appended return")
        else:
            outs = [self.read_var(o)[0] for o in reg.get("outputs", [])]
            if not outs:
                raise self.R("region without outputs")
            v = outs[0] if len(outs) == 1 else "(" + ", ".join(outs) + ")"
        return lines + [(0, "return %s" % self.return_tuple(v))], True

    # ------------------------------------------------------------------ constants and conversions
    def expr(self):
        c = self.or_()
        if self.at("?"):
            self.eat("?")
            a = self.expr()
            self.eat(":")
            b = self.expr()
            ea, eb, ty = self.unify(a[0], a[1], b[0], b[1], "?:")
            cond = self.truth(*c)
            text = "(if %s then %s else %s)" % (cond, ea, eb)
            if ty.kind == "int":
                na, nb = self.const_nat(ea), self.const_nat(eb)
                if na is not None and nb is not None:
                    self.natver[text] = "(if %s then %s else %s)" % (cond, na, nb)
            return text, ty
        return c

    def const_nat(self, e):
        if e in self.natver:
            return self.natver[e]
        s = e.replace(": Int", ":")
        if re.fullmatch(r"[\s()\d:+*]+", s) and re.search(r"\d", s):
            return e.replace(": Int)", ": Nat)")
        return None

    def unify(self, a, ta, b, tb, op):
        if {ta.kind, tb.kind} == {"int", "nat"}:
            if ta.kind == "int":
                c = self.const_nat(a)
                if c is not None:
                    return c, b, NAT
            else:
                c = self.const_nat(b)
                if c is not None:
                    return a, c, NAT
        return C.Parser.unify(self, a, ta, b, tb, op)

    def nullable(self, t):
        return t.kind == "struct" and self.spec["types"].get(t.name, {}).get("nullable")

    def carrier(self, t):
        return self.spec["types"][t.name]["lean"] if t.kind == "struct" else None

    def coerce(self, e, t, to, what="operand"):
        if t == to:
            return e
        if t.kind == "int" and to.kind == "nat":
            c = self.const_nat(e)
            if c is not None:
                return c
        if t.kind == "null" and self.nullable(to):
            return self.spec.get("null", "none")
        if t.kind == "struct" and to.kind == "struct":
            if self.carrier(t) == self.carrier(to) and (bool(self.nullable(t)) == bool(self.nullable(to))):
                return e                                     # unique_ptr<Point> -> unique_ptr<Geometry>, Point* -> Geometry*
            if self.nullable(to) and not self.nullable(t) and self.spec["types"][t.name].get("wrap_some"):
                return "(%s %s)" % (self.spec.get("some", "some"), e)
        return C.Parser.coerce(self, e, t, to, what)

    def truth(self, e, t):
        if self.nullable(t):
            return "(Option.isSome %s)" % e
        return C.Parser.truth(self, e, t)

    def number(self, v):
        m = re.match(r"^0[xX]([0-9a-fA-F]+)([uUlL]*)$", v)
        if m:
            val = int(m.group(1), 16)
            if val >= 2 ** 32:
                raise self.R("hex literal %s does not fit 32 bits" % v)
            if val < 2 ** 31 and "u" not in m.group(2).lower():
                return "(%d : Int)" % val, INT
            return "(%d : Nat)" % val, NAT
        return C.Parser.number(self, v)

    def cast(self, e, ty):
        if ty.kind == "int" and e[1].kind == "nat":
            fn = self.spec.get("bitops", {}).get("u32_as_int")
            if not fn:
                raise self.R("cast of an unsigned value to int needs spec[bitops][u32_as_int]")
            return "(%s %s)" % (fn, e[0]), INT
        if ty.kind == "nat" and e[1].kind == "int":
            c = self.const_nat(e[0])
            if c is not None:
                return c, NAT
        if ty.kind == "struct" and e[1].kind == "struct" and self.carrier(ty) == self.carrier(e[1]) and bool(self.nullable(ty)) == bool(self.nullable(e[1])):
            return e[0], ty
        return C.Parser.cast(self, e, ty)

    # ------------------------------------------------------------------ expressions
    def and_(self):
        e = self.bitor_()
        while self.at("&&"):
            self.eat()
            r = self.bitor_()
            e = ("(%s && %s)" % (self.truth(*e), self.truth(*r)), BOOL)
        return e

    def bitor_(self):
        e = self.bitxor_()
        while self.peek() == ("op", "|"):
            self.eat()
            r = self.bitxor_()
            e = self.bitop("|", e, r)
        return e

    def bitxor_(self):
        e = self.bitand_()
        if self.peek() == ("op", "^"):
            raise self.R("operator `^` is outside the fragment")
        return e

    def bitand_(self):
        e = self.eq()
        while self.peek() == ("op", "&"):
            self.eat()
            r = self.eq()
            e = self.bitop("&", e, r)
        return e

    def bitop(self, op, a, b):
        ea, eb, ty = self.unify(a[0], a[1], b[0], b[1], op)
        if ty.kind == "nat":
            return "(%s %s %s)" % (ea, {"|": "|||", "&": "&&&"}[op], eb), NAT
        if ty.kind == "int":
            fn = self.spec.get("bitops", {}).get({"|": "int_or", "&": "int_and"}[op])
            if not fn:
                raise self.R("`%s` on int needs spec[bitops]" % op)
            return "(%s %s %s)" % (fn, ea, eb), INT
        raise self.R("bitwise `%s` on %r" % (op, ty))

    def rel(self):
        e = self.shift_()
        while self.peek()[0] == "op" and self.peek()[1] in ("<", ">", "<=", ">="):
            op = self.eat()
            r = self.shift_()
            e = self.compare(op, e, r)
        return e

    def shift_(self):
        e = self.add()
        while self.peek() in (("op", "<<"), ("op", ">>")):
            op = self.eat()
            r = self.add()
            m = re.fullmatch(r"\((\d+) : Int\)", r[0])
            if not m or int(m.group(1)) > 31:
                raise self.R("shift by a non-literal count")
            k = m.group(1)
            if e[1].kind == "nat":
                if op == ">>":
                    e = ("(%s >>> %s)" % (e[0], k), NAT)
                else:
                    fn = self.spec.get("bitops", {}).get("shl32")
                    if not fn:
                        raise self.R("`<<` on unsigned needs spec[bitops][shl32]")
                    e = ("(%s %s %s)" % (fn, e[0], k), NAT)
            elif e[1].kind == "int" and op == ">>":
                fn = self.spec.get("bitops", {}).get("int_sar")
                if not fn:
                    raise self.R("`>>` on int needs spec[bitops][int_sar]")
                e = ("(%s %s %s)" % (fn, e[0], k), INT)
            else:
                raise self.R("`%s` on %r is outside the fragment" % (op, e[1]))
        return e

    def compare(self, op, a, b):
        # p == nullptr / p != nullptr
        if op in ("==", "!=") and (a[1].kind == "null") != (b[1].kind == "null"):
            p = b if a[1].kind == "null" else a
            if not self.nullable(p[1]):
                raise self.R("comparison of a non-nullable value with nullptr")
            return "(%s %s)" % ("Option.isNone" if op == "==" else "Option.isSome", p[0]), BOOL
        return C.Parser.compare(self, op, a, b)

    def unary(self):
        if self.peek() == ("op", "*"):
            self.eat()
            e = self.unary()
            if e[1].kind == "struct" and e[1].name.endswith("*") and e[1].name[:-1] in self.spec.get("types", {}) \
                    and self.carrier(self.ctype(e[1].name[:-1])) == self.carrier(e[1]):
                return e[0], self.ctype(e[1].name[:-1])
            raise self.R("dereference of a value of type %r is outside the fragment" % e[1])
        return C.Parser.unary(self)

    def primary(self):
        k, v = self.peek()
        if k == "id" and v in self.spec.get("types", {}) and self.peek(1) == ("op", "(") and v.startswith("UPtr_"):
            # functional cast  std::unique_ptr<T>(e)
            self.eat(); self.eat("(")
            e = self.expr()
            self.eat(")")
            return self.coerce(e[0], e[1], self.ctype(v), "unique_ptr construction"), self.ctype(v)
        if k == "id" and v == "sizeof":
            self.eat(); self.eat("(")
            ty = self.eat(kind="id")
            self.eat(")")
            if ty != "double":
                raise self.R("sizeof(%s) is outside the fragment" % ty)
            return "(8 : Nat)", NAT
        if k == "id" and v == "nullptr":
            self.eat()
            return self.spec.get("null", "none"), NULL
        if k == "id" and v == "std::move" and self.peek(1) == ("op", "("):
            self.eat(); self.eat("(")
            e = self.expr()
            self.eat(")")
            return e
        if k == "id" and v in ("static_cast", "detail::down_cast", "down_cast") and self.peek(1) == ("op", "<"):
            # pointer casts: static_cast<const T*>(e)
            j = self.p + 2
            words = []
            while j < len(self.t) and self.t[j] != ("op", ">"):
                words.append(self.t[j][1]); j += 1
            if "*" in words:
                tyname = C.norm_type(" ".join(words))
                self.p = j + 1
                self.eat("(")
                e = self.expr()
                self.eat(")")
                return self.cast(e, self.ctype(tyname))
        return C.Parser.primary(self)

    def index(self, e, i):
        if i[1].kind == "int":
            c = self.const_nat(i[0])
            if c is not None:
                i = (c, NAT)
        return C.Parser.index(self, e, i)

    def method(self, e, m, args):
        if m in ("release", "get") and not args and e[1].kind == "struct" and \
                (self.nullable(e[1]) or self.spec["types"][e[1].name].get("owned")):
            return e
        ms = self.spec.get("methods", {})
        d = (ms.get("%s.%s" % (e[1].name, m)) if e[1].name else None) or ms.get("." + m)
        if d is None:
            raise self.R("method call `%s.%s(…)` (receiver type %r) is not configured in the spec" % (e[0], m, e[1]))
        if isinstance(d, list):                      # overloads: by arity, then by exact argument types
            dd = [x for x in d if len(x.get("args", [])) == len(args)]
            if len(dd) > 1:
                dd = [x for x in dd if all(self.ctype(t) == a[1] for t, a in zip(x["args"], args))]
            if len(dd) != 1:
                raise self.R("call of method `%s` with argument types %s matches %d configured overloads" % (m, [a[1] for a in args], len(dd)))
            d = dd[0]
        ats = d.get("args", [])
        if len(ats) != len(args):
            raise self.R("method `%s` called with %d argument(s), spec says %d" % (m, len(args), len(ats)))
        ca = [self.coerce(a[0], a[1], self.ctype(t), "argument of " + m) for a, t in zip(args, ats)]
        if d.get("kind") == "param":                 # an abstract oracle: becomes a function parameter of the generated definition
            if d not in [x[1] for x in self.used_params]:
                self.used_params.append((d["lean"], d))
        return "(%s %s%s)" % (d["lean"], e[0], "".join(" " + a for a in ca)), self.ctype(d["ret"])

    # ------------------------------------------------------------------ statements
    def is_type_start(self):
        k, v = self.peek()
        if k == "id" and v in ("std::stringstream", "std::ostringstream"):
            return False
        j = self.p
        while j < len(self.t) and self.t[j][1] in ("const", "static", "constexpr"):
            j += 1
        if j + 2 < len(self.t) and self.t[j][0] == "id" and self.t[j + 1] == ("op", "*") and \
                C.norm_type(self.t[j][1] + "*") in self.spec.get("types", {}):
            j2 = j + 2
            while j2 < len(self.t) and self.t[j2][1] == "const":
                j2 += 1
            return j2 < len(self.t) and self.t[j2][0] == "id"
        return C.Parser.is_type_start(self)

    def parse_type(self):
        # `const T* x` for configured pointer types: the base parser refuses `*`
        save = self.p
        while self.peek()[1] in ("const", "static", "constexpr"):
            self.eat()
        k, v = self.peek()
        if k == "id" and self.peek(1) == ("op", "*") and C.norm_type(v + "*") in self.spec.get("types", {}):
            self.eat(); self.eat("*")
            while self.peek()[1] == "const":
                self.eat()
            return v + "*"
        self.p = save
        return C.Parser.parse_type(self)

    def stmt(self):
        k, v = self.peek()
        if k == "id" and v == "while":
            return self.while_stmt()
        types = self.spec.get("types", {})
        if k == "id" and v in types and self.peek(1)[0] == "id" and self.peek(2) == ("op", ";") and "empty" in types[v]:
            # `std::vector<…> xs;` — default construction of a configured container: the configured empty value
            self.eat()
            name = self.eat(kind="id")
            self.eat(";")
            ty = self.ctype(v)
            ln = self.declare(name, ty, True, True)
            return [(0, "let mut %s : %s := %s" % (ln, self.lean_type(ty), types[v]["empty"]))], False
        if k == "id" and v in types and "ctor" in types[v] and self.peek(1)[0] == "id" and self.peek(2) == ("op", "("):
            # `T obj(args);` — construction of a configured value class
            d = types[v]["ctor"]
            self.eat()
            name = self.eat(kind="id")
            args = self.args()
            self.eat(";")
            ats = d.get("args", [])
            if len(ats) != len(args):
                raise self.R("constructor of `%s` called with %d argument(s), spec says %d" % (v, len(args), len(ats)))
            ca = [self.coerce(a[0], a[1], self.ctype(t), "constructor argument of " + v) for a, t in zip(args, ats)]
            ty = self.ctype(v)
            ln = self.declare(name, ty, True, True)
            return [(0, "let mut %s : %s := (%s%s)" % (ln, self.lean_type(ty), d["lean"], "".join(" " + a for a in ca)))], False
        if k == "id" and v in ("std::stringstream", "std::ostringstream"):
            self.eat()
            self.streams.add(self.eat(kind="id"))
            self.eat(";")
            return [], False
        if k == "id" and v in self.streams and self.peek(1) == ("op", "<<"):
            while self.peek() != ("op", ";"):
                if self.peek()[0] is None:
                    raise self.R("unterminated stream statement")
                self.p += 1
            self.eat(";")
            return [], False
        return C.Parser.stmt(self)

    def while_stmt(self):
        fuel = self.lookup("whileFuel")
        if fuel is None or self.monad != "except":
            raise self.R("`while` needs `monad: except` and a declared field `whileFuel`")
        self.eat("while"); self.eat("(")
        c = self.expr()
        self.eat(")")
        cond = self.truth(*c)
        self.in_loop += 1
        self.assigned.append(set())
        body, _ = self.block_or_stmt()
        self.assigned.pop()
        self.in_loop -= 1
        lines = [(0, "for _ in [0:%s] do" % fuel[0])] + indent([(0, "if !%s then" % cond), (1, "break")] + body)
        lines += [(0, "if %s then" % cond), (1, "throw \"while: out of fuel\"")]
        return lines, False

    def expr_stmt(self):
        k, v = self.peek()
        nk, nv = self.peek(1)
        if k == "id":
            if nk == "op" and nv in ("|=", "&="):
                ln, ty = self.lvalue()
                op = self.eat()
                rhs = self.expr()
                self.eat(";")
                e, t2 = self.bitop(op[0], self.read_var(v), rhs)
                self.assigned[-1].add(ln)
                return [(0, "%s := %s" % (ln, self.coerce(e, t2, ty, "compound assignment")))], False
            sc = self.spec.get("stmt_calls", {})
            if v in sc and (nk, nv) == ("op", "("):
                d = sc[v]
                self.eat()
                args = self.args()
                self.eat(";")
                if len(args) != 1:
                    raise self.R("`%s` with %d arguments" % (v, len(args)))
                ent = self.lookup(d["append_to"])
                if ent is None or not ent[2] or ent[1].kind != "list":
                    raise self.R("`%s(…)` appends to `%s`, which is not a declared list-valued state member" % (v, d["append_to"]))
                a = self.coerce(args[0][0], args[0][1], ent[1].elem, "argument of " + v)
                return [(0, "%s := %s ++ [%s]" % (ent[0], ent[0], a))], False
            mk = self.peek(2)
            if nk == "op" and nv in (".", "->") and mk[0] == "id" and ("." + mk[1]) in self.spec.get("mutators", {}) and self.peek(3) == ("op", "("):
                d = self.spec["mutators"]["." + mk[1]]
                ln, ty = self.lvalue()
                self.eat(); self.eat()
                args = self.args()
                self.eat(";")
                ats = d.get("args", [])
                if len(ats) != len(args):
                    raise self.R("`%s` called with %d argument(s), spec says %d" % (mk[1], len(args), len(ats)))
                ca = [self.coerce(a[0], a[1], self.ctype(t), "argument of " + mk[1]) for a, t in zip(args, ats)]
                if ln not in self.all_assigned():
                    raise self.R("`%s` may be read before assignment" % v)
                return [(0, "%s := (%s %s%s)" % (ln, d["lean"], ln, "".join(" " + a for a in ca)))], False
        return C.Parser.expr_stmt(self)
