#!/usr/bin/env python3
"""translate/cxx2lean.py — regenerate Lean definitions from the CURRENT C++ source, statement by statement.

A *spec* (a Python dict, see translate/specs/*.py) names C++ functions (file, qualified name, parameter types) and says
how the few things that are not plain control flow map to Lean (enumerators, struct fields, members of `this`, external
calls).  Each function body is parsed with a small typed recursive-descent parser for a closed C++ fragment and emitted as
a Lean `Id.run do` block that mirrors the C++ line by line:

    locals            `T x = e;` `T x;`          ->  `let mut x : T' := e`          (definite assignment is checked)
    assignment        `x = e; x += e; x++;`      ->  `x := …`
    conditionals      `if (c) S else S`          ->  `if c then … else …`
    early exit        `return e;` `return;`      ->  `return e` / `return (st₁, …)`  for void functions with mutable members
    switch            `switch (e) { case A: … }` ->  `if sel == A then … else if …`  (groups must end in break/return/throw;
                                                     stacked labels are or-ed; fall-through with statements is refused)
    loops             `for (size_t i = a; i < b; i++)`, `for (T x : xs)`  ->  `for i in [a:b] do`, `for x in xs do`
    throw             `throw X(..);`             ->  `throw "X"`   (functions with `monad: except` only)
    expressions       || && ! == != < <= > >= + - * / % unary- ?: () literals, casts, member access on configured structs,
                      std::min/max/abs/fabs/sqrt/floor/ceil/isnan/isfinite, configured calls

Typing: `int`-like -> `Int`; `bool` -> `Bool`; `char` -> `Char`; `double` -> the carrier `R` of `GeosModel.Cxx`
(`Ord ⊂ Ring ⊂ Field ⊂ Math`, the least class the function needs is required); `std::size_t`-like -> `Nat` (subtraction
is refused: C++ wraps, `Nat` truncates); configured enums / structs -> configured Lean types.  int -> double promotion is
`Ring.ofInt`.

ANYTHING outside the fragment raises `Refuse` — the translator never guesses.  Output is deterministic."""
import os, re, sys, json


class Refuse(Exception):
    """the translator cannot read this source (construct outside the fragment, function not found, …)"""
    pass


class AssumptionBroken(Refuse):
    """a fact the hand-written model depends on (a constant, an enumerator value, the shape of a class or macro), which the spec's
    prepare() step reads from the source, no longer holds"""
    pass


# ------------------------------------------------------------------------------------------------- lexer
def strip_comments(s):
    out, i, n = [], 0, len(s)
    while i < n:
        c = s[i]
        if c == '"' or c == "'":
            j = i + 1
            while j < n and s[j] != c:
                j += 2 if s[j] == "\\" else 1
            out.append(s[i:j + 1]); i = j + 1
        elif s.startswith("//", i):
            j = s.find("\n", i)
            i = n if j < 0 else j
        elif s.startswith("/*", i):
            j = s.find("*/", i + 2)
            out.append(" "); i = n if j < 0 else j + 2
        else:
            out.append(c); i += 1
    return "".join(out)


TOK = re.compile(r"""\s*(?:
    (?P<num>(?:\d+\.\d*|\.\d+|\d+)(?:[eE][-+]?\d+)?[uUlLfF]*) |
    (?P<chr>'(?:\\.|[^'\\])') |
    (?P<str>"(?:\\.|[^"\\])*") |
    (?P<id>[A-Za-z_]\w*(?:\s*::\s*[A-Za-z_]\w*)*) |
    (?P<op>\|\||&&|==|!=|<=|>=|\+=|-=|\*=|/=|\+\+|--|->|<<|>>|[(){}\[\];,!<>=+\-*/%?:.&~|^])
)""", re.X)


def tokenize(s, what="?"):
    toks, pos = [], 0
    s = s.strip()
    while pos < len(s):
        m = TOK.match(s, pos)
        if not m or m.end() == pos:
            raise Refuse("%s: cannot tokenize near `%s`" % (what, s[pos:pos + 40].replace("\n", " ")))
        pos = m.end()
        for k in ("num", "chr", "str", "id", "op"):
            v = m.group(k)
            if v is not None:
                if k == "id":
                    v = re.sub(r"\s+", "", v)
                toks.append((k, v))
                break
    return toks


# ------------------------------------------------------------------------------------------------- source lookup
def read_source(repo, rel):
    p = os.path.join(repo, rel)
    try:
        return strip_comments(open(p, encoding="utf-8", errors="replace").read())
    except OSError as ex:
        raise Refuse("cannot read %s: %s" % (rel, ex))


def split_params(text):
    """split a parameter list at top-level commas"""
    out, depth, cur = [], 0, ""
    for c in text:
        if c in "(<[{":
            depth += 1
        elif c in ")>]}":
            depth -= 1
        if c == "," and depth == 0:
            out.append(cur); cur = ""
        else:
            cur += c
    if cur.strip():
        out.append(cur)
    return [p.strip() for p in out]


def norm_type(t):
    """canonical spelling of a C++ parameter type: drop const / & / namespaces that do not matter"""
    t = re.sub(r"\b(const|constexpr|static|inline|volatile)\b", " ", t)
    t = t.replace("&", " ").strip()
    t = re.sub(r"\s+", " ", t)
    t = re.sub(r"\s*\*\s*", "*", t)
    t = re.sub(r"\b(?:geos::)?(?:geom|algorithm|util|noding|operation|index|io|overlayng|relateng|snapround)::", "", t)
    return t.strip()


def class_body(src, cls, rel):
    """text between the braces of `struct|class cls … { … }` (for in-class inline definitions)"""
    m = re.search(r"\b(?:struct|class)\s+(?:[A-Z_]+\s+)?%s\b[^;{]*\{" % re.escape(cls), src)
    if not m:
        raise Refuse("class %s not found in %s" % (cls, rel))
    j, depth = m.end(), 1
    while j < len(src) and depth:
        depth += {"{": 1, "}": -1}.get(src[j], 0)
        j += 1
    if depth:
        raise Refuse("class %s: unbalanced braces in %s" % (cls, rel))
    return src[m.end():j - 1]


def find_function(src, qualname, want_types, rel, cls=None):
    """locate `qualname(params) [const] [noexcept] {` whose normalised parameter types equal want_types;
    returns (param_names, body_text).  With `cls`, only the body of that struct/class is searched (in-class inline
    definitions that share name and signature with another class of the same file)."""
    if cls:
        src = class_body(src, cls, rel)
    pat = re.compile(r"(?<![\w:])%s\s*\(" % re.escape(qualname).replace(r"\:\:", r"\s*::\s*"))
    cands = []
    for m in pat.finditer(src):
        i, depth = m.end(), 1
        while i < len(src) and depth:
            depth += {"(": 1, ")": -1}.get(src[i], 0)
            i += 1
        ptxt = src[m.end():i - 1]
        m2 = re.match(r"\s*(?:const\b\s*)?(?:noexcept\b\s*)?(?:override\b\s*)?(?:final\b\s*)?\{", src[i:])
        if not m2:
            continue
        params = split_params(ptxt)
        if [q.strip() for q in params] == ["void"]:
            params = []
        names, types = [], []
        okp = True
        for p in params:
            p = re.sub(r"=.*$", "", p).strip()          # default argument
            mm = re.match(r"^(.*?)([A-Za-z_]\w*)$", p, re.S)
            if not mm or not mm.group(1).strip():
                okp = False; break
            names.append(mm.group(2)); types.append(norm_type(mm.group(1)))
        if not okp:
            continue
        cands.append(types)
        if types != [norm_type(t) for t in want_types]:
            continue
        b0 = i + m2.end()
        j, depth = b0, 1
        while j < len(src) and depth:
            depth += {"{": 1, "}": -1}.get(src[j], 0)
            j += 1
        if depth:
            raise Refuse("%s: unbalanced braces in %s" % (qualname, rel))
        return names, src[b0:j - 1]
    raise Refuse("%s(%s) not found in %s (definitions seen with parameter types: %s)" % (qualname, ", ".join(want_types), rel, cands))


def find_constant(repo, rel, regex):
    """integer / floating constant captured by group 1 of regex in a source file"""
    src = read_source(repo, rel)
    m = re.search(regex, src)
    if not m:
        raise Refuse("constant /%s/ not found in %s" % (regex, rel))
    return m.group(1).strip()


def enum_values(repo, rel, enum_name):
    """{enumerator: int} of `enum [class] enum_name [: type] { A = 1, B, C = -2 }`"""
    src = read_source(repo, rel)
    m = re.search(r"enum\s+(?:class\s+)?%s\s*(?::\s*[\w:]+(?:\s+[\w:]+)*\s*)?\{(.*?)\}" % re.escape(enum_name), src, re.S)
    if not m:        # typedef enum { … } Name;
        m = re.search(r"typedef\s+enum\s*\{([^{}]*)\}\s*%s\s*;" % re.escape(enum_name), src, re.S)
    if not m:
        raise Refuse("enum %s not found in %s" % (enum_name, rel))
    vals, nxt = {}, 0
    for item in m.group(1).split(","):
        item = item.strip()
        if not item:
            continue
        mm = re.match(r"^(\w+)\s*(?:=\s*(.+))?$", item, re.S)
        if not mm:
            raise Refuse("%s: cannot read enumerator `%s`" % (enum_name, item))
        if mm.group(2) is not None:
            v = mm.group(2).strip()
            v = re.sub(r"^\(\s*(?:char|int|unsigned|signed char|std::\w+)\s*\)\s*", "", v)     # `(char)(-1)`
            while re.match(r"^\((.*)\)$", v):
                v = v[1:-1].strip()
            if re.match(r"^-?\d+$", v):
                nxt = int(v)
            elif re.match(r"^'.'$", v):
                nxt = ord(v[1])
            elif v in vals:
                nxt = vals[v]
            else:
                raise Refuse("%s: enumerator `%s` has a value outside the fragment: %s" % (enum_name, mm.group(1), v))
        vals[mm.group(1)] = nxt
        nxt += 1
    return vals


# ------------------------------------------------------------------------------------------------- types
INT_TYPES = {"int", "long", "short", "int32_t", "int64_t", "std::int32_t", "std::int64_t", "signed", "long long", "signed char", "int8_t"}
NAT_TYPES = {"std::size_t", "size_t", "unsigned", "unsigned int", "uint32_t", "uint64_t", "std::uint32_t", "std::uint64_t", "unsigned long",
             "uint8_t", "std::uint8_t", "unsigned char", "uint16_t"}
CLASS_RANK = {"none": 0, "Ord": 1, "Ring": 2, "Field": 3, "Math": 4}


class T:
    """a type: kind in int|nat|double|bool|char|enum|struct|list|void|str, name for enum/struct, elem for list"""

    def __init__(self, kind, name=None, elem=None):
        self.kind, self.name, self.elem = kind, name, elem

    def __eq__(self, o):
        return isinstance(o, T) and (self.kind, self.name, self.elem) == (o.kind, o.name, o.elem)

    def __repr__(self):
        return self.kind + (":" + self.name if self.name else "") + ("<%r>" % self.elem if self.elem else "")


INT, NAT, DBL, BOOL, CHAR, VOID, STR = T("int"), T("nat"), T("double"), T("bool"), T("char"), T("void"), T("str")


# ------------------------------------------------------------------------------------------------- translator
class Fn:
    """translation of one function"""

    def __init__(self, spec, f, repo):
        self.spec, self.f, self.repo = spec, f, repo
        self.name = f["name"]
        self.need = "none"                 # least Cxx class required
        self.used_params = []              # external `param` calls actually used (in order of first use)
        self.scopes = [{}]                 # C++ name -> (lean name, T, mutable)
        self.taken = set()
        self.assigned = [set()]            # definitely assigned lean names (stack for branches)
        self.tmp = 0
        self.monad = f.get("monad", "id")
        self.in_loop = 0

    # ---- helpers
    def R(self, msg):
        return Refuse("%s: %s" % (self.name, msg))

    def want(self, cls):
        if CLASS_RANK[cls] > CLASS_RANK[self.need]:
            self.need = cls

    def ctype(self, txt):
        """C++ type text -> T"""
        t = norm_type(txt)
        types = self.spec.get("types", {})
        if t in types:
            d = types[t]
            if "alias" in d:
                return self.ctype(d["alias"])
            if "enum" in d:
                return T("enum", t)
            if "fields" in d:
                return T("struct", t)
            if "list" in d:
                return T("list", t, self.ctype(d["list"]))
            if "opaque" in d:
                return T("struct", t)
        if t in INT_TYPES:
            return INT
        if t in NAT_TYPES:
            return NAT
        if t == "double":
            return DBL
        if t == "float":
            # single precision is NOT the carrier R: treating it as `double` would turn static_cast<float> into the identity.
            # A Parser subclass that models the conversion explicitly may set `_float_ok` around the places it handles.
            if getattr(self, "_float_ok", False):
                return DBL
            raise self.R("type `float` is outside the fragment (single precision is not the carrier R)")
        if t == "bool":
            return BOOL
        if t == "char":
            return CHAR
        if t == "void":
            return VOID
        raise self.R("type `%s` is outside the fragment" % txt.strip())

    def lean_type(self, t):
        if t.kind == "int": return "Int"
        if t.kind == "nat": return "Nat"
        if t.kind == "double":
            self.want("Ord"); return "R"
        if t.kind == "bool": return "Bool"
        if t.kind == "char": return "Char"
        if t.kind == "str": return "String"
        if t.kind in ("enum", "struct", "list"):
            d = self.spec["types"][t.name]
            lt = d["lean"]
            if "R" in re.findall(r"\bR\b", lt):
                self.want("Ord")
            return lt
        raise self.R("no Lean type for %r" % t)

    def fresh(self, base):
        base = re.sub(r"\W", "_", base)
        if base in LEAN_KEYWORDS:
            base = base + "_"
        n, k = base, 0
        while n in self.taken:
            k += 1
            n = "%s_%d" % (base, k)
        self.taken.add(n)
        return n

    def declare(self, cname, t, mutable=True, assigned=True, lean=None):
        ln = lean or self.fresh(cname)
        self.scopes[-1][cname] = (ln, t, mutable)
        if assigned:
            self.assigned[-1].add(ln)
        return ln

    def lookup(self, cname):
        for sc in reversed(self.scopes):
            if cname in sc:
                return sc[cname]
        return None

    # ---- coercions
    def coerce(self, e, t, to, what="operand"):
        if t == to:
            return e
        if t.kind == "int" and to.kind == "double":
            self.want("Ring")
            return "(Cxx.Ring.ofInt %s : R)" % e
        if t.kind == "nat" and to.kind == "int":
            return "(Int.ofNat %s)" % e
        if t.kind == "nat" and to.kind == "double":
            self.want("Ring")
            return "(Cxx.Ring.ofInt (Int.ofNat %s) : R)" % e
        if t.kind == "bool" and to.kind == "int":
            return "(if %s then (1 : Int) else 0)" % e
        if t.kind == "char" and to.kind == "int":
            return "(Int.ofNat (%s).toNat)" % e
        if t.kind == "enum" and to.kind == "int":
            d = self.spec["types"][t.name]
            if d.get("int_repr"):
                return "(%s %s)" % (d["int_repr"], e)
        raise self.R("implicit conversion %r -> %r of %s `%s` is outside the fragment" % (t, to, what, e))

    def unify(self, a, ta, b, tb, op):
        """usual arithmetic conversions for a binary operator"""
        if ta == tb:
            return a, b, ta
        kinds = {ta.kind, tb.kind}
        if kinds == {"int", "double"} or kinds == {"nat", "double"}:
            return self.coerce(a, ta, DBL), self.coerce(b, tb, DBL), DBL
        if kinds == {"int", "nat"}:
            # a non-negative integer literal takes the unsigned type of the other operand
            lit_a = re.match(r"^\((\d+) : Int\)$", a) if ta.kind == "int" else None
            lit_b = re.match(r"^\((\d+) : Int\)$", b) if tb.kind == "int" else None
            if lit_a:
                return "(%s : Nat)" % lit_a.group(1), b, NAT
            if lit_b:
                return a, "(%s : Nat)" % lit_b.group(1), NAT
            raise self.R("mixed signed/unsigned operands of `%s` (%s, %s): C++ converts to unsigned — refused" % (op, a, b))
        if kinds == {"bool", "int"}:
            return self.coerce(a, ta, INT), self.coerce(b, tb, INT), INT
        if kinds == {"char", "int"}:
            return self.coerce(a, ta, INT), self.coerce(b, tb, INT), INT
        if kinds == {"enum", "int"}:
            return self.coerce(a, ta, INT) if ta.kind == "enum" else a, self.coerce(b, tb, INT) if tb.kind == "enum" else b, INT
        raise self.R("operands of `%s` have incompatible types %r, %r (%s, %s)" % (op, ta, tb, a, b))

    def truth(self, e, t):
        if t.kind == "bool":
            return e
        if t.kind == "int":
            return "(%s != 0)" % e
        raise self.R("`%s` of type %r used as a condition" % (e, t))


LEAN_KEYWORDS = {"at", "from", "have", "show", "end", "fun", "by", "do", "then", "else", "if", "let", "in", "open", "match", "with", "where",
                 "theorem", "def", "instance", "class", "structure", "inductive", "namespace", "section", "variable", "universe", "import",
                 "return", "for", "mut", "break", "continue", "try", "catch", "finally", "unless", "Type", "Prop", "Sort", "self", "R", "this",
                 "private", "protected", "local", "macro", "syntax", "notation", "export", "set_option", "deriving", "extends", "using", "calc",
                 "nomatch", "nofun", "sorry", "admit", "axiom", "opaque", "abbrev", "example", "mutual", "partial", "unsafe", "noncomputable",
                 "attribute", "infix", "infixl", "infixr", "prefix", "postfix", "throw", "pure", "not", "true", "false", "id", "min", "max"}


class Parser(Fn):
    def __init__(self, spec, f, repo, toks, params):
        Fn.__init__(self, spec, f, repo)
        self.t, self.p = toks, 0
        self.cparams = params              # [(cname, T)]

    def peek(self, k=0):
        return self.t[self.p + k] if self.p + k < len(self.t) else (None, None)

    def eat(self, val=None, kind=None):
        k, v = self.peek()
        if k is None or (val is not None and v != val) or (kind is not None and k != kind):
            raise self.R("expected %s, found `%s` (token %d)" % (val or kind, v, self.p))
        self.p += 1
        return v

    def at(self, val):
        return self.peek()[1] == val and self.peek()[0] in ("op", "id")

    # ================================================================= statements
    # every statement method returns (lines, terminates) where lines is a list of (indent, text) and `terminates` says that control
    # never continues past it (return / throw on every path)

    def block_or_stmt(self):
        if self.at("{"):
            self.eat("{")
            self.scopes.append({})
            lines, term = self.stmts_until("}")
            self.scopes.pop()
            self.eat("}")
            return lines, term
        self.scopes.append({})
        r = self.stmt()
        self.scopes.pop()
        return r

    def stmts_until(self, closer):
        lines, term = [], False
        while not self.at(closer):
            if self.peek()[0] is None:
                raise self.R("unexpected end of body")
            if term:
                raise self.R("unreachable code after return/throw")
            l, term = self.stmt()
            lines += l
        return lines, term

    def is_type_start(self):
        """does a declaration start here?  (type name followed by an identifier)"""
        k, v = self.peek()
        if k != "id":
            return False
        j = self.p
        # qualifiers
        while j < len(self.t) and self.t[j][1] in ("const", "static", "constexpr", "unsigned", "signed", "long", "short"):
            j += 1
        if j < len(self.t) and self.t[j][0] == "id" and (j > self.p or True):
            base = self.t[j][1]
            cand = norm_type(base)
            known = cand in INT_TYPES or cand in NAT_TYPES or cand in ("double", "float", "bool", "char", "auto") or cand in self.spec.get("types", {})
            if j > self.p and self.t[j - 1][1] in ("unsigned", "signed", "long", "short") and self.t[j][0] == "id" and not known:
                # `unsigned x` — base type ended one token earlier
                j -= 1
                known = True
            if not known:
                return False
            j2 = j + 1
            while j2 < len(self.t) and self.t[j2][1] in ("&", "*", "const"):
                j2 += 1
            return j2 < len(self.t) and self.t[j2][0] == "id" and self.t[j2][1] not in ("const",)
        return False

    def stmt(self):
        k, v = self.peek()
        if v == "{" and k == "op":
            return self.block_or_stmt()
        if v == ";" and k == "op":
            self.eat(";")
            return [], False
        if k == "id" and v == "if":
            return self.if_stmt()
        if k == "id" and v == "return":
            return self.return_stmt()
        if k == "id" and v == "switch":
            return self.switch_stmt()
        if k == "id" and v == "for":
            return self.for_stmt()
        if k == "id" and v == "throw":
            return self.throw_stmt()
        if k == "id" and v in ("break", "continue"):
            if not self.in_loop:
                raise self.R("`%s` outside a loop (or not at the end of a switch group)" % v)
            self.eat(); self.eat(";")
            return [(0, v)], True if False else False
        if k == "id" and v in ("while", "do", "goto", "try", "catch", "delete", "new"):
            raise self.R("statement `%s` is outside the fragment" % v)
        if k == "id" and v in self.spec.get("ignore_statements", ()):       # e.g. assert(...), util::ensureNoCurvedComponents
            self.eat()
            self.skip_call_stmt()
            return [], False
        if self.is_type_start():
            return self.decl_stmt()
        return self.expr_stmt()

    def skip_call_stmt(self):
        self.eat("(")
        depth = 1
        while depth:
            k, v = self.peek()
            if k is None:
                raise self.R("unbalanced parentheses")
            if k == "op" and v == "(":
                depth += 1
            if k == "op" and v == ")":
                depth -= 1
            self.p += 1
        self.eat(";")

    def parse_type(self):
        words = []
        while self.peek()[1] in ("const", "static", "constexpr"):
            self.eat()
        while self.peek()[0] == "id" and self.peek()[1] in ("unsigned", "signed", "long", "short"):
            words.append(self.eat())
        k, v = self.peek()
        nt = norm_type(v) if k == "id" else None
        if k == "id" and (not words or nt in ("int", "char", "long")):
            words.append(self.eat())
        elif not words:
            raise self.R("type expected, found `%s`" % v)
        while self.peek()[1] in ("&", "*", "const"):
            if self.peek()[1] == "*":
                raise self.R("pointer declarations are outside the fragment")
            self.eat()
        return " ".join(words)

    def decl_stmt(self):
        tyt = self.parse_type()
        lines = []
        while True:
            name = self.eat(kind="id")
            init = None
            if self.at("="):
                self.eat("=")
                init = self.expr()
            elif self.at("(") or self.at("{"):
                closer = ")" if self.at("(") else "}"
                self.eat()
                if self.at(closer):
                    raise self.R("value-initialisation `%s %s%s` is outside the fragment" % (tyt, name, "()" if closer == ")" else "{}"))
                init = self.expr()
                self.eat(closer)
            if norm_type(tyt) == "auto":
                if init is None:
                    raise self.R("`auto %s` without initialiser" % name)
                ty = init[1]
            else:
                ty = self.ctype(tyt)
            if ty.kind == "void":
                raise self.R("void variable")
            lt = self.lean_type(ty)
            if self.lookup(name) is not None and name in self.scopes[-1]:
                raise self.R("redeclaration of `%s`" % name)
            if init is not None:
                e = self.coerce(init[0], init[1], ty, "initialiser of " + name)
                ln = self.declare(name, ty, True, True)
                lines.append((0, "let mut %s : %s := %s" % (ln, lt, e)))
            else:
                ln = self.declare(name, ty, True, False)
                dflt = "(Cxx.Ring.ofInt 0 : R)" if ty.kind == "double" else "default"
                if ty.kind == "double":
                    self.want("Ring")
                lines.append((0, "let mut %s : %s := %s   -- declared without initialiser; never read before assignment (checked by the translator)" % (ln, lt, dflt)))
            if self.at(","):
                self.eat(",")
                continue
            break
        self.eat(";")
        return lines, False

    def lvalue(self):
        """identifier or member of mutable state; returns (lean name, T)"""
        name = self.eat(kind="id")
        ent = self.lookup(name)
        if ent is None:
            raise self.R("assignment to unknown variable `%s`" % name)
        ln, ty, mut = ent
        if not mut:
            raise self.R("assignment to `%s`, which is not declared mutable in the spec" % name)
        return ln, ty

    def expr_stmt(self):
        k, v = self.peek()
        # ++x / --x
        if k == "op" and v in ("++", "--"):
            self.eat()
            ln, ty = self.lvalue()
            self.eat(";")
            return self.incdec(ln, ty, v), False
        if k == "id":
            nk, nv = self.peek(1)
            ent = self.lookup(v)
            if ent is not None and nk == "op" and nv in ("=", "+=", "-=", "*=", "/=", "++", "--"):
                ln, ty = self.lvalue()
                op = self.eat()
                if op in ("++", "--"):
                    self.eat(";")
                    return self.incdec(ln, ty, op), False
                rhs = self.expr()
                self.eat(";")
                if op == "=":
                    e = self.coerce(rhs[0], rhs[1], ty, "right-hand side")
                else:
                    cur = self.read_var(v)
                    e, t2 = self.binop(op[0], cur, rhs)
                    e = self.coerce(e, t2, ty, "compound assignment")
                self.assigned[-1].add(ln)
                return [(0, "%s := %s" % (ln, e))], False
            # configured void call mutating state
            calls = self.spec.get("calls", {})
            if v in calls and calls[v].get("stmt"):
                raise self.R("statement calls are not supported yet (`%s`)" % v)
        raise self.R("statement starting with `%s` is outside the fragment" % v)

    def incdec(self, ln, ty, op):
        if ty.kind not in ("int", "nat"):
            raise self.R("`%s` on a %r" % (op, ty))
        if op == "--" and ty.kind == "nat":
            raise self.R("`--` on an unsigned value (C++ wraps, Nat truncates) — refused")
        if ln not in self.all_assigned():
            raise self.R("`%s` may be read before assignment" % ln)
        return [(0, "%s := %s %s 1" % (ln, ln, "+" if op == "++" else "-"))]

    def all_assigned(self):
        s = set()
        for a in self.assigned:
            s |= a
        return s

    def if_stmt(self):
        self.eat("if")
        self.eat("(")
        c = self.expr()
        self.eat(")")
        cond = self.truth(*c)
        self.assigned.append(set())
        th, term1 = self.block_or_stmt()
        a1 = self.assigned.pop()
        lines = [(0, "if %s then" % cond)] + indent(th or [(0, "pure ()")])
        if self.peek() == ("id", "else"):
            self.eat("else")
            self.assigned.append(set())
            if self.peek() == ("id", "if"):
                self.scopes.append({})
                el, term2 = self.if_stmt()
                self.scopes.pop()
            else:
                el, term2 = self.block_or_stmt()
            a2 = self.assigned.pop()
            lines += [(0, "else")] + indent(el or [(0, "pure ()")])
            # definitely assigned after the if: in both branches (a terminating branch imposes nothing)
            both = (a1 if term2 and not term1 else a2 if term1 and not term2 else (a1 & a2))
            self.assigned[-1] |= both
            return lines, term1 and term2
        if term1:
            pass
        return lines, False

    def return_tuple(self, val=None):
        st = [self.lookup(n)[0] for n in self.f.get("state", {})]
        for s in st:
            if s not in self.all_assigned():
                raise self.R("state `%s` returned before assignment" % s)
        parts = ([val] if val is not None else []) + st
        if not parts:
            return "()"
        return parts[0] if len(parts) == 1 else "(" + ", ".join(parts) + ")"

    def return_stmt(self):
        self.eat("return")
        rt = self.ret_type
        if self.at(";"):
            self.eat(";")
            if rt.kind != "void":
                raise self.R("`return;` in a non-void function")
            return [(0, "return %s" % self.return_tuple())], True
        e = self.expr()
        self.eat(";")
        if rt.kind == "void":
            raise self.R("`return e;` in a void function")
        v = self.coerce(e[0], e[1], rt, "returned value")
        return [(0, "return %s" % self.return_tuple(v))], True

    def throw_stmt(self):
        self.eat("throw")
        if self.monad != "except":
            raise self.R("`throw` in a function not declared `monad: except` in the spec")
        name = self.eat(kind="id")
        # skip constructor arguments
        if self.at("("):
            depth = 0
            while True:
                k, v = self.peek()
                if k is None:
                    raise self.R("unbalanced throw expression")
                if k == "op" and v == "(":
                    depth += 1
                if k == "op" and v == ")":
                    depth -= 1
                self.p += 1
                if depth == 0:
                    break
        self.eat(";")
        return [(0, "throw \"%s\"" % name.split("::")[-1])], True

    def switch_stmt(self):
        self.eat("switch")
        self.eat("(")
        sel = self.expr()
        self.eat(")")
        self.eat("{")
        seln = self.fresh("sel")
        lines = [(0, "let %s := %s" % (seln, sel[0]))]
        groups = []           # (labels or None for default, lines, how)   how in break|term|end
        labels, have_default = [], False
        while not self.at("}"):
            k, v = self.peek()
            if k == "id" and v == "case":
                self.eat("case")
                lab = self.expr_noColon()
                self.eat(":")
                a, b, _ = self.unify(seln, sel[1], lab[0], lab[1], "case")
                labels.append("%s == %s" % (a, b))
                continue
            if k == "id" and v == "default":
                self.eat("default"); self.eat(":")
                have_default = True
                labels.append(None)
                continue
            if not labels:
                raise self.R("statement in a switch before any case label")
            # statements of this group, up to the next label or the closing brace
            self.scopes.append({})
            self.assigned.append(set())
            body, how = self.switch_group()
            asg = self.assigned.pop()
            self.scopes.pop()
            groups.append((labels, body, how, asg))
            labels = []
        self.eat("}")
        if labels:                                   # trailing labels without statements: nothing to do
            groups.append((labels, [], "end", set()))
        default = [g for g in groups if None in g[0]]
        if len(default) > 1:
            raise self.R("two default labels")
        if default and default[0] is not groups[-1]:
            raise self.R("`default` that is not the last group is outside the fragment")
        if default and len(default[0][0]) > 1:
            # default stacked with cases: the whole group is the else branch, fine, but the case labels then are redundant
            pass
        out, first = [], True
        all_term = True
        asg_sets = []
        for labs, body, how, asg in groups:
            if how != "term":
                all_term = False
                asg_sets.append(asg)
            if None in labs:
                out += [(0, "else")] + indent(body or [(0, "pure ()")])
            else:
                cond = " || ".join(labs)
                out += [(0, "%s %s then" % ("if" if first else "else if", cond))] + indent(body or [(0, "pure ()")])
            first = False
        if not default:
            all_term = False
            asg_sets.append(set())
        if asg_sets:
            common = set.intersection(*asg_sets) if asg_sets else set()
            self.assigned[-1] |= common
        return lines + out, all_term

    def switch_group(self):
        """statements until next case/default/`}`; returns (lines, how)"""
        lines, term = [], False
        while True:
            k, v = self.peek()
            if (k == "id" and v in ("case", "default")) or (k == "op" and v == "}"):
                if term:
                    return lines, "term"
                if k == "op" and v == "}":
                    return lines, "end"
                if not lines:
                    raise self.R("internal: empty switch group")
                raise self.R("switch group falls through into the next label")
            if term:
                raise self.R("unreachable code in a switch group")
            if k == "id" and v == "break":
                self.eat("break"); self.eat(";")
                k2, v2 = self.peek()
                if not ((k2 == "id" and v2 in ("case", "default")) or (k2 == "op" and v2 == "}")):
                    raise self.R("code after `break` in a switch group")
                return lines, "break"
            if k == "op" and v == "{":
                # a braced group body `{ ...; break; }`
                self.eat("{")
                self.scopes.append({})
                inner, how = self.switch_group_braced()
                self.scopes.pop()
                lines += inner
                if how == "break":
                    k2, v2 = self.peek()
                    if k2 == "id" and v2 == "break":      # `{ ... } break;`
                        raise self.R("`break` after a braced group that already ended in break")
                    if not ((k2 == "id" and v2 in ("case", "default")) or (k2 == "op" and v2 == "}")):
                        raise self.R("code after a braced switch group")
                    return lines, "break"
                if how == "term":
                    term = True
                continue
            l, t = self.stmt()
            lines += l
            term = t

    def switch_group_braced(self):
        lines, term = [], False
        while not self.at("}"):
            if term:
                raise self.R("unreachable code in a switch group")
            k, v = self.peek()
            if k == "id" and v == "break":
                self.eat("break"); self.eat(";")
                if not self.at("}"):
                    raise self.R("code after `break` in a braced switch group")
                self.eat("}")
                return lines, "break"
            l, t = self.stmt()
            lines += l
            term = t
        self.eat("}")
        return lines, "term" if term else "open"

    def for_stmt(self):
        self.eat("for")
        self.eat("(")
        self.scopes.append({})
        # range-for:  for (const T& x : xs)
        save = self.p
        lines = None
        try:
            if self.is_type_start():
                tyt = self.parse_type()
                name = self.eat(kind="id")
                if self.at(":"):
                    self.eat(":")
                    xs = self.expr()
                    self.eat(")")
                    if xs[1].kind != "list":
                        raise self.R("range-for over a %r" % xs[1])
                    ety = xs[1].elem if norm_type(tyt) == "auto" else self.ctype(tyt)
                    if ety != xs[1].elem:
                        raise self.R("range-for element type %r differs from container element %r" % (ety, xs[1].elem))
                    ln = self.declare(name, ety, False, True)
                    self.in_loop += 1
                    self.assigned.append(set())
                    body, _ = self.block_or_stmt()
                    self.assigned.pop()
                    self.in_loop -= 1
                    lines = [(0, "for %s in %s do" % (ln, xs[0]))] + indent(body or [(0, "pure ()")])
        except Refuse:
            raise
        if lines is None:
            self.p = save
            # index-for:  for (T i = a [, n = b]; i < n; i++ | ++i | i += 1)
            tyt = self.parse_type()
            ity = self.ctype(tyt)
            if ity.kind not in ("nat", "int"):
                raise self.R("loop variable of type %r" % ity)
            iname = self.eat(kind="id")
            self.eat("=")
            lo = self.expr()
            pre = []
            while self.at(","):
                self.eat(",")
                n2 = self.eat(kind="id")
                self.eat("=")
                v2 = self.expr()
                l2 = self.declare(n2, ity, False, True)
                pre.append((0, "let %s : %s := %s" % (l2, self.lean_type(ity), self.coerce(v2[0], v2[1], ity))))
            self.eat(";")
            iln = self.declare(iname, NAT if ity.kind == "nat" else INT, False, True)
            v = self.eat(kind="id")
            if v != iname:
                raise self.R("loop condition must start with the loop variable")
            cmpop = self.eat()
            if cmpop not in ("<", "<="):
                raise self.R("loop condition `%s %s …` is outside the fragment" % (iname, cmpop))
            hi = self.expr()
            self.eat(";")
            # increment
            k, v = self.peek()
            if k == "op" and v == "++":
                self.eat(); self.eat(iname)
            else:
                self.eat(iname)
                if self.at("++"):
                    self.eat()
                elif self.at("+="):
                    self.eat()
                    one = self.eat(kind="num")
                    if one != "1":
                        raise self.R("loop step other than 1")
                else:
                    raise self.R("loop increment is outside the fragment")
            self.eat(")")
            if ity.kind != "nat" or lo[1].kind != "nat" and not re.match(r"^\(?\d+", lo[0]) or hi[1].kind != "nat":
                raise self.R("index loop must run over std::size_t bounds (got %r .. %r)" % (lo[1], hi[1]))
            lo_e = lo[0] if lo[1].kind == "nat" else re.sub(r"[^\d]", "", lo[0])
            hi_e = hi[0] if cmpop == "<" else "(%s + 1)" % hi[0]
            self.in_loop += 1
            self.assigned.append(set())
            body, _ = self.block_or_stmt()
            self.assigned.pop()
            self.in_loop -= 1
            lines = pre + [(0, "for %s in [%s:%s] do" % (iln, lo_e, hi_e))] + indent(body or [(0, "pure ()")])
        self.scopes.pop()
        return lines, False

    # ================================================================= expressions: return (lean text, T)
    def expr_noColon(self):
        return self.or_()

    def expr(self):
        c = self.or_()
        if self.at("?"):
            self.eat("?")
            a = self.expr()
            self.eat(":")
            b = self.expr()
            ea, eb, ty = self.unify(a[0], a[1], b[0], b[1], "?:")
            return "(if %s then %s else %s)" % (self.truth(*c), ea, eb), ty
        return c

    def or_(self):
        e = self.and_()
        while self.at("||"):
            self.eat()
            r = self.and_()
            e = ("(%s || %s)" % (self.truth(*e), self.truth(*r)), BOOL)
        return e

    def and_(self):
        e = self.eq()
        while self.at("&&"):
            self.eat()
            r = self.eq()
            e = ("(%s && %s)" % (self.truth(*e), self.truth(*r)), BOOL)
        return e

    def eq(self):
        e = self.rel()
        while self.peek()[0] == "op" and self.peek()[1] in ("==", "!="):
            op = self.eat()
            r = self.rel()
            e = self.compare(op, e, r)
        return e

    def rel(self):
        e = self.add()
        while self.peek()[0] == "op" and self.peek()[1] in ("<", ">", "<=", ">="):
            op = self.eat()
            r = self.add()
            e = self.compare(op, e, r)
        return e

    def compare(self, op, a, b):
        ea, eb, ty = self.unify(a[0], a[1], b[0], b[1], op)
        if ty.kind == "double":
            self.want("Ord")
            f = {"<": "Cxx.Ord.lt %s %s", "<=": "Cxx.Ord.le %s %s", ">": "Cxx.gt %s %s", ">=": "Cxx.ge %s %s",
                 "==": "Cxx.Ord.eq %s %s", "!=": "Cxx.ne %s %s"}[op]
            return "(" + f % (ea, eb) + ")", BOOL
        if ty.kind in ("int", "nat"):
            if op in ("==", "!="):
                return "(%s %s %s)" % (ea, op, eb), BOOL
            return "(decide (%s %s %s))" % (ea, {"<": "<", ">": ">", "<=": "≤", ">=": "≥"}[op], eb), BOOL
        if ty.kind in ("bool", "char", "enum"):
            if op in ("==", "!="):
                return "(%s %s %s)" % (ea, op, eb), BOOL
            if ty.kind == "char":
                return "(decide (%s %s %s))" % (ea, {"<": "<", ">": ">", "<=": "≤", ">=": "≥"}[op], eb), BOOL
        raise self.R("comparison `%s` on %r" % (op, ty))

    def add(self):
        e = self.mul()
        while self.peek()[0] == "op" and self.peek()[1] in ("+", "-"):
            op = self.eat()
            r = self.mul()
            e = self.binop(op, e, r)
        return e

    def mul(self):
        e = self.unary()
        while self.peek()[0] == "op" and self.peek()[1] in ("*", "/", "%"):
            op = self.eat()
            r = self.unary()
            e = self.binop(op, e, r)
        return e

    def binop(self, op, a, b):
        ea, eb, ty = self.unify(a[0], a[1], b[0], b[1], op)
        if ty.kind == "double":
            if op == "%":
                raise self.R("`%` on doubles")
            self.want("Field" if op == "/" else "Ring")
            f = {"+": "Cxx.Ring.add", "-": "Cxx.Ring.sub", "*": "Cxx.Ring.mul", "/": "Cxx.Field.div"}[op]
            return "(%s %s %s)" % (f, ea, eb), DBL
        if ty.kind == "int":
            if op == "/":
                return "(Int.tdiv %s %s)" % (ea, eb), INT
            if op == "%":
                return "(Int.tmod %s %s)" % (ea, eb), INT
            return "(%s %s %s)" % (ea, op, eb), INT
        if ty.kind == "nat":
            if op == "-" and not self.f.get("nat_sub_ok"):
                raise self.R("subtraction on unsigned values (%s - %s): C++ wraps, Nat truncates — refused (spec flag nat_sub_ok)" % (ea, eb))
            return "(%s %s %s)" % (ea, op, eb), NAT
        if ty.kind == "bool" and op in ("+", "-", "*"):          # integral promotion of bool operands
            return "(%s %s %s)" % (self.coerce(ea, BOOL, INT), op, self.coerce(eb, BOOL, INT)), INT
        raise self.R("arithmetic `%s` on %r" % (op, ty))

    def unary(self):
        k, v = self.peek()
        if k == "op" and v == "!":
            self.eat()
            e = self.unary()
            return "(!%s)" % self.truth(*e), BOOL
        if k == "op" and v == "-":
            self.eat()
            e = self.unary()
            if e[1].kind == "double":
                self.want("Ring")
                return "(Cxx.Ring.neg %s)" % e[0], DBL
            if e[1].kind == "int":
                return "(-%s)" % e[0], INT
            raise self.R("unary minus on %r" % e[1])
        if k == "op" and v == "+":
            self.eat()
            return self.unary()
        if k == "op" and v in ("++", "--", "*", "&", "~"):
            raise self.R("operator `%s` in an expression is outside the fragment" % v)
        return self.postfix()

    def read_var(self, cname):
        ent = self.lookup(cname)
        if ent is None:
            raise self.R("unknown variable `%s`" % cname)
        ln, ty, mut = ent
        if ln not in self.all_assigned():
            raise self.R("`%s` may be read before assignment" % cname)
        return ln, ty

    def postfix(self):
        e = self.primary()
        while True:
            k, v = self.peek()
            if k == "op" and v in (".", "->"):
                self.eat()
                m = self.eat(kind="id")
                if self.at("("):
                    args = self.args()
                    e = self.method(e, m, args)
                else:
                    e = self.field(e, m)
                continue
            if k == "op" and v == "[":
                self.eat()
                i = self.expr()
                self.eat("]")
                e = self.index(e, i)
                continue
            if k == "op" and v in ("++", "--"):
                raise self.R("`%s` inside an expression is outside the fragment" % v)
            return e

    def field(self, e, m):
        if e[1].kind != "struct":
            raise self.R("member `%s` of a %r" % (m, e[1]))
        d = self.spec["types"][e[1].name]
        fs = d.get("fields", {})
        if m not in fs:
            raise self.R("struct %s has no configured field `%s`" % (e[1].name, m))
        fd = fs[m]
        cty, ln = (fd, m) if isinstance(fd, str) else (fd["type"], fd.get("lean", m))
        ty = self.ctype(cty)
        if ty.kind == "double":
            self.want("Ord")
        return "%s.%s" % (e[0], ln), ty

    def method(self, e, m, args):
        key = "." + m
        ms = self.spec.get("methods", {})
        cands = [ms.get("%s.%s" % (e[1].name, m)) if e[1].name else None, ms.get(key)]
        d = next((c for c in cands if c), None)
        if d is None:
            raise self.R("method call `%s.%s(…)` is not configured in the spec" % (e[0], m))
        ats = d.get("args", [])
        if len(ats) != len(args):
            raise self.R("method `%s` called with %d argument(s), spec says %d" % (m, len(args), len(ats)))
        ca = [self.coerce(a[0], a[1], self.ctype(t), "argument of " + m) for a, t in zip(args, ats)]
        if d.get("class"):
            self.want(d["class"])
        return "(%s %s%s)" % (d["lean"], e[0], "".join(" " + a for a in ca)), self.ctype(d["ret"])

    def index(self, e, i):
        if e[1].kind != "list":
            raise self.R("indexing a %r" % e[1])
        if i[1].kind != "nat":
            raise self.R("index of type %r" % i[1])
        d = self.spec["types"][e[1].name]
        get = d.get("get", "{xs}[{i}]!")
        return "(" + get.format(xs=e[0], i=i[0]) + ")", e[1].elem

    def args(self):
        self.eat("(")
        a = []
        if not self.at(")"):
            a.append(self.expr())
            while self.at(","):
                self.eat(",")
                a.append(self.expr())
        self.eat(")")
        return a

    def number(self, v):
        s = re.sub(r"[uUlLfF]+$", "", v)
        if re.match(r"^\d+$", s):
            return "(%s : Int)" % s, INT
        m = re.match(r"^(\d*)\.?(\d*)(?:[eE]([-+]?\d+))?$", s)
        if not m:
            raise self.R("numeric literal `%s`" % v)
        ip, fp, ex = m.group(1) or "", m.group(2) or "", int(m.group(3) or 0)
        mant = int((ip + fp) or "0")
        ex -= len(fp)
        # strip trailing zeros of the mantissa so that 1.0 becomes ofInt 1
        while mant != 0 and mant % 10 == 0 and ex < 0:
            mant //= 10; ex += 1
        if mant == 0:
            ex = 0
        if ex >= 0 and ex <= 18:
            self.want("Ring")
            return "(Cxx.Ring.ofInt %d : R)" % (mant * 10 ** ex), DBL
        self.want("Field")
        return "(Cxx.Field.ofDec %d (%d) : R)" % (mant, ex), DBL

    STD1 = {"std::sqrt": ("Cxx.Math.sqrt", "Math"), "sqrt": ("Cxx.Math.sqrt", "Math"), "std::floor": ("Cxx.Math.floor", "Math"),
            "floor": ("Cxx.Math.floor", "Math"), "std::ceil": ("Cxx.Math.ceil", "Math"), "ceil": ("Cxx.Math.ceil", "Math"),
            "std::fabs": ("Cxx.Ring.abs", "Ring"), "fabs": ("Cxx.Ring.abs", "Ring")}

    def primary(self):
        k, v = self.peek()
        if k == "op" and v == "(":
            # C-style cast `(double) e` / `(int) e` ?
            nk, nv = self.peek(1)
            if nk == "id" and self.peek(2) == ("op", ")") and (norm_type(nv) in INT_TYPES | NAT_TYPES | {"double", "float", "bool"}):
                self.eat("("); ty = self.ctype(self.eat()); self.eat(")")
                e = self.unary()
                return self.cast(e, ty)
            self.eat("(")
            e = self.expr()
            self.eat(")")
            return e
        if k == "num":
            self.eat()
            return self.number(v)
        if k == "chr":
            self.eat()
            c = v[1:-1]
            if len(c) != 1 or c in "'\\":
                raise self.R("character literal %s is outside the fragment" % v)
            return "'%s'" % c, CHAR
        if k == "str":
            raise self.R("string literal in an expression")
        if k == "id":
            self.eat()
            if v in ("true", "false"):
                return v, BOOL
            if v in ("static_cast", "dynamic_cast", "reinterpret_cast", "const_cast"):
                if v != "static_cast":
                    raise self.R("`%s` is outside the fragment" % v)
                self.eat("<")
                words = []
                while not self.at(">"):
                    words.append(self.eat())
                self.eat(">")
                self.eat("(")
                e = self.expr()
                self.eat(")")
                return self.cast(e, self.ctype(" ".join(words)))
            if v == "this":
                raise self.R("`this` used as a value")
            consts = self.spec.get("consts", {})
            if self.at("("):
                return self.call(v)
            ent = self.lookup(v)
            if ent is not None:
                return self.read_var(v)
            if v in consts:
                return self.const(v)
            tail = v.split("::")
            # enumerators of configured enum types
            for tn, d in self.spec.get("types", {}).items():
                en = d.get("enum")
                if en:
                    for key in (v, tail[-1]):
                        if key in en and (len(tail) == 1 or tail[-2] == tn.split("::")[-1] or v in en):
                            return en[key], T("enum", tn)
            raise self.R("unknown identifier `%s`" % v)
        raise self.R("unexpected token `%s`" % v)

    def const(self, v):
        c = self.spec["consts"][v]
        ty = self.ctype(c["type"])
        val = c["value"]
        if ty.kind == "int":
            return "(%d : Int)" % int(val), INT
        if ty.kind == "nat":
            return "(%d : Nat)" % int(val), NAT
        if ty.kind == "double":
            if "lean" in c:
                self.want(c.get("class", "Ring"))
                return c["lean"], DBL
            return self.number(str(val))
        raise self.R("constant `%s` of type %r" % (v, ty))

    def cast(self, e, ty):
        if e[1] == ty:
            return e
        if ty.kind == "double" and e[1].kind in ("int", "nat"):
            return self.coerce(e[0], e[1], DBL), DBL
        if ty.kind == "int" and e[1].kind == "double":
            self.want("Math")
            return "(Cxx.Math.toInt %s)" % e[0], INT
        if ty.kind == "int" and e[1].kind in ("nat", "bool", "char", "enum"):
            return self.coerce(e[0], e[1], INT), INT
        if ty.kind == "nat" and e[1].kind == "int":
            if not self.f.get("int_to_nat_ok"):
                raise self.R("cast of a signed value to unsigned (wraps for negatives) — refused (spec flag int_to_nat_ok)")
            return "(Int.toNat %s)" % e[0], NAT
        raise self.R("cast %r -> %r" % (e[1], ty))

    def call(self, name):
        args = self.args()
        _cfg = self.spec.get("calls", {})
        if name in _cfg or name.split("::")[-1] in _cfg:
            return self.configured_call(name, args)
        if name in ("std::min", "std::max"):
            if len(args) != 2:
                raise self.R("%s with %d arguments" % (name, len(args)))
            a, b, ty = self.unify(args[0][0], args[0][1], args[1][0], args[1][1], name)
            if args[0][1] != args[1][1]:
                raise self.R("%s with operands of different types does not compile in C++" % name)
            if ty.kind == "double":
                self.want("Ord")
                return "(Cxx.%s %s %s)" % (name[5:], a, b), DBL
            if ty.kind in ("int", "nat"):
                return "(%s %s %s)" % ("min" if name.endswith("min") else "max", a, b), ty
            raise self.R("%s on %r" % (name, ty))
        if name in ("std::abs", "abs"):
            if len(args) != 1:
                raise self.R("abs arity")
            if args[0][1].kind == "double":
                self.want("Ring")
                return "(Cxx.Ring.abs %s)" % args[0][0], DBL
            if args[0][1].kind == "int":
                return "(Int.ofNat (Int.natAbs %s))" % args[0][0], INT
            raise self.R("abs on %r" % args[0][1])
        if name in self.STD1:
            if len(args) != 1:
                raise self.R("%s arity" % name)
            fn, cls = self.STD1[name]
            self.want(cls)
            return "(%s %s)" % (fn, self.coerce(args[0][0], args[0][1], DBL)), DBL
        if name in ("std::isnan", "std::isfinite", "isnan", "isfinite"):
            self.want("Math")
            fn = "Cxx.Math.isNaN" if name.endswith("nan") else "Cxx.Math.isFinite"
            return "(%s %s)" % (fn, self.coerce(args[0][0], args[0][1], DBL)), BOOL
        return self.configured_call(name, args)

    def configured_call(self, name, args):
        calls = self.spec.get("calls", {})
        d = None
        for key in (name, name.split("::")[-1]):
            if key in calls:
                d = calls[key]; break
        if d is None:
            raise self.R("call of `%s` is not configured in the spec" % name)
        if isinstance(d, list):            # overloads by arity
            dd = [x for x in d if len(x.get("args", [])) == len(args)]
            if len(dd) != 1:
                raise self.R("call of `%s` with %d arguments matches %d configured overloads" % (name, len(args), len(dd)))
            d = dd[0]
        ats = d.get("args", [])
        if len(ats) != len(args):
            raise self.R("`%s` called with %d argument(s), spec says %d" % (name, len(args), len(ats)))
        ca = [self.coerce(a[0], a[1], self.ctype(t), "argument of " + name) for a, t in zip(args, ats)]
        if d.get("class"):
            self.want(d["class"])
        kind = d.get("kind", "def")
        ln = d["lean"]
        if kind == "param":
            if d not in [x[1] for x in self.used_params]:
                self.used_params.append((ln, d))
        elif kind == "generated":
            # another function of the same spec: pass the carrier implicitly, forward its own abstract parameters
            g = self.spec["_generated"].get(d["lean"])
            if g is None:
                raise self.R("`%s` calls `%s`, which must be listed BEFORE it in the spec" % (self.name, name))
            self.want(g["need"])
            for up in g["used_params"]:
                if up[1] not in [x[1] for x in self.used_params]:
                    self.used_params.append(up)
            extra = "".join(" " + up[0] for up in g["used_params"])
            fields = "".join(" " + self.lookup(fn)[0] for fn in g["fields"])
            if any(self.lookup(fn) is None for fn in g["fields"]):
                raise self.R("`%s` reads members %s that `%s` does not declare" % (name, g["fields"], self.name))
            return "(%s%s%s%s)" % (ln, extra, fields, "".join(" " + a for a in ca)), self.ctype(d["ret"])
        return "(%s%s)" % (ln, "".join(" " + a for a in ca)), self.ctype(d["ret"])


def indent(lines, n=1):
    return [(i + n, t) for i, t in lines]


# ------------------------------------------------------------------------------------------------- driver
def translate_function(spec, f, repo):
    src = read_source(repo, f["file"])
    if "preprocess" in spec:                       # e.g. drop `#if GEOS_DEBUG … #endif` blocks after checking what they contain
        src = spec["preprocess"](f["file"], src)
    names, body = find_function(src, f["name"], f["params"], f["file"], f["class"]) if f.get("class") else find_function(src, f["name"], f["params"], f["file"])
    toks = tokenize(body, f["name"])
    ps = spec.get("parser_class", Parser)(spec, f, repo, toks, None)     # a spec may subclass Parser to extend the fragment
    ps.taken.add(f["lean"])
    ps.ret_type = ps.ctype(f.get("ret", "bool"))
    binders = []
    # read-only members of `this`
    for cname, cty in f.get("fields", {}).items():
        ty = ps.ctype(cty)
        ln = ps.declare(cname, ty, False, True)
        binders.append("(%s : %s)" % (ln, ps.lean_type(ty)))
    # mutable members: parameter `<name>0`, local `let mut <name>`
    pre = []
    for cname, cty in f.get("state", {}).items():
        ty = ps.ctype(cty)
        ln = ps.declare(cname, ty, True, True)
        p0 = ps.fresh(ln + "0")
        binders.append("(%s : %s)" % (p0, ps.lean_type(ty)))
        pre.append((0, "let mut %s : %s := %s" % (ln, ps.lean_type(ty), p0)))
    # parameters (those assigned in the body become `let mut` copies)
    assigned_params = set()
    for i, (k, v) in enumerate(toks):
        if k == "id" and v in names and i + 1 < len(toks) and toks[i + 1][0] == "op" and toks[i + 1][1] in ("=", "+=", "-=", "*=", "/=", "++", "--"):
            if i == 0 or toks[i - 1][1] not in (".", "->"):
                assigned_params.add(v)
        if k == "op" and v in ("++", "--") and i + 1 < len(toks) and toks[i + 1][1] in names:
            assigned_params.add(toks[i + 1][1])
    for cname, cty in zip(names, f["params"]):
        ty = ps.ctype(cty)
        mut = cname in assigned_params
        ln = ps.declare(cname, ty, mut, True)
        binders.append("(%s : %s)" % (ln, ps.lean_type(ty)))
        if mut:
            pre.append((0, "let mut %s : %s := %s" % (ln, ps.lean_type(ty), ln)))
    ps.scopes.append({})
    lines, term = ps.stmts_until_end()
    rt = ps.ret_type
    state = list(f.get("state", {}))
    if not term:
        if rt.kind != "void":
            raise ps.R("a path falls off the end of a non-void function")
        lines.append((0, "return %s" % ps.return_tuple()))
    # result type
    parts = ([ps.lean_type(rt)] if rt.kind != "void" else []) + [ps.lean_type(ps.ctype(f["state"][s])) for s in state]
    res = "Unit" if not parts else parts[0] if len(parts) == 1 else " × ".join(parts)
    ext = "".join(" (%s : %s)" % (ln, d["sig"]) for ln, d in ps.used_params)
    cls = "" if ps.need == "none" else "{R : Type} [Cxx.%s R] " % ps.need
    if ps.need == "none" and any(re.search(r"\bR\b", b) for b in binders):
        cls = "{R : Type} "
    tps = [tp for tp in spec.get("type_params", []) if any(re.search(r"\b%s\b" % tp, b) for b in binders + [ext])]
    if tps:
        cls = "{%s : Type} " % " ".join(tps) + cls
    lname = f["lean"]
    if ps.monad == "except":
        head = "def %s %s%s %s : Except String (%s) := do" % (lname, cls, ext.strip(), " ".join(binders), res)
    else:
        head = "def %s %s%s %s : %s := Id.run do" % (lname, cls, ext.strip(), " ".join(binders), res)
    head = re.sub(r"\s+", " ", head)
    text = ["/-- `%s(%s)` — %s -/" % (f["name"], ", ".join(f["params"]), f["file"]), head]
    for ind, t in pre + lines:
        text.append("  " * (ind + 1) + t)
    spec.setdefault("_generated", {})[lname] = {"need": ps.need, "used_params": ps.used_params, "fields": list(f.get("fields", {}))}
    return "\n".join(text)


def _stmts_until_end(self):
    lines, term = [], False
    while self.peek()[0] is not None:
        if term:
            raise self.R("unreachable code after return/throw")
        l, term = self.stmt()
        lines += l
    return lines, term


Parser.stmts_until_end = _stmts_until_end


def generate(spec, repo, out_path=None):
    """regenerate the Lean module described by `spec` from the source tree `repo`; returns the text.
    `spec["prepare"](spec, repo)` (optional) may fill `consts` from the source."""
    spec = dict(spec)
    spec.pop("_generated", None)
    if "prepare" in spec:
        try:
            spec["prepare"](spec, repo)
        except AssumptionBroken:
            raise
        except Refuse as ex:
            raise AssumptionBroken(str(ex))
    L = ["import GeosModel.Base.Cxx"] + ["import " + m for m in spec.get("imports", [])]
    files = sorted(set(f["file"] for f in spec["functions"]) | set(spec.get("also_reads", [])))
    L += ["/-! GENERATED by translate/cxx2lean.py (spec %s) from %s — do not edit.  Statement-by-statement translation; see" % (spec["id"], ", ".join(files)),
          "   translate/cxx2lean.py for the accepted fragment. -/",
          "set_option linter.unusedVariables false",
          "namespace %s" % spec["namespace"], "open GeosModel", ""]
    if spec.get("preamble"):
        L += [spec["preamble"], ""]
    for f in spec["functions"]:
        L.append(translate_function(spec, f, repo))
        L.append("")
    L.append("end %s" % spec["namespace"])
    text = "\n".join(L) + "\n"
    # specs that preprocess sources into scratch copies: keep the emitted text independent of the scratch location
    text = re.sub(r"/[\w/.-]*/cxx2lean-pp-[\w.-]+/", "", text)
    if out_path:
        old = open(out_path).read() if os.path.exists(out_path) else None
        if old != text:
            os.makedirs(os.path.dirname(out_path), exist_ok=True)
            with open(out_path, "w") as fh:
                fh.write(text)
    return text


def load_spec(name):
    import importlib.util
    here = os.path.dirname(os.path.abspath(__file__))
    p = os.path.join(here, "specs", name + ".py")
    sp = importlib.util.spec_from_file_location("cxxspec_" + name, p)
    m = importlib.util.module_from_spec(sp)
    sp.loader.exec_module(m)
    return m.SPEC


def main(argv):
    if len(argv) < 2:
        sys.stderr.write("usage: cxx2lean.py <spec-name> [repo] [out.lean]\n"); return 2
    repo = argv[2] if len(argv) > 2 else "/repo"
    out = argv[3] if len(argv) > 3 else None
    try:
        t = generate(load_spec(argv[1]), repo, out)
        if not out:
            sys.stdout.write(t)
    except Refuse as ex:
        sys.stderr.write("REFUSE: %s\n" % ex)
        return 3
    return 0


if __name__ == "__main__":
    # run through the importable module so that specs (`import cxx2lean`) raise the same Refuse class
    sys.path.insert(0, os.path.dirname(os.path.abspath(__file__)))
    import cxx2lean as _self
    sys.exit(_self.main(sys.argv))
