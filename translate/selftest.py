#!/usr/bin/env python3
"""translate/selftest.py — unit tests of translate/cxx2lean.py on small C++ snippets: what must translate (and to what),
and what must be REFUSED (the translator never guesses).  Run by bin/setup; exit 0 = all good."""
import os, sys, tempfile
sys.path.insert(0, os.path.dirname(os.path.abspath(__file__)))
import cxx2lean as C


def run(body_src, fn, spec_extra=None):
    d = tempfile.mkdtemp(prefix="cxxst-")
    os.makedirs(os.path.join(d, "src"))
    open(os.path.join(d, "src", "t.cpp"), "w").write(body_src)
    spec = {"id": "selftest", "namespace": "T", "types": {"P": {"lean": "Cxx.XY R", "fields": {"x": "double", "y": "double"}},
            "E": {"lean": "E", "enum": {"E::A": "E.a", "E::B": "E.b"}}},
            "consts": {"K": {"type": "int", "value": 7}}, "functions": [dict({"file": "src/t.cpp"}, **fn)]}
    spec.update(spec_extra or {})
    return C.generate(spec, d)


OK = [
    # (source, function entry, substrings that must occur in the output)
    ("int f(int a, int b) { if (a > b) return a - b; return b / a + a % b; }",
     {"name": "f", "params": ["int", "int"], "ret": "int", "lean": "f"},
     ["decide (a > b)", "Int.tdiv b a", "Int.tmod a b"]),
    ("bool g(double x, int n) { double y = x * 2; y += n; return y <= 0.5 || std::max(x, y) != 1e-3; }",
     {"name": "g", "params": ["double", "int"], "ret": "bool", "lean": "g"},
     ["[Cxx.Field R]", "Cxx.Ring.mul x (Cxx.Ring.ofInt (2 : Int) : R)", "Cxx.Ring.ofInt n", "Cxx.Field.ofDec 5 (-1)", "Cxx.max x y", "Cxx.Field.ofDec 1 (-3)"]),
    ("int h(int op) { int r = -1; switch (op) { case 1: r = 10; break; case 2: case 3: { r = 20; break; } default: return K; } return r; }",
     {"name": "h", "params": ["int"], "ret": "int", "lean": "h"},
     ["if sel == (1 : Int) then", "else if sel == (2 : Int) || sel == (3 : Int) then", "return (7 : Int)"]),
    ("void C::step(const P& p) { if (p.x < q.x) { return; } if (p.y == q.y) { hit = true; return; } n++; }",
     {"name": "C::step", "params": ["const P&"], "ret": "void", "lean": "step", "fields": {"q": "P"}, "state": {"hit": "bool", "n": "int"}},
     ["(hit0 : Bool) (n0 : Int)", "let mut hit : Bool := hit0", "return (hit, n)", "n := n + 1", "Bool × Int"]),
    ("double k(double a) { double r; if (a < 0) r = -a; else r = a; return r; }",
     {"name": "k", "params": ["double"], "ret": "double", "lean": "k"}, ["let mut r : R := (Cxx.Ring.ofInt 0 : R)", "Cxx.Ring.neg a"]),
    ("bool m(E e, int i) { return e == E::A ? i > 0 : static_cast<double>(i) < 1.5; }",
     {"name": "m", "params": ["E", "int"], "ret": "bool", "lean": "m"}, ["(e == E.a)", "Cxx.Ring.ofInt i"]),
]

REFUSE = [
    ("int f(int op) { int r = 0; switch (op) { case 1: r = 1; case 2: r = 2; break; } return r; }", {"name": "f", "params": ["int"], "ret": "int", "lean": "f"}, "falls through"),
    ("int f(std::size_t a, std::size_t b) { std::size_t c = a - b; return 0; }", {"name": "f", "params": ["std::size_t", "std::size_t"], "ret": "int", "lean": "f"}, "unsigned"),
    ("int f(int a, std::size_t b) { if (a < b) return 1; return 0; }", {"name": "f", "params": ["int", "std::size_t"], "ret": "int", "lean": "f"}, "signed/unsigned"),
    ("int f(int a) { int r; if (a > 0) r = 1; return r; }", {"name": "f", "params": ["int"], "ret": "int", "lean": "f"}, "before assignment"),
    ("int f(int a) { while (a > 0) a--; return a; }", {"name": "f", "params": ["int"], "ret": "int", "lean": "f"}, "outside the fragment"),
    ("int f(int a) { if (a > 0) return 1; }", {"name": "f", "params": ["int"], "ret": "int", "lean": "f"}, "falls off the end"),
    ("int f(int a) { return a + undefinedThing; }", {"name": "f", "params": ["int"], "ret": "int", "lean": "f"}, "unknown identifier"),
    ("int f(int a) { return g(a); }", {"name": "f", "params": ["int"], "ret": "int", "lean": "f"}, "not configured"),
    ("int f(int a) { int b = a++; return b; }", {"name": "f", "params": ["int"], "ret": "int", "lean": "f"}, "outside the fragment"),
    ("int f(int* a) { return *a; }", {"name": "f", "params": ["int*"], "ret": "int", "lean": "f"}, "outside the fragment"),
    ("int f(double a) { return a; }", {"name": "f", "params": ["double"], "ret": "int", "lean": "f"}, "implicit conversion"),
    ("int f(int a) { return 1; return 2; }", {"name": "f", "params": ["int"], "ret": "int", "lean": "f"}, "unreachable"),
    ("int f(int a) { return 1; }", {"name": "f", "params": ["double"], "ret": "int", "lean": "f"}, "not found"),
]


def main():
    bad = 0
    for src, fn, subs in OK:
        try:
            out = run(src, fn)
            miss = [s for s in subs if s not in out]
            if miss:
                bad += 1
                print("FAIL (missing %r):\n%s\n%s" % (miss, src, out))
        except C.Refuse as ex:
            bad += 1
            print("FAIL (refused: %s): %s" % (ex, src))
    for src, fn, why in REFUSE:
        try:
            out = run(src, fn)
            bad += 1
            print("FAIL (accepted, should refuse with %r): %s\n%s" % (why, src, out))
        except C.Refuse as ex:
            if why not in str(ex):
                bad += 1
                print("FAIL (refused for another reason: %s; expected %r): %s" % (ex, why, src))
    print("cxx2lean selftest: %d translate, %d refuse, %d failures" % (len(OK), len(REFUSE), bad))
    return 1 if bad else 0


if __name__ == "__main__":
    sys.exit(main())
