"""translate/specs/t9_ext.py — parser extensions used by the C10 / C11 specs (`wkt_io`, `wkb_guards`).  NOT a spec itself.

`T9Parser` subclasses `cxx_ext.ExtParser` (regions, `while` with fuel, bit operations, mutators, hex literals, …), which
subclasses `cxx2lean.Parser`; nothing is patched.  Like the base translator it translates statement by statement or REFUSES.
Everything below only fires on the exact syntax named and only when the spec configures it.

doubles      with `SPEC["types"]["double"] = {"lean": "D", "opaque": True}` a C++ `double` is an OPAQUE value of the type
             parameter `D`; every operation the C++ applies to it becomes an explicit abstract function parameter of the
             generated definition (table `DOPS`): decimal literals `dlit m e` (= m·10^e, mantissa without trailing zeros),
             `dOfInt` (int -> double promotion), `dlt dle deq` (`a > b` is `dlt b a`, `a >= b` is `dle b a`, `a != b` is
             `!(deq a b)` — as IEEE-754 defines them), `dneg dadd dsub dmul ddiv`, `dtoU32 dtoInt` (static_cast to an unsigned
             / signed integer), `double(e)` is the identity on doubles.  The bridge theorem instantiates `D` with the carrier of
             the hand-written model (64-bit patterns) and the operations with their bit-level definitions — no type class
             with operations the model does not have.
strings      `std::string` is `String`; string literals; `==` `!=` on strings; `s + 'c'` / `s + "lit"` (append); `.size()`.
in/out       `f["inout"] = {param: type}` (the parameter must also be listed in `state`): a reference / pointer parameter that
             the function mutates is taken as input `<p>_in` and returned with the result (the `<p>0` binder that the base
             translator creates for a `state` entry is unused).
threaded     `SPEC["threaded"][f] = {lean, sig, kind: param|def, state: <state variable>, ret, implicit?, reads?, recv?}`: a call
             `f(<state>)` / `<state>->f()` / `<state>.f()` (or `f(args)` with `implicit`: the state is a member) that consumes from a
             stream and may throw.  Accepted ONLY as a whole statement `T x = f(s);`, `x = f(s);`, `x.fld = f(s);`, `return f(s);`,
             `f(s);` or `xs.push_back(f(s));` (so evaluation order is that of the statements); emitted as
             `let r ← f s; s := r.2; x := r.1` in the `Except` monad (`monad: except`).  Without `state` the call only may throw
             (`let r ← f args; x := r`); `reads` lists members passed as leading arguments; `recv` the receiver's type.
mutators     `SPEC["mutators"][".m"]` with `"monadic": True`: `x.m(args);` is `x ← lean x args` (the method may throw).
fields       `x.fld = e;` on a mutable struct variable with configured fields: `x := { x with fld := e }`.
bits         `^` on unsigned values (`^^^`); an unsigned value where a `bool` is expected (`return a & b;`, `if (a & b)`): `!= 0`.
pointer      `f["cursor"] = {buf: elem type}`: a `const unsigned char*` member seen as the list of elements from it to the end
             of the buffer: `buf[k]` (literal k) = k-th element, `buf++` / `buf += k` = drop, and the configured `size()`.
arg mutators `SPEC["arg_mutators"][f | ".m"] = {lean, kind: param|def, sig, args, mutates: i, monadic?, recv?}`: a statement call
             `f(a, b);` / `obj.m(a);` / `obj->m(a);` whose i-th argument is a reference the callee updates: `b := lean [obj] a b`
             (`b ← …` when `monadic`).  The mutated argument must be a mutable variable.
structs      `a != b` / `a == b` on a configured value class with `"ne"` / `"eq"` functions.
overloads    a configured call given as a list is selected by arity, then by the exact argument types.
regions      a region (cxx_ext) with `"outputs": []` returns the state tuple only; `"after": anchor` instead of `"from"` starts the
             region right after the anchor tokens, `"from_start": True` at the beginning of the body.
signature    `f["uses"] = [lean names]` fixes the abstract parameters (and their order) of the generated definition, used or
             not; a body that needs a parameter not listed is refused (the bridge theorems are stated for this signature).
"""
import re
import cxx_ext
import cxx2lean as C
from cxx2lean import T, INT, NAT, BOOL, CHAR, STR, VOID, Refuse, indent

DT = T("struct", "double")

DOPS = {
    "dlit": {"lean": "dlit", "sig": "Int → Int → D", "kind": "param"},
    "dOfInt": {"lean": "dOfInt", "sig": "Int → D", "kind": "param"},
    "dlt": {"lean": "dlt", "sig": "D → D → Bool", "kind": "param"},
    "dle": {"lean": "dle", "sig": "D → D → Bool", "kind": "param"},
    "deq": {"lean": "deq", "sig": "D → D → Bool", "kind": "param"},
    "dneg": {"lean": "dneg", "sig": "D → D", "kind": "param"},
    "dadd": {"lean": "dadd", "sig": "D → D → D", "kind": "param"},
    "dsub": {"lean": "dsub", "sig": "D → D → D", "kind": "param"},
    "dmul": {"lean": "dmul", "sig": "D → D → D", "kind": "param"},
    "ddiv": {"lean": "ddiv", "sig": "D → D → D", "kind": "param"},
    "dtoU32": {"lean": "dtoU32", "sig": "D → Nat", "kind": "param"},
    "dtoInt": {"lean": "dtoInt", "sig": "D → Int", "kind": "param"},
}


class T9Parser(cxx_ext.ExtParser):
    def __init__(self, spec, f, repo, toks, params):
        reg = f.get("region")
        if reg and ("after" in reg or reg.get("from_start")):
            # region that starts right AFTER a (unique) anchor — for a statement whose own first tokens are not stable — or at the
            # beginning of the body (`from_start`)
            toks = cxx_ext.preprocess(toks, f["name"])
            if reg.get("from_start"):
                a = 0
            else:
                alen = len(cxx_ext.preprocess(cxx_ext.toks_of(reg["after"]), f["name"]))
                a = cxx_ext.find_anchor(toks, reg["after"], "after", f["name"]) + alen
            b = cxx_ext.find_anchor(toks, reg["until"], "until", f["name"]) if reg.get("until") else len(toks)
            if b < a:
                raise Refuse("%s: region anchors are out of order" % f["name"])
            C.Parser.__init__(self, spec, f, repo, toks[a:b], params)
            self.streams = set()
            self.natver = {}
        else:
            cxx_ext.ExtParser.__init__(self, spec, f, repo, toks, params)
        self.pre_lines = []
        self._io_done = {}
        self.rk = 0

    # ------------------------------------------------------------------ helpers
    def dabs(self):
        return self.spec.get("types", {}).get("double", {}).get("opaque")

    def isD(self, t):
        return t.kind == "struct" and t.name == "double"

    def use(self, d):
        if d not in [x[1] for x in self.used_params]:
            self.used_params.append((d["lean"], d))
        return d["lean"]

    def dop(self, name):
        if not self.dabs():
            raise self.R("internal: abstract double operation without SPEC[types][double]")
        return self.use(DOPS[name])

    def toD(self, e, t):
        if self.isD(t):
            return e
        if t.kind == "int":
            return "(%s %s)" % (self.dop("dOfInt"), e)
        if t.kind == "nat":
            return "(%s (Int.ofNat %s))" % (self.dop("dOfInt"), e)
        raise self.R("conversion %r -> double of `%s`" % (t, e))

    def all_param_dicts(self):
        out = {}
        for tab in ("calls", "methods", "threaded", "arg_mutators"):
            for d in self.spec.get(tab, {}).values():
                for x in (d if isinstance(d, list) else [d]):
                    if x.get("kind") == "param":
                        out[x["lean"]] = x
        for d in DOPS.values():
            out.setdefault(d["lean"], d)
        return out

    # ------------------------------------------------------------------ signature
    def declare(self, cname, t, mutable=True, assigned=True, lean=None):
        io = self.f.get("inout", {})
        if cname in io and len(self.scopes) == 1 and cname in self.scopes[0] and not self._io_done.get(cname):
            if cname not in self.f.get("state", {}):
                raise self.R("inout parameter `%s` must also be listed in `state`" % cname)
            self._io_done[cname] = True
            ln = self.fresh(cname + "_in")
            st = self.scopes[0][cname][0]
            self.pre_lines.append((0, "%s := %s" % (st, ln)))
            return ln
        return cxx_ext.ExtParser.declare(self, cname, t, mutable, assigned, lean)

    def stmts_until_end(self):
        reg = self.f.get("region")
        if reg and not reg.get("outputs") and "rest" not in self.f:
            lines, term = C.Parser.stmts_until_end(self)
            if term and reg.get("until"):
                raise self.R("control does not reach the end of the region")
            if not term:
                lines, term = lines + [(0, "return %s" % self.return_tuple())], True
        else:
            lines, term = cxx_ext.ExtParser.stmts_until_end(self)
        uses = self.f.get("uses")
        if uses is not None:
            known = self.all_param_dicts()
            have = [x[0] for x in self.used_params]
            extra = [h for h in have if h not in uses]
            if extra:
                raise self.R("the body needs the abstract parameter(s) %s, which the spec's `uses` (the signature the bridge theorems "
                             "are stated for) does not list" % extra)
            ordered = []
            for u in uses:
                if u not in known:
                    raise self.R("`uses` names `%s`, which is not a configured abstract parameter" % u)
                ordered.append((u, known[u]))
            self.used_params = ordered
        return self.pre_lines + lines, term

    # ------------------------------------------------------------------ types
    def ctype(self, txt):
        if C.norm_type(txt) in ("std::string", "string"):
            return STR
        return cxx_ext.ExtParser.ctype(self, txt)

    def is_type_start(self):
        k, v = self.peek()
        if k == "id" and C.norm_type(v) in ("std::string", "string"):
            j = self.p + 1
            while j < len(self.t) and self.t[j][1] in ("&", "const"):
                j += 1
            return j < len(self.t) and self.t[j][0] == "id"
        return cxx_ext.ExtParser.is_type_start(self)

    def coerce(self, e, t, to, what="operand"):
        if t == to:
            return e
        if self.dabs() and self.isD(to) and t.kind in ("int", "nat"):
            return self.toD(e, t)
        if t.kind == "nat" and to.kind == "bool":
            return "(%s != 0)" % e
        return cxx_ext.ExtParser.coerce(self, e, t, to, what)

    def truth(self, e, t):
        if t.kind == "nat":
            return "(%s != 0)" % e
        return cxx_ext.ExtParser.truth(self, e, t)

    def unify(self, a, ta, b, tb, op):
        if self.dabs() and (self.isD(ta) != self.isD(tb)) and (ta.kind in ("int", "nat") or tb.kind in ("int", "nat")):
            return self.toD(a, ta), self.toD(b, tb), DT
        return cxx_ext.ExtParser.unify(self, a, ta, b, tb, op)

    # ------------------------------------------------------------------ doubles / strings in expressions
    def number(self, v):
        if self.dabs() and not re.match(r"^0[xX]", v):
            s = re.sub(r"[uUlLfF]+$", "", v)
            if not re.match(r"^\d+$", s):
                m = re.match(r"^(\d*)\.?(\d*)(?:[eE]([-+]?\d+))?$", s)
                if not m:
                    raise self.R("numeric literal `%s`" % v)
                ip, fp, ex = m.group(1) or "", m.group(2) or "", int(m.group(3) or 0)
                mant = int((ip + fp) or "0")
                ex -= len(fp)
                while mant != 0 and mant % 10 == 0:
                    mant //= 10
                    ex += 1
                if mant == 0:
                    ex = 0
                return "(%s %d (%d))" % (self.dop("dlit"), mant, ex), DT
        return cxx_ext.ExtParser.number(self, v)

    def compare(self, op, a, b):
        if self.dabs() and (self.isD(a[1]) or self.isD(b[1])):
            ea, eb = self.toD(*a), self.toD(*b)
            if op == "<":
                return "(%s %s %s)" % (self.dop("dlt"), ea, eb), BOOL
            if op == ">":
                return "(%s %s %s)" % (self.dop("dlt"), eb, ea), BOOL
            if op == "<=":
                return "(%s %s %s)" % (self.dop("dle"), ea, eb), BOOL
            if op == ">=":
                return "(%s %s %s)" % (self.dop("dle"), eb, ea), BOOL
            if op == "==":
                return "(%s %s %s)" % (self.dop("deq"), ea, eb), BOOL
            return "(!(%s %s %s))" % (self.dop("deq"), ea, eb), BOOL
        if a[1].kind == "struct" and a[1] == b[1] and op in ("==", "!="):
            d = self.spec["types"].get(a[1].name, {})
            key = "eq" if op == "==" else "ne"
            if key in d:
                return "(%s %s %s)" % (d[key], a[0], b[0]), BOOL
        if a[1].kind == "str" and b[1].kind == "str" and op in ("==", "!="):
            return "(%s %s %s)" % (a[0], op, b[0]), BOOL
        return cxx_ext.ExtParser.compare(self, op, a, b)

    def binop(self, op, a, b):
        if self.dabs() and (self.isD(a[1]) or self.isD(b[1])):
            if op not in "+-*/":
                raise self.R("`%s` on doubles" % op)
            fn = {"+": "dadd", "-": "dsub", "*": "dmul", "/": "ddiv"}[op]
            return "(%s %s %s)" % (self.dop(fn), self.toD(*a), self.toD(*b)), DT
        if a[1].kind == "str" and op == "+":
            if b[1].kind == "str":
                return "(%s ++ %s)" % (a[0], b[0]), STR
            if b[1].kind == "char":
                return "(String.push %s %s)" % (a[0], b[0]), STR
        return cxx_ext.ExtParser.binop(self, op, a, b)

    def bitxor_(self):
        e = self.bitand_()
        while self.peek() == ("op", "^"):
            self.eat()
            r = self.bitand_()
            ea, eb, ty = self.unify(e[0], e[1], r[0], r[1], "^")
            if ty.kind != "nat":
                raise self.R("`^` on %r is outside the fragment" % ty)
            e = ("(%s ^^^ %s)" % (ea, eb), NAT)
        return e

    def unary(self):
        if self.dabs() and self.peek() == ("op", "-"):
            save = self.p
            self.eat()
            e = self.unary()
            if self.isD(e[1]):
                return "(%s %s)" % (self.dop("dneg"), e[0]), DT
            self.p = save
        return cxx_ext.ExtParser.unary(self)

    def cast(self, e, ty):
        if self.dabs():
            if self.isD(e[1]) and ty.kind == "nat":
                return "(%s %s)" % (self.dop("dtoU32"), e[0]), NAT
            if self.isD(e[1]) and ty.kind == "int":
                return "(%s %s)" % (self.dop("dtoInt"), e[0]), INT
            if self.isD(ty) and e[1].kind in ("int", "nat"):
                return self.toD(*e), DT
        if ty.kind == "bool" and e[1].kind == "nat":
            return "(%s != 0)" % e[0], BOOL
        return cxx_ext.ExtParser.cast(self, e, ty)

    def primary(self):
        k, v = self.peek()
        if k == "str":
            self.eat()
            body = v[1:-1]
            if "\\" in body or '"' in body:
                raise self.R("string literal %s with escapes is outside the fragment" % v)
            return '"%s"' % body, STR
        if k == "id" and v == "double" and self.peek(1) == ("op", "(") and self.dabs():
            self.eat(); self.eat("(")
            e = self.expr()
            self.eat(")")
            return self.cast(e, DT) if not self.isD(e[1]) else e
        cur = self.f.get("cursor", {})
        if k == "id" and v in cur and self.peek(1) == ("op", "["):
            ent = self.lookup(v)
            self.eat(); self.eat("[")
            i = self.eat(kind="num")
            self.eat("]")
            if not re.match(r"^\d+$", i):
                raise self.R("cursor index `%s`" % i)
            return "(%s.getD %s default)" % (ent[0], i), ent[1].elem
        return cxx_ext.ExtParser.primary(self)

    def configured_call(self, name, args):
        calls = self.spec.get("calls", {})
        for key in (name, name.split("::")[-1]):
            d = calls.get(key)
            if isinstance(d, list):
                dd = [x for x in d if len(x.get("args", [])) == len(args)]
                if len(dd) > 1:
                    dd = [x for x in dd if all(self.ctype(t) == a[1] for t, a in zip(x["args"], args))]
                if len(dd) != 1:
                    raise self.R("call of `%s` with argument types %s matches %d configured overloads" % (name, [a[1] for a in args], len(dd)))
                saved = calls[key]
                calls[key] = dd[0]
                try:
                    return cxx_ext.ExtParser.configured_call(self, name, args)
                finally:
                    calls[key] = saved
        return cxx_ext.ExtParser.configured_call(self, name, args)

    def call(self, name):
        cur = self.f.get("cursor", {})
        if cur and name == self.f.get("cursor_size") and self.peek(1) == ("op", ")"):
            self.args()
            ent = self.lookup(next(iter(cur)))
            return "(List.length %s)" % ent[0], NAT
        return cxx_ext.ExtParser.call(self, name)

    def method(self, e, m, args):
        if e[1].kind == "str" and m in ("size", "length") and not args:
            return "(String.length %s)" % e[0], NAT
        return cxx_ext.ExtParser.method(self, e, m, args)

    # ------------------------------------------------------------------ statements
    def threaded_at(self, p):
        """is there a threaded / throwing call `f(args)` / `o->f(args)` / `o.f(args)` starting at token p ?  returns config or None"""
        th = self.spec.get("threaded", {})
        if p >= len(self.t) or self.t[p][0] != "id":
            return None
        v = self.t[p][1]
        if v in th and p + 1 < len(self.t) and self.t[p + 1] == ("op", "("):
            return th[v]
        if p + 3 < len(self.t) and self.t[p + 1][0] == "op" and self.t[p + 1][1] in (".", "->") and self.t[p + 2][0] == "id" \
                and ("." + self.t[p + 2][1]) in th and self.t[p + 3] == ("op", "("):
            d = th["." + self.t[p + 2][1]]
            d0 = d[0] if isinstance(d, list) else d
            if d0.get("state") in (v, None):
                return d
        return None

    def pick_overload(self, d, args, name):
        if isinstance(d, list):
            dd = [x for x in d if len(x.get("args", [])) == len(args)]
            if len(dd) != 1:
                raise self.R("call of `%s` with %d argument(s) matches %d configured overloads" % (name, len(args), len(dd)))
            return dd[0]
        return d

    def threaded_call(self):
        """parse a threaded call at the current position; returns (lines, value text, T).
        `state`: the stream variable the call consumes from (first argument / receiver, or a member when `implicit`);
        without `state` the call only may throw (`let r ← f args`, value `r`)."""
        if self.monad != "except":
            raise self.R("a stream-consuming / throwing call needs `monad: except`")
        k, v = self.peek()
        th = self.spec["threaded"]
        ent = None
        if v in th and self.peek(1) == ("op", "("):
            d = th[v]
            self.eat()
            args = self.args()
            d = self.pick_overload(d, args, v)
            ats = d.get("args", [])
            if len(args) != len(ats):
                raise self.R("`%s` called with %d argument(s), spec says %d" % (v, len(args), len(ats)))
            ca = [self.coerce(a[0], a[1], self.ctype(t), "argument of " + v) for a, t in zip(args, ats)]
            if d.get("state"):
                ent = self.lookup(d["state"])
                if ent is None or not ent[2]:
                    raise self.R("`%s` threads `%s`, which is not a mutable state variable here" % (v, d["state"]))
                if d.get("implicit"):
                    ca = [ent[0]] + ca
                elif not args or args[0][0] != ent[0]:
                    raise self.R("`%s` must be called with the stream `%s` as its first argument" % (v, d["state"]))
        else:
            recv = self.eat(kind="id")
            self.eat()
            m = self.eat(kind="id")
            d = th["." + m]
            args = self.args()
            d = self.pick_overload(d, args, m)
            ats = d.get("args", [])
            if len(args) != len(ats):
                raise self.R("`%s` called with %d argument(s), spec says %d" % (m, len(args), len(ats)))
            ca = [self.coerce(a[0], a[1], self.ctype(t), "argument of " + m) for a, t in zip(args, ats)]
            if d.get("state"):
                ent = self.lookup(recv)
                if ent is None or not ent[2]:
                    raise self.R("`%s.%s()` threads `%s`, which is not a mutable state variable here" % (recv, m, recv))
                ca = [ent[0]] + ca
            else:
                rv = self.read_var(recv) if self.lookup(recv) is not None else None
                if rv is None:
                    raise self.R("receiver `%s` of the throwing method `%s` is unknown" % (recv, m))
                if "recv" in d:
                    ca = [self.coerce(rv[0], rv[1], self.ctype(d["recv"]), "receiver of " + m)] + ca
        fn = self.use(d) if d.get("kind") == "param" else d["lean"]
        extra = ""
        for x in d.get("reads", []):
            if self.lookup(x) is None:
                raise self.R("`%s` reads the member `%s`, which this function does not declare" % (d["lean"], x))
            extra += " " + self.read_var(x)[0]
        self.rk += 1
        r = self.fresh("r%d" % self.rk)
        lines = [(0, "let %s ← %s%s%s" % (r, fn, extra, "".join(" " + a for a in ca)))]
        if ent is not None:
            lines.append((0, "%s := %s.2" % (ent[0], r)))
            return lines, "%s.1" % r, self.ctype(d["ret"])
        return lines, r, self.ctype(d["ret"])

    def stmt(self):
        k, v = self.peek()
        th = self.spec.get("threaded")
        if th:
            # return f(s);
            if k == "id" and v == "return" and self.threaded_at(self.p + 1):
                self.eat("return")
                lines, val, ty = self.threaded_call()
                self.eat(";")
                rt = self.ret_type
                if rt.kind == "void":
                    raise self.R("`return e;` in a void function")
                return lines + [(0, "return %s" % self.return_tuple(self.coerce(val, ty, rt, "returned value")))], True
            # xs.push_back(f(s));
            if k == "id" and self.lookup(v) is not None and self.peek(1) == ("op", ".") and self.peek(2) == ("id", "push_back") \
                    and self.peek(3) == ("op", "(") and self.threaded_at(self.p + 4):
                ln, ty = self.lvalue()
                if ty.kind != "list":
                    raise self.R("push_back on a %r" % ty)
                self.eat("."); self.eat("push_back"); self.eat("(")
                lines, val, vty = self.threaded_call()
                self.eat(")"); self.eat(";")
                return lines + [(0, "%s := %s ++ [%s]" % (ln, ln, self.coerce(val, vty, ty.elem, "pushed value")))], False
            # f(s);
            if self.threaded_at(self.p):
                lines, val, ty = self.threaded_call()
                self.eat(";")
                return lines, False
            # T x = f(s);
            if self.is_type_start():
                save = self.p
                tyt = self.parse_type()
                if self.peek()[0] == "id" and self.peek(1) == ("op", "=") and self.threaded_at(self.p + 2):
                    name = self.eat(kind="id")
                    self.eat("=")
                    lines, val, ty = self.threaded_call()
                    self.eat(";")
                    dty = ty if C.norm_type(tyt) == "auto" else self.ctype(tyt)
                    e = self.coerce(val, ty, dty, "initialiser of " + name)
                    ln = self.declare(name, dty, True, True)
                    return lines + [(0, "let mut %s : %s := %s" % (ln, self.lean_type(dty), e))], False
                self.p = save
            # x = f(s);   x.fld = f(s);
            if k == "id" and self.lookup(v) is not None:
                if self.peek(1) == ("op", "=") and self.threaded_at(self.p + 2):
                    ln, ty = self.lvalue()
                    self.eat("=")
                    lines, val, vty = self.threaded_call()
                    self.eat(";")
                    self.assigned[-1].add(ln)
                    return lines + [(0, "%s := %s" % (ln, self.coerce(val, vty, ty, "right-hand side")))], False
                if self.peek(1) == ("op", ".") and self.peek(2)[0] == "id" and self.peek(3) == ("op", "=") and self.threaded_at(self.p + 4):
                    ln, ty = self.lvalue()
                    self.eat(".")
                    fld = self.eat(kind="id")
                    fty, fln = self.field_info(ty, fld)
                    self.eat("=")
                    lines, val, vty = self.threaded_call()
                    self.eat(";")
                    return lines + [(0, "%s := { %s with %s := %s }" % (ln, ln, fln, self.coerce(val, vty, fty, "right-hand side")))], False
        return cxx_ext.ExtParser.stmt(self)

    def read_var(self, cname):
        if self.lookup(cname) is None:
            raise self.R("`%s` is not a variable in scope here" % cname)
        return cxx_ext.ExtParser.read_var(self, cname)

    def field_info(self, ty, fld):
        if ty.kind != "struct":
            raise self.R("member `%s` of a %r" % (fld, ty))
        fs = self.spec["types"][ty.name].get("fields", {})
        if fld not in fs:
            raise self.R("struct %s has no configured field `%s`" % (ty.name, fld))
        fd = fs[fld]
        cty, fln = (fd, fld) if isinstance(fd, str) else (fd["type"], fd.get("lean", fld))
        return self.ctype(cty), fln

    def expr_stmt(self):
        k, v = self.peek()
        nk, nv = self.peek(1)
        if k == "id":
            ent = self.lookup(v)
            cur = self.f.get("cursor", {})
            # cursor:  buf++;  buf += k;
            if v in cur and ent is not None:
                if (nk, nv) == ("op", "++") and self.peek(2) == ("op", ";"):
                    self.eat(); self.eat(); self.eat(";")
                    return [(0, "%s := %s.drop 1" % (ent[0], ent[0]))], False
                if (nk, nv) == ("op", "+=") and self.peek(2)[0] == "num" and self.peek(3) == ("op", ";"):
                    self.eat(); self.eat()
                    n = self.eat(kind="num")
                    self.eat(";")
                    if not re.match(r"^\d+$", n):
                        raise self.R("cursor step `%s`" % n)
                    return [(0, "%s := %s.drop %s" % (ent[0], ent[0], n))], False
                raise self.R("statement on the cursor `%s` is outside the fragment" % v)
            am = self.spec.get("arg_mutators", {})
            d = None
            if v in am and (nk, nv) == ("op", "("):
                d = am[v]
                self.eat()
                recv = None
            elif nk == "op" and nv in (".", "->") and self.peek(2)[0] == "id" and ("." + self.peek(2)[1]) in am and self.peek(3) == ("op", "(") \
                    and ent is not None:
                d = am["." + self.peek(2)[1]]
                recv = self.read_var(v)
                self.eat(); self.eat(); self.eat()
            if d is not None:
                args = self.args()
                self.eat(";")
                ats = d.get("args", [])
                if len(ats) != len(args):
                    raise self.R("`%s` called with %d argument(s), spec says %d" % (d["lean"], len(args), len(ats)))
                i = d["mutates"]
                tgt = None
                for sc in reversed(self.scopes):
                    for cn, (ln_, ty_, mut_) in sc.items():
                        if ln_ == args[i][0]:
                            tgt = (ln_, ty_, mut_)
                    if tgt:
                        break
                if tgt is None or not tgt[2]:
                    raise self.R("argument %d of `%s` is updated by the callee; `%s` is not a mutable variable" % (i, d["lean"], args[i][0]))
                ca = [self.coerce(a[0], a[1], self.ctype(t), "argument of " + d["lean"]) for a, t in zip(args, ats)]
                fn = self.use(d) if d.get("kind") == "param" else d["lean"]
                rv = (" " + self.coerce(recv[0], recv[1], self.ctype(d["recv"]), "receiver")) if recv is not None else ""
                call = "%s%s%s" % (fn, rv, "".join(" " + a for a in ca))
                if d.get("monadic"):
                    if self.monad != "except":
                        raise self.R("`%s` may throw: needs `monad: except`" % d["lean"])
                    return [(0, "%s ← %s" % (tgt[0], call))], False
                return [(0, "%s := (%s)" % (tgt[0], call))], False
            mk = self.peek(2)
            muts = self.spec.get("mutators", {})
            # monadic mutator  x.m(args);
            if ent is not None and nk == "op" and nv in (".", "->") and mk[0] == "id" and self.peek(3) == ("op", "("):
                d = muts.get("%s.%s" % (ent[1].name, mk[1])) or muts.get("." + mk[1])
                if d is not None and d.get("monadic"):
                    if self.monad != "except":
                        raise self.R("`%s.%s(…)` may throw: needs `monad: except`" % (v, mk[1]))
                    ln, ty = self.lvalue()
                    self.eat(); self.eat()
                    args = self.args()
                    self.eat(";")
                    ats = d.get("args", [])
                    if len(ats) != len(args):
                        raise self.R("`%s` called with %d argument(s), spec says %d" % (mk[1], len(args), len(ats)))
                    ca = [self.coerce(a[0], a[1], self.ctype(t), "argument of " + mk[1]) for a, t in zip(args, ats)]
                    if ln not in self.all_assigned():
                        raise self.R("`%s` may be read before assignment" % v)
                    return [(0, "%s ← %s %s%s" % (ln, d["lean"], ln, "".join(" " + a for a in ca)))], False
            # field assignment  x.fld = e;
            if ent is not None and ent[2] and (nk, nv) == ("op", ".") and mk[0] == "id" and self.peek(3) == ("op", "=") \
                    and ent[1].kind == "struct" and "fields" in self.spec["types"].get(ent[1].name, {}):
                ln, ty = self.lvalue()
                self.eat(".")
                fld = self.eat(kind="id")
                fty, fln = self.field_info(ty, fld)
                self.eat("=")
                rhs = self.expr()
                self.eat(";")
                return [(0, "%s := { %s with %s := %s }" % (ln, ln, fln, self.coerce(rhs[0], rhs[1], fty, "right-hand side")))], False
        return cxx_ext.ExtParser.expr_stmt(self)
