"""translate/specs/xparser.py — extensions of the cxx2lean fragment used by the specs `precision_round` (C04) and
`buffer_fillet` / `buffer_params` (C06).  NOT a spec itself; the specs import it (`from specs import xparser`) and set
`SPEC["parser_class"] = xparser.XParser`.  Everything here is a workaround for things translate/cxx2lean.py (shared, not to
be edited) does not accept; like the base translator it REFUSES whatever it does not understand.

What is added (each item is switched on by what the spec configures, nothing is guessed):

* math library calls as ABSTRACT PARAMETERS.  `Cxx.Math` has no instance over `Rat`, so `std::floor`, `std::ceil`,
  `std::round`, `(int) x`, `cos`, ... are looked up in `SPEC["calls"]` (kind `param`) and become explicit function parameters
  of the generated definition; the bridge theorem instantiates them (`fun x => (x.floor : Rat)` ...).  Only `fabs` keeps its
  built-in translation (`Cxx.Ring.abs`).  A C-style / static cast double -> int is the configured call `(int)`.
* a STABLE parameter list: `SPEC["param_order"]` fixes the order of the abstract parameters, `f["uses"]` lists the ones a
  function always takes (used or not), so that a harmless rewrite of the C++ does not change the signature the bridge
  theorems are stated for.
* `double n;` without initialiser: `let mut n : R := default` needs `Inhabited R`; here the declaration is DEFERRED to the
  first assignment (in whatever block that is; outside that block the variable cannot be read — refused).
* `std::modf(x, &n)`: value `modfFrac x`, and `n := modfInt x` is emitted BEFORE the (simple) statement containing the call;
  refused inside `if`/`switch`/`for` headers, and when `n` is read in the same statement.
* `static_cast<float>(e)` -> configured call `(float)`; any other use of the type `float` is refused (the base translator
  treats `float` as `double`, which would make `static_cast<float>` the identity).
* `for (int i = 0; i < n; i++)` with an `int` bound -> `for i in [0:(Int.toNat n)]` (no iteration when `n <= 0`, as in C++); the loop
  variable may not be assigned in the body.
* struct locals without initialiser whose fields are all assigned before the first use (`Coordinate pt; pt.x = ..; pt.y = ..;`):
  the fields become separate scalars `pt_x`, `pt_y`; the struct value is built where `pt` is read.
* calls with reference OUT parameters as statements (`Angle::sinCosSnap(a, s, c);`): configured in `SPEC["out_calls"]`
  as `{args: [...], outs: {position: {lean, kind param, sig, args, ret}}}`; each out parameter is assigned the configured abstract
  function of the in-arguments.
* TRACE methods: `segList.addPt(pt);` on a member configured in `f["trace"]` appends the argument to a list-valued state
  variable (the sequence of calls IS the observable effect; what the callee does with it is not part of this function).
* statement calls of another generated `void` member function (`init(distance);`): the callee's state tuple is assigned back.
* OBJECTS of a configured class type (`BufferParameters`): `T x;` is the configured default value (the regenerated default
  constructor), `x.setFoo(e);` / `p->setFoo(e);` is `x := update x e` with the configured update function (which calls the regenerated
  setter); a pointer parameter listed in `f["inout"]` (and in `state`) is taken as input and returned with the result.
* SINKS: `BufferOp op(g1, bp);` (configured in `f["sink"]`) ends the translated part of a function: the definition returns the
  object handed to the sink, i.e. "the parameters the operation runs with"; what the operation does is not translated.
* method statements on an UNTRACKED class-type member (`f["opaque_members"]`, e.g. `segList.reset();` in a function whose
  translation is about other members): skipped, after checking that the arguments have no side effects.

Source preprocessing (`prepare_sources`): cxx2lean tokenises a function body before any parser class sees it and has no
token for `#`; and it cannot locate constructors (member-initialiser list between `)` and `{`).  `prepare_sources` writes a
copy of the named source files to a scratch directory with (a) `#if GEOS_DEBUG ... [#else ...] #endif` blocks resolved for
GEOS_DEBUG = 0 (how the library is built), (b) optionally a constructor rewritten as a pseudo member function `__ctor` whose
body starts with the member initialisers as assignments in the order written — and points the spec's `file` entries to the copies.
"""
import os, re, hashlib, tempfile
import cxx2lean as C
from cxx2lean import Refuse, T, INT, NAT, DBL, BOOL, VOID, norm_type, indent


# ------------------------------------------------------------------------------------------------- source preprocessing
def _strip_debug_blocks(text, rel):
    """resolve `#if GEOS_DEBUG` / `#ifdef GEOS_DEBUG...` blocks for GEOS_DEBUG = 0 (line based, not nested)"""
    out, lines, i = [], text.split("\n"), 0
    while i < len(lines):
        ln = lines[i]
        if re.match(r"^\s*#\s*if\s+GEOS_DEBUG\b\s*$", ln):
            j, els, depth = i + 1, None, 1
            while j < len(lines):
                if re.match(r"^\s*#\s*if", lines[j]):
                    depth += 1
                elif re.match(r"^\s*#\s*endif\b", lines[j]):
                    depth -= 1
                    if depth == 0:
                        break
                elif depth == 1 and re.match(r"^\s*#\s*else\b", lines[j]):
                    els = j
                elif depth == 1 and re.match(r"^\s*#\s*elif\b", lines[j]):
                    raise Refuse("%s: `#elif` in a GEOS_DEBUG block" % rel)
                j += 1
            if j >= len(lines):
                raise Refuse("%s: unterminated `#if GEOS_DEBUG`" % rel)
            keep = lines[els + 1:j] if els is not None else []
            out += [""] * (((els + 1) if els is not None else j + 1) - i)     # keep line numbers roughly stable
            out += keep
            if els is not None:
                out.append("")
            i = j + 1
            continue
        out.append(ln)
        i += 1
    return "\n".join(out)


_SIMPLE_INIT = re.compile(r"^[\w:.\s]*$")


def _ctor_to_function(src, rel, cls, param_types, name="__ctor", track=None, alias=None, inclass=False):
    """rewrite `cls::cls(params) : a(x), b(y) { body }` as `void cls::<name>(params) { a = x; b = y; body }` (initialisers in the
    order written).  Members initialised with an empty argument list (`segList()`: default construction of a class-type member) are
    skipped.  `track`: only these members are kept; the initialiser of any other member is dropped (it is an expression
    initialising a different member; refused if it contains an assignment / increment).  `alias`: {member: parameter} for REFERENCE members bound
    to a constructor parameter (`bufParams(nBufParams)`): the binding is checked and the member is renamed to the parameter in
    the body."""
    pat = re.compile(r"(?<![\w:])%s\s*::\s*%s\s*\(" % (re.escape(cls), re.escape(cls)))
    if inclass:          # constructor defined inside the class body: `cls(params) : inits { body }`
        pat = re.compile(r"(?<![\w:~])%s\s*\(" % re.escape(cls))
    want = [norm_type(t) for t in param_types]
    alias = alias or {}
    for m in pat.finditer(src):
        i, depth = m.end(), 1
        while i < len(src) and depth:
            depth += {"(": 1, ")": -1}.get(src[i], 0)
            i += 1
        ptxt = src[m.end():i - 1]
        types = []
        for p in C.split_params(ptxt):
            p = re.sub(r"=.*$", "", p).strip()
            mm = re.match(r"^(.*?)([A-Za-z_]\w*)$", p, re.S)
            if not mm:
                types = None
                break
            types.append(norm_type(mm.group(1)))
        if types != want:
            continue
        m2 = re.match(r"\s*:(?!:)", src[i:])
        inits = []
        j = i
        if m2:
            j = i + m2.end()
            while True:
                mm = re.match(r"\s*([A-Za-z_]\w*)\s*([({])", src[j:])
                if not mm:
                    raise Refuse("%s: cannot read the member-initialiser list of %s::%s" % (rel, cls, cls))
                mname, opener = mm.group(1), mm.group(2)
                closer = ")" if opener == "(" else "}"
                k, depth = j + mm.end(), 1
                while k < len(src) and depth:
                    if src[k] == opener:
                        depth += 1
                    elif src[k] == closer:
                        depth -= 1
                    k += 1
                arg = src[j + mm.end():k - 1].strip()
                if arg:
                    inits.append((mname, arg))
                j = k
                m3 = re.match(r"\s*,", src[j:])
                if m3:
                    j += m3.end()
                    continue
                break
        m4 = re.match(r"\s*\{", src[j:])
        if not m4:
            continue                      # a declaration, not the definition
        b0 = j + m4.end()
        e, depth = b0, 1
        while e < len(src) and depth:
            depth += {"{": 1, "}": -1}.get(src[e], 0)
            e += 1
        body = src[b0:e - 1]
        stmts = []
        seen_alias = set()
        for mname, arg in inits:
            if mname in alias:
                if arg != alias[mname]:
                    raise Refuse("%s: member `%s` of %s is initialised with `%s`, the spec expects the parameter `%s`" % (rel, mname, cls, arg, alias[mname]))
                seen_alias.add(mname)
                continue
            if track is not None and mname not in track:
                if re.search(r"\+\+|--|(?<![=!<>])=(?!=)", arg):
                    raise Refuse("%s: initialiser `%s(%s)` of an untracked member of %s contains an assignment" % (rel, mname, arg, cls))
                continue
            stmts.append("    %s = %s;\n" % (mname, arg))
        for mname in alias:
            if mname not in seen_alias:
                raise Refuse("%s: the constructor of %s does not bind the reference member `%s`" % (rel, cls, mname))
            body = re.sub(r"(?<![\w:.>])%s\b" % re.escape(mname), alias[mname], body)
        head = "void %s%s(%s)\n{\n%s" % ("" if inclass else cls + "::", name, ptxt, "".join(stmts))
        return src[:m.start()] + head + body + "}" + src[e:]
    raise Refuse("%s: constructor %s::%s(%s) not found" % (rel, cls, cls, ", ".join(param_types)))


_EXEC = re.compile(r"^\s*(?:using\s+[\w:]+\s*;\s*)*return\s+execute\s*\(\s*([A-Za-z_]\w*)\s*,\s*(?:([^,\[\]]+?)\s*,\s*)?\[\s*&\s*\]\s*\(\s*\)\s*(?:->\s*[\w:*\s]+)?\{", re.S)


def _unwrap_execute(src, rel, fname, param_types):
    """C API wrapper `T f(args) { return execute(extHandle, [errval,] [&]() { BODY }); }`  ->  `T f(args) { BODY }`.
    `execute` (capi/geos_ts_c.cpp) runs the lambda inside try/catch: an exception makes the function return `errval` (NULL when
    omitted); that shape is checked by `check_execute`.  A `throw` of BODY therefore IS the error return of the C API function."""
    names, body = C.find_function(src, fname, param_types, rel)
    m = _EXEC.match(body)
    if not m:
        raise Refuse("%s: %s is not of the form `return execute(handle, [errval,] [&]() { ... });`" % (rel, fname))
    k, depth = m.end(), 1
    while k < len(body) and depth:
        depth += {"{": 1, "}": -1}.get(body[k], 0)
        k += 1
    inner = body[m.end():k - 1]
    if not re.match(r"^\s*\)\s*;\s*$", body[k:]):
        raise Refuse("%s: %s has statements after the execute(...) call" % (rel, fname))
    i = src.index(body)
    if src.count(body) != 1:
        raise Refuse("%s: the body of %s is not unique in the file" % (rel, fname))
    return src[:i] + inner + src[i + len(body):], (m.group(2) or "nullptr").strip()


def check_execute(src, rel):
    """the two `execute` templates of the C API: run the callable inside try, catch std::exception and (...), return errval / nullptr"""
    n = 0
    for m in re.finditer(r"inline\s+auto\s+execute\s*\(", src):
        seg = src[m.start():m.start() + 1500]
        if not (re.search(r"\btry\s*\{", seg) and re.search(r"return\s+f\s*\(\s*\)\s*;", seg) and re.search(r"catch\s*\(\s*\.\.\.\s*\)", seg)
                and re.search(r"catch\s*\(\s*const\s+std::exception", seg) and re.search(r"return\s+(errval|nullptr)\s*;", seg)):
            raise Refuse("%s: `execute` no longer has the shape try { return f(); } catch (std::exception) catch (...) return errval" % rel)
        n += 1
    if n < 2:
        raise Refuse("%s: expected the two `execute` templates (with and without errval), found %d" % (rel, n))


def prepare_sources(spec, repo, files):
    """files: {rel: {"ctors": [{class, params, name?, track?, alias?}], "unwrap_execute": [(function, [param types])],
    "check_execute": bool}}.  Writes preprocessed copies (comments stripped) and redirects the spec's functions to them.
    Deterministic: the scratch path depends on the repo path only."""
    tag = hashlib.sha1(os.path.abspath(repo).encode()).hexdigest()[:10]
    base = os.path.join(tempfile.gettempdir(), "cxx2lean-pp-%s-%s" % (spec["id"], tag))
    mapping = {}
    info = {}
    for rel, opt in files.items():
        p = os.path.join(repo, rel)
        try:
            text = open(p, encoding="utf-8", errors="replace").read()
        except OSError as ex:
            raise Refuse("cannot read %s: %s" % (rel, ex))
        text = _strip_debug_blocks(C.strip_comments(text), rel)
        if opt.get("check_execute"):
            check_execute(text, rel)
        for c in opt.get("ctors", []):
            text = _ctor_to_function(text, rel, c["class"], c["params"], c.get("name", "__ctor"), c.get("track"), c.get("alias"), c.get("inclass", False))
        for fname, ptypes in opt.get("unwrap_execute", []):
            text, errval = _unwrap_execute(text, rel, fname, ptypes)
            info[fname] = errval
        dst = os.path.join(base, rel)
        os.makedirs(os.path.dirname(dst), exist_ok=True)
        tmp = "%s.%d.tmp" % (dst, os.getpid())
        with open(tmp, "w", encoding="utf-8") as fh:
            fh.write(text)
        os.replace(tmp, dst)
        mapping[rel] = dst
    spec["functions"] = [dict(f, file=mapping.get(f["file"], f["file"]), source=f["file"]) for f in spec["functions"]]
    spec["_errvals"] = info
    return mapping


# ------------------------------------------------------------------------------------------------- the parser
class _Params(list):
    """abstract parameters in the order fixed by the spec"""

    def __init__(self, order):
        list.__init__(self)
        self.order = list(order)

    def _key(self, x):
        return self.order.index(x[0]) if x[0] in self.order else len(self.order)

    def append(self, x):
        if x[0] in [y[0] for y in self]:
            return
        list.append(self, x)
        self.sort(key=self._key)


class XParser(C.Parser):
    STD1 = {"std::fabs": ("Cxx.Ring.abs", "Ring"), "fabs": ("Cxx.Ring.abs", "Ring")}

    def __init__(self, spec, f, repo, toks, params):
        C.Parser.__init__(self, spec, f, repo, toks, params)
        self.name = f.get("source_name", f["name"])
        self.used_params = _Params(spec.get("param_order", []))
        for key in f.get("uses", []):
            d = spec["calls"].get(key)
            if d is None or d.get("kind") != "param":
                raise Refuse("%s: `uses` names `%s`, which is not a configured abstract parameter" % (f["name"], key))
            self.used_params.append((d["lean"], d))
        self.deferred = {}            # lean names declared without initialiser (their `let mut` is emitted at the first assignment)
        self.mat = {}                 # lean name -> the scope (dict object) in which that `let mut` was emitted
        self.pending = []             # lines to emit before the current simple statement
        self.pending_outs = set()
        self.stmt_reads = set()
        self.loop_vars = set()
        self.split_structs = {}       # C++ struct local -> {field: C++ pseudo-variable}
        self._float_ok = False
        # trace members: list-valued state; configured as f["trace"] = {member: {"method": "addPt", "elem": C++ type}}
        self.traces = f.get("trace", {})
        self.pre_lines = []
        self.sunk = False

    # ---- in/out object parameters: `f["inout"] = {param: type}`; the parameter must also be listed in `state` (it is returned)
    def declare(self, cname, t, mutable=True, assigned=True, lean=None):
        io = self.f.get("inout", {})
        if cname in io and cname in self.scopes[-1] and not getattr(self, "_io_done", {}).get(cname):
            self._io_done = dict(getattr(self, "_io_done", {}), **{cname: True})
            ln = self.fresh(cname + "_in")
            st = self.scopes[-1][cname][0]
            self.pre_lines.append((0, "%s := %s" % (st, ln)))
            return ln
        return C.Parser.declare(self, cname, t, mutable, assigned, lean)

    def stmts_until_end(self):
        lines, term = [], False
        while self.peek()[0] is not None:
            if self.sunk:
                break
            if term:
                raise self.R("unreachable code after return/throw")
            l, term = self.stmt()
            lines += l
        return self.pre_lines + lines, term or self.sunk

    # ---- types
    def ctype(self, txt):
        if norm_type(txt) == "float" and not self._float_ok:
            raise self.R("type `float` outside `float x = static_cast<float>(e);` is outside the fragment")
        return C.Parser.ctype(self, txt)

    def param_call(self, key, args, what):
        d = self.spec.get("calls", {}).get(key)
        if d is None or d.get("kind") != "param":
            raise self.R("%s needs the abstract parameter `%s` configured in the spec" % (what, key))
        ats = d.get("args", [])
        if len(ats) != len(args):
            raise self.R("%s: %d argument(s), spec says %d" % (what, len(args), len(ats)))
        ca = [self.coerce(a[0], a[1], self.ctype(t), "argument of " + key) for a, t in zip(args, ats)]
        self.used_params.append((d["lean"], d))
        if d.get("class"):
            self.want(d["class"])
        return "(%s%s)" % (d["lean"], "".join(" " + a for a in ca)), self.ctype(d["ret"])

    # ---- statements
    def stmt(self):
        k, v = self.peek()
        compound = (k == "id" and v in ("if", "switch", "for", "while", "do")) or (k == "op" and v == "{")
        outer = (self.pending, self.pending_outs, self.stmt_reads)
        self.pending, self.pending_outs, self.stmt_reads = [], set(), set()
        try:
            lines, term = self.stmt1()
            pend = self.pending
        finally:
            self.pending, self.pending_outs, self.stmt_reads = outer
        if pend and compound:
            raise self.R("call with an out-parameter in the header of a compound statement is outside the fragment")
        return pend + lines, term

    def stmt1(self):
        k, v = self.peek()
        if k == "id" and v == "float":
            return self.float_decl()
        if k == "id" and self.peek(1) == ("op", "(") and v in self.spec.get("out_calls", {}):
            return self.out_call_stmt(v)
        if k == "id" and self.peek(1) == ("op", "(") and self.is_generated_void(v):
            return self.generated_call_stmt(v)
        if k == "id" and v in self.f.get("sink", {}):
            return self.sink_stmt(v)
        if k == "id" and self.peek(1)[1] in (".", "->") and self.peek(2)[0] == "id" and self.peek(3) == ("op", "("):
            ent = self.lookup(v)
            if ent is not None and ent[1].kind == "struct" and self.peek(2)[1] in self.spec["types"].get(ent[1].name, {}).get("setters", {}):
                return self.setter_stmt(v, ent)
            if v in self.traces:
                return self.trace_stmt(v)
            if v in self.f.get("opaque_members", ()):
                return self.opaque_member_stmt(v)
        if k == "id" and v in self.split_structs and self.peek(1) == ("op", ".") and self.peek(3)[1] == "=":
            return self.split_field_assign(v)
        return C.Parser.stmt(self)

    def float_decl(self):
        self.eat("float")
        name = self.eat(kind="id")
        self.eat("=")
        if not (self.peek() == ("id", "static_cast") and self.peek(1) == ("op", "<") and self.peek(2) == ("id", "float") and self.peek(3) == ("op", ">")):
            raise self.R("`float %s = ...` must be initialised by static_cast<float>(...)" % name)
        e = self.expr()
        self.eat(";")
        ln = self.declare(name, DBL, True, True)
        return [(0, "let mut %s : %s := %s" % (ln, self.lean_type(DBL), e[0]))], False

    def decl_stmt(self):
        save = self.p
        tyt = self.parse_type()
        nt = norm_type(tyt)
        # `double a, b;` without initialisers: deferred
        if nt == "double":
            names, q = [], self.p
            while q < len(self.t) and self.t[q][0] == "id":
                names.append(self.t[q][1])
                if q + 1 < len(self.t) and self.t[q + 1] == ("op", ","):
                    q += 2
                    continue
                q += 1
                break
            if names and q < len(self.t) and self.t[q] == ("op", ";") and self.t[q - 1][0] == "id":
                for nme in names:
                    if nme in self.scopes[-1]:
                        raise self.R("redeclaration of `%s`" % nme)
                    ln = self.declare(nme, DBL, True, False)
                    self.deferred[ln] = True
                self.p = q + 1
                return [], False
        # `BufferParameters bp;` — default construction of a configured object type
        d0 = self.spec.get("types", {}).get(nt)
        if d0 is not None and d0.get("default") and self.peek()[0] == "id" and self.peek(1) == ("op", ";"):
            nme = self.eat(kind="id")
            self.eat(";")
            if nme in self.scopes[-1]:
                raise self.R("redeclaration of `%s`" % nme)
            ty = self.ctype(nt)
            if d0.get("class"):
                self.want(d0["class"])
            ln = self.declare(nme, ty, True, True)
            return [(0, "let mut %s : %s := %s" % (ln, self.lean_type(ty), d0["default"]))], False
        # `Coordinate pt;` for a configured struct with scalar fields: split into one deferred scalar per field
        d = self.spec.get("types", {}).get(nt)
        if d is not None and "fields" in d and d.get("split_local"):
            if self.peek()[0] == "id" and self.peek(1) == ("op", ";"):
                nme = self.eat(kind="id")
                self.eat(";")
                if nme in self.scopes[-1] or nme in self.split_structs:
                    raise self.R("redeclaration of `%s`" % nme)
                fmap = {}
                for fld, fty in d["fields"].items():
                    cty = fty if isinstance(fty, str) else fty["type"]
                    ty = self.ctype(cty)
                    pseudo = "%s.%s" % (nme, fld)
                    ln = self.declare(pseudo, ty, True, False, lean=self.fresh("%s_%s" % (nme, fld)))
                    self.deferred[ln] = True
                    fmap[fld] = pseudo
                self.split_structs[nme] = (nt, fmap, len(self.scopes))
                return [], False
        self.p = save
        return C.Parser.decl_stmt(self)

    def live(self, ln):
        """a deferred variable is visible iff the block in which its `let mut` was emitted is still open"""
        sc = self.mat.get(ln)
        return sc is not None and any(x is sc for x in self.scopes)

    def assign_line(self, ln, ty, e):
        """`ln := e`, or the deferred `let mut` when this is the first assignment in the current nest of blocks.  A variable
        declared without initialiser and first assigned in a nested block gets its `let mut` there; it is then invisible outside
        that block, where reading it is refused (`read_var`) and a later assignment emits a new `let mut`."""
        self.assigned[-1].add(ln)
        if ln in self.deferred and not self.live(ln):
            self.mat[ln] = self.scopes[-1]
            return (0, "let mut %s : %s := %s" % (ln, self.lean_type(ty), e))
        return (0, "%s := %s" % (ln, e))

    def expr_stmt(self):
        k, v = self.peek()
        if k == "id" and self.peek(1) == ("op", "="):
            ent = self.lookup(v)
            if ent is not None and ent[0] in self.deferred:
                if ent[0] in self.loop_vars:
                    raise self.R("assignment to the loop variable `%s`" % v)
                ln, ty = self.lvalue()
                self.eat("=")
                rhs = self.expr()
                self.eat(";")
                return [self.assign_line(ln, ty, self.coerce(rhs[0], rhs[1], ty, "right-hand side"))], False
        if k == "id":
            ent = self.lookup(v)
            if ent is not None and ent[0] in self.loop_vars:
                raise self.R("assignment to the loop variable `%s`" % v)
        if k == "op" and v in ("++", "--") and self.peek(1)[0] == "id":
            ent = self.lookup(self.peek(1)[1])
            if ent is not None and ent[0] in self.loop_vars:
                raise self.R("assignment to the loop variable `%s`" % self.peek(1)[1])
        return C.Parser.expr_stmt(self)

    def split_field_assign(self, sname):
        self.eat(sname)
        self.eat(".")
        fld = self.eat(kind="id")
        nt, fmap, depth = self.split_structs[sname]
        if fld not in fmap:
            raise self.R("struct %s has no configured field `%s`" % (nt, fld))
        ln, ty, _ = self.lookup(fmap[fld])
        self.eat("=")
        rhs = self.expr()
        self.eat(";")
        return [self.assign_line(ln, ty, self.coerce(rhs[0], rhs[1], ty, "right-hand side"))], False

    # ---- out-parameter calls, trace methods, generated void calls
    def out_call_stmt(self, name):
        d = self.spec["out_calls"][name]
        self.eat(name)
        self.eat("(")
        n = len(d["args"])
        ins, outs = [], {}
        for i in range(n):
            if i:
                self.eat(",")
            if i in d["outs"]:
                cname = self.eat(kind="id")
                ent = self.lookup(cname)
                if ent is None or not ent[2]:
                    raise self.R("out-argument `%s` of %s is not a mutable local" % (cname, name))
                outs[i] = ent
            else:
                e = self.expr()
                ins.append(self.coerce(e[0], e[1], self.ctype(d["args"][i]), "argument of " + name))
        self.eat(")")
        self.eat(";")
        lines = []
        # evaluate the in-arguments once (they may mention the out variables' old values)
        tmps = []
        for a in ins:
            t = self.fresh("arg")
            tmps.append(t)
            lines.append((0, "let %s := %s" % (t, a)))
        for i in sorted(outs):
            od = d["outs"][i]
            self.used_params.append((od["lean"], od))
            ln, ty, _ = outs[i]
            if ty != self.ctype(od["ret"]):
                raise self.R("out-argument %d of %s has type %r, spec says %s" % (i, name, ty, od["ret"]))
            lines.append(self.assign_line(ln, ty, "(%s%s)" % (od["lean"], "".join(" " + t for t in tmps))))
        return lines, False

    def trace_stmt(self, member):
        cfg = self.traces[member]
        self.eat(member)
        self.eat()
        meth = self.eat(kind="id")
        if meth != cfg["method"]:
            raise self.R("method `%s.%s(...)`: only `%s` is configured as a trace of `%s`" % (member, meth, cfg["method"], member))
        args = self.args()
        self.eat(";")
        if len(args) != 1:
            raise self.R("trace method `%s.%s` takes one argument" % (member, meth))
        ety = self.ctype(cfg["elem"])
        e = self.coerce(args[0][0], args[0][1], ety, "argument of %s.%s" % (member, meth))
        ent = self.lookup(member)
        if ent is None:
            raise self.R("trace member `%s` must be listed in `state`" % member)
        return [(0, "%s := %s ++ [%s]" % (ent[0], ent[0], e))], False

    def setter_stmt(self, v, ent):
        """`bp.setJoinStyle(e);` / `p->setJoinStyle(e);` on an object of a configured type: `obj := update obj e`"""
        ln, ty, mut = ent
        if not mut:
            raise self.R("method statement on `%s`, which is not mutable here" % v)
        self.eat(v); self.eat()
        meth = self.eat(kind="id")
        d = self.spec["types"][ty.name]["setters"][meth]
        args = self.args()
        self.eat(";")
        if len(args) != len(d["args"]):
            raise self.R("`%s.%s` called with %d argument(s), spec says %d" % (v, meth, len(args), len(d["args"])))
        ca = [self.coerce(a[0], a[1], self.ctype(t), "argument of " + meth) for a, t in zip(args, d["args"])]
        if ln not in self.all_assigned():
            raise self.R("`%s` used before initialisation" % v)
        if d.get("class"):
            self.want(d["class"])
        return [(0, "%s := (%s %s%s)" % (ln, d["update"], ln, "".join(" " + a for a in ca)))], False

    def sink_stmt(self, tyname):
        """`BufferOp op(g1, bp);` — the configured argument (a local object) is what the function hands on: `return bp`; the rest of
        the body (running the operation) is not part of the translation.  The other arguments must be plain names (or `*name`)."""
        cfg = self.f["sink"][tyname]
        self.eat(tyname)
        self.eat(kind="id")
        self.eat("(")
        args, cur = [], []
        while True:
            k, v = self.peek()
            if k is None:
                raise self.R("unbalanced parentheses")
            if k == "op" and v == ")":
                args.append(cur); self.p += 1
                break
            if k == "op" and v == ",":
                args.append(cur); cur = []
            elif k == "id" or (k == "op" and v == "*"):
                cur.append(v)
            else:
                raise self.R("argument of the %s constructor is not a plain name" % tyname)
            self.p += 1
        self.eat(";")
        i = cfg["arg"]
        if i >= len(args) or len(args[i]) != 1:
            raise self.R("%s constructor: argument %d is not a plain name" % (tyname, i))
        e = self.read_var(args[i][0]) if self.lookup(args[i][0]) is not None else None
        if e is None or e[1] != self.ret_type:
            raise self.R("%s constructor: argument %d is not a local of the function's declared result type" % (tyname, i))
        self.sunk = True
        return [(0, "return %s" % self.return_tuple(e[0]))], True

    def opaque_member_stmt(self, member):
        """`segList.reset();` on a class-type member the function's translation does not track (`f["opaque_members"]`): skipped.  The
        member is a separate object, so the call cannot assign the tracked members; its arguments must be free of side effects
        (names, literals, arithmetic — no call, no assignment), which is checked on the tokens."""
        self.eat(member)
        self.eat()
        self.eat(kind="id")
        self.eat("(")
        depth = 1
        while depth:
            k, v = self.peek()
            if k is None:
                raise self.R("unbalanced parentheses")
            if k == "op" and v == "(":
                raise self.R("nested call / parenthesis in the arguments of `%s.…(…)` (an untracked member) is outside the fragment" % member)
            if k == "op" and v == ")":
                depth -= 1
            elif k == "op" and v not in ("*", "/", "+", "-", ",", "."):
                raise self.R("operator `%s` in the arguments of `%s.…(…)` (an untracked member) is outside the fragment" % (v, member))
            self.p += 1
        self.eat(";")
        return [], False

    def is_generated_void(self, name):
        d = self.spec.get("calls", {}).get(name)
        return isinstance(d, dict) and d.get("kind") == "generated" and d.get("ret") == "void"

    def generated_call_stmt(self, name):
        """`init(x);` — another generated void member function: its state tuple is assigned back to the caller's members"""
        d = self.spec["calls"][name]
        self.eat(name)
        args = self.args()
        self.eat(";")
        g = self.spec.get("_generated", {}).get(d["lean"])
        if g is None:
            raise self.R("`%s` calls `%s`, which must be listed BEFORE it in the spec" % (self.name, name))
        ats = d.get("args", [])
        if len(ats) != len(args):
            raise self.R("`%s` called with %d argument(s), spec says %d" % (name, len(args), len(ats)))
        ca = [self.coerce(a[0], a[1], self.ctype(t), "argument of " + name) for a, t in zip(args, ats)]
        self.want(g["need"])
        for up in g["used_params"]:
            self.used_params.append(up)
        extra = "".join(" " + up[0] for up in g["used_params"])
        callee = next(ff for ff in self.spec["functions"] if ff["lean"] == d["lean"])
        ins = []
        for m in list(callee.get("fields", {})) + list(callee.get("state", {})):
            ent = self.lookup(m)
            if ent is None:
                raise self.R("`%s` uses member `%s` that `%s` does not declare" % (name, m, self.name))
            if ent[0] not in self.all_assigned():
                raise self.R("member `%s` passed to `%s` before assignment" % (m, name))
            ins.append(ent[0])
        outs = []
        for m in callee.get("state", {}):
            ln, ty, mut = self.lookup(m)
            if not mut:
                raise self.R("`%s` assigns member `%s`, which `%s` does not declare as state" % (name, m, self.name))
            outs.append((ln, ty))
        call = "(%s%s%s%s)" % (d["lean"], extra, "".join(" " + x for x in ins), "".join(" " + a for a in ca))
        if not outs:
            return [], False
        if len(outs) == 1:
            return [self.assign_line(outs[0][0], outs[0][1], call)], False
        tmp = self.fresh("r")
        lines = [(0, "let %s := %s" % (tmp, call))]
        for i, (ln, ty) in enumerate(outs):
            proj = tmp + "".join([".2"] * i) + (".1" if i < len(outs) - 1 else "")
            lines.append(self.assign_line(ln, ty, proj))
        return lines, False

    # ---- loops
    def for_stmt(self):
        # for (int i = 0; i < n; i++)  with int bound
        if (self.peek(1) == ("op", "(") and self.peek(2) == ("id", "int") and self.peek(3)[0] == "id" and self.peek(4) == ("op", "=")
                and self.peek(5) == ("num", "0") and self.peek(6) == ("op", ";")):
            save = self.p
            self.eat("for"); self.eat("("); self.eat("int")
            iname = self.eat(kind="id")
            self.eat("="); self.eat(kind="num"); self.eat(";")
            if self.eat(kind="id") != iname:
                raise self.R("loop condition must start with the loop variable")
            if self.eat() != "<":
                raise self.R("loop condition other than `i < n` is outside the fragment")
            hi = self.expr()
            self.eat(";")
            k, v = self.peek()
            if k == "op" and v == "++":
                self.eat(); self.eat(iname)
            else:
                self.eat(iname); self.eat("++")
            self.eat(")")
            if hi[1].kind != "int":
                self.p = save
                return C.Parser.for_stmt(self)
            self.scopes.append({})
            nat = self.fresh(iname + "N")
            iln = self.declare(iname, INT, False, True)
            self.loop_vars.add(iln)
            # the bound is evaluated once: refuse when the body could change it
            bound_vars = set(re.findall(r"[A-Za-z_]\w*", hi[0]))
            self.in_loop += 1
            self.assigned.append(set())
            p0 = self.p
            body, _ = self.block_or_stmt()
            body_toks = self.t[p0:self.p]
            self.assigned.pop()
            self.in_loop -= 1
            self.scopes.pop()
            self.loop_vars.discard(iln)
            for j, (kk, vv) in enumerate(body_toks):
                if kk == "id" and j + 1 < len(body_toks) and body_toks[j + 1][1] in ("=", "+=", "-=", "*=", "/=", "++", "--"):
                    ent = self.lookup(vv)
                    if vv == iname or (ent is not None and ent[0] in bound_vars):
                        raise self.R("the loop body assigns `%s`, which the loop header depends on" % vv)
                if kk == "id" and vv in ("break", "continue"):
                    raise self.R("`%s` in an int-indexed loop is outside the fragment" % vv)
            lines = [(0, "for %s in [0:(Int.toNat %s)] do" % (nat, hi[0])),
                     (1, "let %s : Int := Int.ofNat %s" % (iln, nat))] + indent(body or [(0, "pure ()")])
            return lines, False
        return C.Parser.for_stmt(self)

    # ---- expressions
    def read_var(self, cname):
        if cname in self.split_structs:
            nt, fmap, depth = self.split_structs[cname]
            d = self.spec["types"][nt]
            parts = []
            for fld in d["fields"]:
                if C.Parser.lookup(self, fmap[fld]) is None:
                    raise self.R("`%s` is used outside the block of its declaration" % cname)
                ln, ty = self.read_var(fmap[fld])
                parts.append(ln)
            ctor = d.get("mk")
            if not ctor:
                raise self.R("struct %s read as a value needs `mk` in the spec" % nt)
            return "(%s %s)" % (ctor, " ".join(parts)), T("struct", nt)
        ent = self.lookup(cname)
        if ent is not None:
            if ent[0] in self.pending_outs:
                raise self.R("`%s` is an out-parameter of a call in the same statement" % cname)
            if ent[0] in self.deferred and ent[0] in self.all_assigned() and not self.live(ent[0]):
                raise self.R("`%s` is declared without initialiser, first assigned in a nested block and read outside it" % cname)
            self.stmt_reads.add(ent[0])
        return C.Parser.read_var(self, cname)

    def lookup(self, cname):
        ent = C.Parser.lookup(self, cname)
        if ent is None and cname in getattr(self, "split_structs", {}):
            nt = self.split_structs[cname][0]
            return ("<split %s>" % cname, T("struct", nt), False)
        return ent

    def postfix(self):
        # field of a split struct local: pt.x
        k, v = self.peek()
        if k == "id" and v in self.split_structs and self.peek(1) == ("op", ".") and self.peek(2)[0] == "id" and self.peek(3) != ("op", "("):
            nt, fmap, depth = self.split_structs[v]
            fld = self.peek(2)[1]
            if fld in fmap and C.Parser.lookup(self, fmap[fld]) is not None:
                self.eat(); self.eat(); self.eat()
                return self.read_var(fmap[fld])
        return C.Parser.postfix(self)

    def primary(self):
        k, v = self.peek()
        if k == "id" and v == "static_cast" and self.peek(1) == ("op", "<") and self.peek(2) == ("id", "float") and self.peek(3) == ("op", ">"):
            for _ in range(4):
                self.eat()
            self.eat("(")
            e = self.expr()
            self.eat(")")
            if e[1].kind != "double":
                raise self.R("static_cast<float> of a %r" % e[1])
            return self.param_call("(float)", [e], "static_cast<float>")
        if k == "op" and v == "(" and self.peek(1) == ("id", "float") and self.peek(2) == ("op", ")"):
            raise self.R("C-style cast to float is outside the fragment (use of `float`)")
        return C.Parser.primary(self)

    def cast(self, e, ty):
        if ty.kind == "int" and e[1].kind == "double":
            return self.param_call("(int)", [e], "cast double -> int")
        return C.Parser.cast(self, e, ty)

    def call(self, name):
        if name in ("std::modf", "modf"):
            self.eat("(")
            x = self.expr()
            self.eat(",")
            self.eat("&")
            cname = self.eat(kind="id")
            self.eat(")")
            ent = self.lookup(cname)
            if ent is None or not ent[2] or ent[1].kind != "double":
                raise self.R("std::modf: `&%s` is not a mutable double local" % cname)
            if ent[0] in self.stmt_reads:
                raise self.R("std::modf: `%s` is also read in the same statement" % cname)
            ip = self.param_call("modfInt", [x], "std::modf")
            fp = self.param_call("modfFrac", [x], "std::modf")
            self.pending.append(self.assign_line(ent[0], ent[1], ip[0]))
            self.pending_outs.add(ent[0])
            return fp
        if name in ("std::isnan", "std::isfinite", "isnan", "isfinite", "std::sqrt", "sqrt") and self.spec.get("calls", {}).get(name.split("::")[-1], {}).get("kind") == "param":
            args = self.args()
            return self.param_call(name.split("::")[-1], args, name)
        return C.Parser.call(self, name)
