"""C08 — the distance primitives: algorithm::Distance::pointToSegment / segmentToSegment, CoordinateXY::distance / equals2D /
operator==, Envelope::distanceSquared / distance and the static Envelope::intersects(p1,p2,q1,q2).
Hand-written models: Model/Distance/Spec.lean (pointSeg2, segSeg2) and Model/Distance/BB.lean (boxBox2)."""
import cxx2lean as C


class Parser(C.Parser):
    """the general parser plus what `CoordinateXY` needs (and the literal `0.0` as an integer literal):
       * `a == b` / `a != b` on two CoordinateXY: the friend `operator==` of Coordinate.h (regenerated as `coordEq`);
       * `p.distance(q)`, `p.equals2D(q)`: the in-class functions regenerated as `coordDistance` / `coordEquals2D`, whose members
         `x`, `y` of `this` are the two leading parameters."""

    MEMBERS = {"distance": "coordDistance", "equals2D": "coordEquals2D"}

    def number(self, v):
        # `0.0`: the general parser writes the decimal literal 0 x 10^-1 (class Field); zero is the integer literal 0 (class Ring)
        import re
        s = re.sub(r"[uUlLfF]+$", "", v)
        if re.match(r"^0*\.0*(?:[eE][-+]?\d+)?$", s) and re.search(r"\d", s):
            self.want("Ring")
            return "(Cxx.Ring.ofInt 0 : R)", C.DBL
        return C.Parser.number(self, v)

    def gen(self, lean):
        g = self.spec.get("_generated", {}).get(lean)
        if g is None:
            raise self.R("`%s` uses `%s`, which must be listed BEFORE it in the spec" % (self.name, lean))
        self.want(g["need"])
        return g

    def compare(self, op, a, b):
        if op in ("==", "!=") and a[1] == b[1] and a[1].kind == "struct" and a[1].name == "CoordinateXY":
            self.gen("coordEq")
            e = "(coordEq %s %s)" % (a[0], b[0])
            return (e if op == "==" else "(!%s)" % e), C.BOOL
        return C.Parser.compare(self, op, a, b)

    def method(self, e, m, args):
        if e[1].kind == "struct" and e[1].name == "CoordinateXY" and m in self.MEMBERS and len(args) == 1:
            ln = self.MEMBERS[m]
            self.gen(ln)
            a = self.coerce(args[0][0], args[0][1], self.ctype("CoordinateXY"), "argument of " + m)
            return "(%s %s.x %s.y %s)" % (ln, e[0], e[0], a), (C.DBL if m == "distance" else C.BOOL)
        return C.Parser.method(self, e, m, args)


XY = "const CoordinateXY&"
CO = "include/geos/geom/Coordinate.h"
EN = "include/geos/geom/Envelope.h"
DI = "src/algorithm/Distance.cpp"
ENVF = {"minx": "double", "maxx": "double", "miny": "double", "maxy": "double"}

SPEC = {
    "id": "distance_core",
    "namespace": "GeosModel.Generated.DistanceCore",
    "imports": [],
    "parser_class": Parser,
    "preamble": "\n".join([
        "/-- `geom::Envelope` as the regenerated code reads it -/",
        "structure Env4 (R : Type) where",
        "  minx : R",
        "  maxx : R",
        "  miny : R",
        "  maxy : R"]),
    "types": {
        "CoordinateXY": {"lean": "Cxx.XY R", "fields": {"x": "double", "y": "double"}},
        "Coordinate": {"alias": "CoordinateXY"},
        "Envelope": {"lean": "Env4 R", "fields": dict(ENVF)},
    },
    "calls": {
        "intersects": {"lean": "envIntersects4", "kind": "generated", "args": [XY] * 4, "ret": "bool"},
        "distanceSquared": {"lean": "envDistanceSquared", "kind": "generated", "args": ["const Envelope&"], "ret": "double"},
        "pointToSegment": {"lean": "pointToSegment", "kind": "generated", "args": [XY] * 3, "ret": "double"},
    },
    "functions": [
        {"file": CO, "name": "equals2D", "params": [XY], "ret": "bool", "lean": "coordEquals2D", "fields": {"x": "double", "y": "double"}},
        {"file": CO, "name": "operator==", "params": [XY, XY], "ret": "bool", "lean": "coordEq"},
        {"file": CO, "name": "distance", "params": [XY], "ret": "double", "lean": "coordDistance", "fields": {"x": "double", "y": "double"}},
        {"file": EN, "name": "intersects", "params": [XY] * 4, "ret": "bool", "lean": "envIntersects4"},
        {"file": EN, "name": "distanceSquared", "params": ["const Envelope&"], "ret": "double", "lean": "envDistanceSquared", "fields": dict(ENVF)},
        {"file": EN, "name": "distance", "params": ["const Envelope&"], "ret": "double", "lean": "envDistance", "fields": dict(ENVF)},
        {"file": DI, "name": "Distance::pointToSegment", "params": [XY] * 3, "ret": "double", "lean": "pointToSegment"},
        {"file": DI, "name": "Distance::segmentToSegment", "params": [XY] * 4, "ret": "double", "lean": "segmentToSegment"},
    ],
}
