"""C07 — the planar kernels: ray crossing counter (segment test and ring loop), envelope / on-segment / on-line tests, the
polygon locator skeleton of SimplePointInAreaLocator, the orientation filter with its double-double fallback (DD::selfAdd /
selfMultiply and the operators built on them), and the decision skeleton of LineIntersector::computeIntersect.  The
hand-written models are lean/GeosModel/Model/Kernel/{RayCount,PolyLocate,Filter,SegSeg}.lean;
the bridge theorems are in lean/GeosModel/Props/C07Gen.lean.

`KParser` extends the generic fragment of cxx2lean.Parser by what these functions need (every extension refuses what it
does not recognise; see the final report of the translator tie for C07 for the list proposed for cxx2lean.py itself):
  * value classes (`DD`, `CoordinateXY`): constructor declarations `T v(a, b);`, copy declarations `T v(e);`, default
    construction `T v;` (configured default), overloaded operators resolved to translated functions (`operators`),
    member calls on a receiver (`p.equals2D(q)`, `rv.selfAdd(rhs);`), `return f(...);` / `f(...);` of a member function that
    assigns members (the callee's state is threaded through);
  * `bool` operands of `+`/`-` are promoted to int (`(det > 0) - (det < 0)`); a non-negative integer literal meeting a
    `std::size_t` is unsigned (`crossingCount % 2`);
  * `double` locals declared without initialiser get the value 0 (never read before assignment — checked by the base class);
  * `0.0` is the integer literal 0;
  * calls configured in the spec take precedence over the built-in `std::isfinite` (it becomes an abstract predicate, so
    that no carrier needs `Cxx.Math`); a call of a translated function in the `Except` monad is bound with `←`;
  * `seq.getAt<CoordinateXY>(i)`: the explicit template argument of a configured member template is dropped; `*ptr` on a
    configured opaque pointer type `X*` is the pointee of type `X`; methods of opaque objects can be abstract parameters
    (`kind: param` in `methods`), so that `surface.getEnvelopeInternal()->contains(p)` becomes
    `envelopeContains (surfaceEnvelope surface) p`;
  * `intPt[k] = e;` assigns the member `intPt<k>`; Z/M bookkeeping (`z`, `m`, members `.z`, `.m`, the last two arguments of
    `CoordinateXYZM(x, y, z, m)`) is dropped — the models are 2D — after checking that the dropped right-hand sides are
    `DoubleNotANumber` or calls of `Interpolate::*` on plain arguments.
"""
import re
import cxx2lean as C
from cxx2lean import T, INT, NAT, DBL, BOOL


# ------------------------------------------------------------------------------------------------- preparation
def _const(repo, rel, name, kind=r"-?\d+"):
    return C.find_constant(repo, rel, r"\b%s\s*=\s*(%s)\s*[,;}\n]" % (name, kind))


def prepare(spec, repo):
    consts = {}
    # CGAlgorithmsDD::{RIGHT, LEFT, STRAIGHT, FAILURE}
    h = "include/geos/algorithm/CGAlgorithmsDD.h"
    for name in ("RIGHT", "LEFT", "STRAIGHT", "FAILURE"):
        v = int(_const(repo, h, name))
        consts["CGAlgorithmsDD::" + name] = {"type": "int", "value": v}
    # Orientation::{COLLINEAR, ...}
    o = C.enum_values(repo, "include/geos/algorithm/Orientation.h", "")
    for name in ("CLOCKWISE", "COLLINEAR", "COUNTERCLOCKWISE"):
        if name not in o:
            raise C.Refuse("Orientation::%s not found in the anonymous enum of Orientation.h" % name)
        consts["Orientation::" + name] = {"type": "int", "value": o[name]}
    # LineIntersector::intersection_type
    li = C.enum_values(repo, "include/geos/algorithm/LineIntersector.h", "intersection_type")
    for name in ("NO_INTERSECTION", "POINT_INTERSECTION", "COLLINEAR_INTERSECTION"):
        if name not in li:
            raise C.Refuse("LineIntersector::%s not found" % name)
        if li[name] < 0:
            raise C.Refuse("LineIntersector::%s is negative" % name)
        consts[name] = {"type": "uint8_t", "value": li[name]}
    # DD::SPLIT
    v = C.find_constant(repo, "include/geos/math/DD.h", r"static\s+constexpr\s+double\s+SPLIT\s*=\s*([0-9.eE+-]+)\s*;")
    consts["SPLIT"] = {"type": "double", "value": v}
    spec["consts"] = consts
    # constructors and defaults that the preamble states by hand
    dd = C.read_source(repo, "include/geos/math/DD.h")
    for pat, what in ((r"DD\s*\(\s*double\s+(\w+)\s*,\s*double\s+(\w+)\s*\)\s*:\s*hi\s*\(\s*\1\s*\)\s*,\s*lo\s*\(\s*\2\s*\)\s*\{\s*\}", "DD(double hi, double lo) : hi(hi), lo(lo) {}"),
                      (r"DD\s*\(\s*double\s+(\w+)\s*\)\s*:\s*hi\s*\(\s*\1\s*\)\s*,\s*lo\s*\(\s*0\.0\s*\)\s*\{\s*\}", "DD(double x) : hi(x), lo(0.0) {}")):
        if not re.search(pat, dd):
            raise C.Refuse("constructor `%s` not found in DD.h (the preamble's ddMk / ddOfDouble state it)" % what)
    if not re.search(r"\bdouble\s+hi\s*;\s*double\s+lo\s*;", dd):
        raise C.Refuse("DD no longer has exactly the members `double hi; double lo;` in this order")
    co = C.read_source(repo, "include/geos/geom/Coordinate.h")
    for n in ("DEFAULT_X", "DEFAULT_Y"):
        m = re.search(r"\b%s\s*=\s*([0-9.eE+-]+)\s*;" % n, co)
        if not m or float(m.group(1)) != 0.0:
            raise C.Refuse("CoordinateXY::%s is not 0.0 (default-constructed coordinates are (0, 0) in the preamble)" % n)
    if not re.search(r"CoordinateXY\s*\(\s*\)\s*:\s*x\s*\(\s*DEFAULT_X\s*\)\s*,\s*y\s*\(\s*DEFAULT_Y\s*\)", co):
        raise C.Refuse("CoordinateXY() : x(DEFAULT_X), y(DEFAULT_Y) not found")
    rc = C.read_source(repo, "include/geos/algorithm/RayCrossingCounter.h")
    if not re.search(r"RayCrossingCounter\s*\(\s*const\s+geom::CoordinateXY\s*&\s*(\w+)\s*\)\s*:\s*point\s*\(\s*\1\s*\)\s*,\s*crossingCount\s*\(\s*0\s*\)\s*,"
                     r"\s*isPointOnSegment\s*\(\s*false\s*\)\s*\{\s*\}", rc):
        raise C.Refuse("RayCrossingCounter(p) : point(p), crossingCount(0), isPointOnSegment(false) {} not found (the preamble's rccMk states it)")
    _install_nodebug_filter()


LI_H = "include/geos/algorithm/LineIntersector.h"


def strip_debug_blocks(src):
    """LineIntersector.h: the body of computeIntersect contains a `#if GEOS_DEBUG … #endif` trace block and the tokenizer has
    no preprocessor.  Remove exactly those blocks, after checking that they contain nothing but output to std::cerr."""
    out, skipping = [], False
    for line in src.split("\n"):
        s = line.strip()
        if not skipping and re.match(r"^#\s*if\s+GEOS_DEBUG\s*$", s):
            skipping = True
            continue
        if skipping:
            if re.match(r"^#\s*endif\b", s):
                skipping = False
                continue
            if s.startswith("#"):
                raise C.Refuse("nested preprocessor directive inside `#if GEOS_DEBUG` of LineIntersector.h")
            if s and not re.match(r"^std::cerr\s*<<[^;{}]*;$", re.sub(r'"(?:\\.|[^"\\])*"', '""', s)):
                raise C.Refuse("`#if GEOS_DEBUG` block of LineIntersector.h contains more than std::cerr output: `%s`" % s)
            continue
        out.append(line)
    if skipping:
        raise C.Refuse("unterminated `#if GEOS_DEBUG` in LineIntersector.h")
    return "\n".join(out)


def _install_nodebug_filter():
    """cxx2lean has no hook between reading a file and tokenizing a body (wanted: spec["preprocess"](rel, text)); until it has,
    wrap cxx2lean.read_source for this one header.  The wrapper changes nothing else.  (When cxx2lean.py runs as a script the
    module exists twice, as `__main__` and as `cxx2lean`; both are wrapped.)"""
    import sys
    mods = [C]
    main = sys.modules.get("__main__")
    if main is not None and main is not C and hasattr(main, "translate_function") and hasattr(main, "read_source"):
        mods.append(main)
    for mod in mods:
        if getattr(mod.read_source, "_c07_nodebug", False):
            continue
        mod.read_source = _wrap(mod.read_source)


def _wrap(orig):
    def read_source(repo, rel):
        s = orig(repo, rel)
        return strip_debug_blocks(s) if rel == LI_H else s
    read_source._c07_nodebug = True
    return read_source


# ------------------------------------------------------------------------------------------------- parser
class KParser(C.Parser):
    def __init__(self, spec, f, repo, toks, params):
        # `seq.getAt<geom::CoordinateXY>(i)`: drop the explicit template argument of the configured member templates
        tm = spec.get("template_methods", {})
        out, i = [], 0
        while i < len(toks):
            out.append(toks[i])
            if toks[i][0] == "id" and toks[i][1] in tm and i + 3 < len(toks) and toks[i + 1] == ("op", "<") and toks[i + 2][0] == "id" \
                    and toks[i + 3] == ("op", ">") and i > 0 and toks[i - 1][1] in (".", "->"):
                if C.norm_type(toks[i + 2][1]) not in tm[toks[i][1]]:
                    raise C.Refuse("%s: `%s<%s>` — template argument not configured" % (f["name"], toks[i][1], toks[i + 2][1]))
                i += 4
                continue
            i += 1
        C.Parser.__init__(self, spec, f, repo, out, params)

    # ---- small helpers
    def fn_by_lean(self, lean):
        for x in self.spec["functions"]:
            if x["lean"] == lean:
                return x
        raise self.R("internal: no function `%s` in the spec" % lean)

    def use_generated(self, lean, what):
        g = self.spec.get("_generated", {}).get(lean)
        if g is None:
            raise self.R("`%s` uses `%s`, which must be listed BEFORE it in the spec" % (self.name, what))
        self.want(g["need"])
        for up in g["used_params"]:
            if up[1] not in [x[1] for x in self.used_params]:
                self.used_params.append(up)
        return g, self.fn_by_lean(lean), "".join(" " + up[0] for up in g["used_params"])

    def struct_name(self, t):
        return t.name if t.kind == "struct" else None

    def canon_struct(self, name):
        """follow aliases (C1 -> CoordinateXY); a pointer to a configured class has the methods of the class"""
        types = self.spec["types"]
        while name in types and "alias" in types[name]:
            name = C.norm_type(types[name]["alias"])
        return name[:-1] if name.endswith("*") else name

    def pick(self, cands, args, what):
        """choose the configured overload with matching arity and (for struct arguments) matching struct types"""
        if isinstance(cands, dict):
            cands = [cands]
        ok = []
        for d in cands:
            ats = d.get("args", [])
            if len(ats) != len(args):
                continue
            good = True
            for a, t in zip(args, ats):
                tt = self.ctype(t)
                if (a[1].kind == "struct") != (tt.kind == "struct") or (a[1].kind == "struct" and a[1] != tt):
                    good = False
            if good:
                ok.append(d)
        if len(ok) != 1:
            raise self.R("%s with %d argument(s) matches %d configured overloads" % (what, len(args), len(ok)))
        return ok[0]

    def coerce_args(self, d, args, what):
        return [self.coerce(a[0], a[1], self.ctype(t), "argument of " + what) for a, t in zip(args, d.get("args", []))]

    def tuple_proj(self, v, i, n):
        if n == 1:
            return v
        return v + ".2" * i + (".1" if i < n - 1 else "")

    # ---- a call of a translated member/free function, possibly with state
    def emit_generated(self, d, what, args, recv=None):
        """returns (expression text, return T, [state member names]) for calling the translated function d['lean'];
        `recv` = lean expression of the receiver object (members are then read from it), else members of `this`."""
        g, f, extra = self.use_generated(d["lean"], what)
        ca = self.coerce_args(d, args, what)

        def member(m):
            if recv is not None:
                return "%s.%s" % (recv, m)
            ent = self.lookup(m)
            if ent is None:
                raise self.R("`%s` reads member `%s`, which `%s` does not declare (fields/state)" % (what, m, self.name))
            if ent[0] not in self.all_assigned():
                raise self.R("member `%s` may be read before assignment" % m)
            return ent[0]
        fields = "".join(" " + member(m) for m in f.get("fields", {}))
        state = "".join(" " + member(m) for m in f.get("state", {}))
        txt = "(%s%s%s%s%s)" % (d["lean"], extra, fields, state, "".join(" " + a for a in ca))
        if f.get("monad") == "except":
            if self.monad != "except":
                raise self.R("`%s` can throw; `%s` is not declared `monad: except`" % (what, self.name))
            txt = "(← %s)" % txt
        return txt, self.ctype(f.get("ret", "bool")), list(f.get("state", {}))

    def state_call_lines(self, d, what, args, recv=None, recv_lean=None):
        """statements for a call of a translated function that assigns members: returns (lines, value expr or None)"""
        txt, rt, st = self.emit_generated(d, what, args, recv)
        n = (0 if rt.kind == "void" else 1) + len(st)
        if n == 0:
            raise self.R("call of `%s` has no effect in the fragment" % what)
        self.tmp += 1
        r = self.fresh("r")
        lines = [(0, "let %s := %s" % (r, txt))]
        k = 0
        val = None
        if rt.kind != "void":
            val = (self.tuple_proj(r, 0, n), rt)
            k = 1
        if recv is None:
            for i, m in enumerate(st):
                ent = self.lookup(m)
                if ent is None or not ent[2]:
                    raise self.R("`%s` assigns member `%s`, which `%s` does not declare as state" % (what, m, self.name))
                lines.append((0, "%s := %s" % (ent[0], self.tuple_proj(r, k + i, n))))
                self.assigned[-1].add(ent[0])
        else:
            upd = ", ".join("%s := %s" % (m, self.tuple_proj(r, k + i, n)) for i, m in enumerate(st))
            if upd:
                lines.append((0, "%s := { %s with %s }" % (recv_lean, recv_lean, upd)))
        return lines, val

    # ---- statements
    def skip_zm_rhs(self, what):
        """skip `… ;` after checking that it is DoubleNotANumber or Interpolate::f(plain arguments)"""
        k, v = self.peek()
        if k == "id" and v == "DoubleNotANumber" and self.peek(1) == ("op", ";"):
            self.eat(); self.eat(";")
            return
        if k == "id" and v.startswith("Interpolate::") and self.peek(1) == ("op", "("):
            self.eat(); self.eat("(")
            while not self.at(")"):
                k2, v2 = self.peek()
                if not (k2 == "id" or (k2 == "op" and v2 in (",", "."))):
                    raise self.R("%s: argument `%s` of an Interpolate call is not a plain name" % (what, v2))
                self.eat()
            self.eat(")"); self.eat(";")
            return
        raise self.R("%s: right-hand side starting with `%s` is not Z/M bookkeeping" % (what, v))

    def stmt(self):
        k, v = self.peek()
        ign = self.spec.get("ignore_vars", ())
        # `double z = …;`  /  `z = …;`
        if k == "id" and v == "double" and self.peek(1)[0] == "id" and self.peek(1)[1] in ign and self.peek(2) == ("op", "="):
            self.eat(); name = self.eat(); self.eat("=")
            self.skip_zm_rhs("declaration of " + name)
            return [], False
        if k == "id" and v in ign and self.lookup(v) is None and self.peek(1) == ("op", "="):
            self.eat(); self.eat("=")
            self.skip_zm_rhs("assignment to " + v)
            return [], False
        # `obj.z = …;`
        if k == "id" and self.lookup(v) is not None and self.peek(1) == ("op", ".") and self.peek(2)[1] in self.spec.get("ignore_members", ()) \
                and self.peek(3) == ("op", "="):
            self.eat(); self.eat("."); mname = self.eat(); self.eat("=")
            self.skip_zm_rhs("assignment to member ." + mname)
            return [], False
        return C.Parser.stmt(self)

    def default_value(self, ty, name):
        if ty.kind == "double":
            self.want("Ring")
            return "(Cxx.Ring.ofInt 0 : R)", False
        if ty.kind == "struct":
            d = self.spec["types"][ty.name]
            if "default" in d:
                if d.get("default_class"):
                    self.want(d["default_class"])
                return d["default"], True          # class type: default-constructed, hence assigned
        return "default", False

    def ctor(self, ty, args, what):
        """T(args) for a configured value class"""
        if len(args) == 1 and args[0][1] == ty:
            return args[0][0]
        cs = self.spec.get("ctors", {}).get(ty.name)
        if cs is None:
            raise self.R("%s: no constructors configured for %s" % (what, ty.name))
        d = self.pick(cs, args, "constructor of " + ty.name)
        if d.get("class"):
            self.want(d["class"])
        ca = self.coerce_args(d, args, what)
        return "(%s%s)" % (d["lean"], "".join(" " + a for a in ca))

    def decl_stmt(self):
        tyt = self.parse_type()
        lines = []
        while True:
            name = self.eat(kind="id")
            init = None
            is_auto = C.norm_type(tyt) == "auto"
            ty = None if is_auto else self.ctype(tyt)
            if self.at("="):
                self.eat("=")
                init = self.expr()
            elif self.at("(") or self.at("{"):
                closer = ")" if self.at("(") else "}"
                if ty is not None and ty.kind == "struct":
                    args = self.args() if closer == ")" else None
                    if args is None:
                        raise self.R("brace initialisation of %s is outside the fragment" % tyt)
                    if not args:
                        raise self.R("value-initialisation `%s %s()` is outside the fragment" % (tyt, name))
                    init = (self.ctor(ty, args, "declaration of " + name), ty)
                else:
                    self.eat()
                    if self.at(closer):
                        raise self.R("value-initialisation `%s %s%s` is outside the fragment" % (tyt, name, "()" if closer == ")" else "{}"))
                    init = self.expr()
                    self.eat(closer)
            if is_auto:
                if init is None:
                    raise self.R("`auto %s` without initialiser" % name)
                ty = init[1]
            if ty.kind == "void":
                raise self.R("void variable")
            lt = self.lean_type(ty)
            if self.lookup(name) is not None and name in self.scopes[-1]:
                raise self.R("redeclaration of `%s`" % name)
            if init is not None:
                e = self.coerce(init[0], init[1], ty, "initialiser of " + name)
                ln = self.declare(name, ty, True, True)
                lines.append((0, "let mut %s : %s := %s" % (ln, lt, e)))
            else:
                dv, assigned = self.default_value(ty, name)
                ln = self.declare(name, ty, True, assigned)
                note = "default-constructed" if assigned else "declared without initialiser; never read before assignment (checked by the translator)"
                lines.append((0, "let mut %s : %s := %s   -- %s" % (ln, lt, dv, note)))
            if self.at(","):
                self.eat(",")
                continue
            break
        self.eat(";")
        return lines, False

    def array_member(self, name, idx_tok):
        arr = self.spec.get("array_state", {}).get(name)
        if arr is None or not re.match(r"^\d+$", idx_tok) or int(idx_tok) >= len(arr):
            raise self.R("`%s[%s]` is not a configured member array element" % (name, idx_tok))
        return arr[int(idx_tok)]

    def xyzm_ctor(self):
        """CoordinateXYZM(x, y, z, m) with z, m dropped"""
        self.eat(); self.eat("(")
        x = self.expr(); self.eat(",")
        y = self.expr(); self.eat(",")
        ign = self.spec.get("ignore_vars", ())
        for i in range(2):
            k, v = self.peek()
            if not (k == "id" and v in ign and self.lookup(v) is None):
                raise self.R("CoordinateXYZM(x, y, z, m): `%s` is not one of the dropped Z/M locals" % v)
            self.eat()
            if i == 0:
                self.eat(",")
        self.eat(")")
        ty = self.ctype("CoordinateXY")
        d = self.pick(self.spec["ctors"][ty.name], [x, y], "CoordinateXYZM")
        ca = self.coerce_args(d, [x, y], "CoordinateXYZM")
        return "(%s %s %s)" % (d["lean"], ca[0], ca[1]), ty

    def expr_stmt(self):
        k, v = self.peek()
        if k == "id":
            nk, nv = self.peek(1)
            # intPt[k] = e;
            if nk == "op" and nv == "[" and v in self.spec.get("array_state", {}):
                self.eat(); self.eat("[")
                idx = self.eat(kind="num")
                self.eat("]"); self.eat("=")
                m = self.array_member(v, idx)
                ent = self.lookup(m)
                if ent is None or not ent[2]:
                    raise self.R("`%s[%s]` is assigned but `%s` is not declared as state of %s" % (v, idx, m, self.name))
                if self.peek()[0] == "id" and C.norm_type(self.peek()[1]) == "CoordinateXYZM" and self.peek(1) == ("op", "("):
                    rhs = self.xyzm_ctor()
                else:
                    rhs = self.expr()
                self.eat(";")
                e = self.coerce(rhs[0], rhs[1], ent[1], "right-hand side")
                self.assigned[-1].add(ent[0])
                return [(0, "%s := %s" % (ent[0], e))], False
            # obj.method(args);   on a local object
            ent = self.lookup(v)
            if ent is not None and nk == "op" and nv == "." and self.peek(2)[0] == "id" and self.peek(3) == ("op", "("):
                ln, ty, mut = ent
                if ty.kind != "struct" or not mut:
                    raise self.R("member call on `%s`, which is not a mutable local object" % v)
                self.eat(); self.eat(".")
                m = self.eat(kind="id")
                args = self.args()
                self.eat(";")
                cands = self.spec.get("methods", {}).get("%s.%s" % (self.canon_struct(ty.name), m))
                if cands is None:
                    raise self.R("member call `%s.%s(…)` is not configured" % (v, m))
                d = self.pick(cands, args, "%s.%s" % (ty.name, m))
                if d.get("kind") != "generated":
                    raise self.R("member call statement `%s.%s(…)` must name a translated function" % (v, m))
                if ln not in self.all_assigned():
                    raise self.R("`%s` may be read before assignment" % v)
                lines, val = self.state_call_lines(d, "%s.%s" % (ty.name, m), args, recv=ln, recv_lean=ln)
                return lines, False
            # f(args);  a member function of this object that assigns members
            if ent is None and nk == "op" and nv == "(":
                d0 = self.find_call(v)
                if d0 is not None:
                    save = self.p
                    self.eat()
                    args = self.args()
                    if self.at(";"):
                        d = self.pick(d0, args, v)
                        if d.get("kind") == "generated" and self.fn_by_lean(d["lean"]).get("state"):
                            self.eat(";")
                            lines, val = self.state_call_lines(d, v, args)
                            return lines, False
                    self.p = save
        return C.Parser.expr_stmt(self)

    def find_call(self, name):
        calls = self.spec.get("calls", {})
        for key in (name, name.split("::")[-1]):
            if key in calls:
                return calls[key]
        return None

    def return_stmt(self):
        # `return f(args);` where f is a translated function that assigns members
        if self.peek(1)[0] == "id" and self.peek(2) == ("op", "(") and self.lookup(self.peek(1)[1]) is None:
            d0 = self.find_call(self.peek(1)[1])
            if d0 is not None:
                save = self.p
                self.eat("return")
                name = self.eat()
                args = self.args()
                if self.at(";"):
                    cands = [x for x in (d0 if isinstance(d0, list) else [d0]) if len(x.get("args", [])) == len(args)]
                    if len(cands) == 1 and cands[0].get("kind") == "generated" and self.fn_by_lean(cands[0]["lean"]).get("state"):
                        d = self.pick(d0, args, name)
                        self.eat(";")
                        lines, val = self.state_call_lines(d, name, args)
                        rt = self.ret_type
                        if rt.kind == "void":
                            if val is not None:
                                raise self.R("`return %s(…)` returns a value from a void function" % name)
                            return lines + [(0, "return %s" % self.return_tuple())], True
                        if val is None:
                            raise self.R("`return %s(…)`: the callee is void" % name)
                        v = self.coerce(val[0], val[1], rt, "returned value")
                        return lines + [(0, "return %s" % self.return_tuple(v))], True
                self.p = save
        return C.Parser.return_stmt(self)

    # ---- expressions
    def unify(self, a, ta, b, tb, op):
        kinds = {ta.kind, tb.kind}
        if kinds == {"int", "nat"}:
            lit = re.compile(r"^\((\d+) : Int\)$")
            if ta.kind == "int" and lit.match(a):
                return "(%s : Nat)" % lit.match(a).group(1), b, NAT
            if tb.kind == "int" and lit.match(b):
                return a, "(%s : Nat)" % lit.match(b).group(1), NAT
        return C.Parser.unify(self, a, ta, b, tb, op)

    def operator(self, op, a, b):
        sa = self.struct_name(a[1])
        if sa is None or a[1] != b[1]:
            return None
        ops = self.spec.get("operators", {}).get(self.canon_struct(sa), {})
        d = ops.get(op)
        if d is None:
            raise self.R("operator `%s` on %s is not configured" % (op, sa))
        if d.get("member"):
            txt, rt, st = self.emit_generated(d, "operator" + op, [b], recv=a[0])
        else:
            txt, rt, st = self.emit_generated(d, "operator" + op, [a, b])
        if st:
            raise self.R("operator `%s` assigns members" % op)
        return txt, rt

    def compare(self, op, a, b):
        if a[1].kind == "struct" or b[1].kind == "struct":
            r = self.operator(op, a, b)
            if r is None:
                raise self.R("comparison `%s` of %r and %r" % (op, a[1], b[1]))
            return r
        return C.Parser.compare(self, op, a, b)

    def binop(self, op, a, b):
        if a[1].kind == "struct" or b[1].kind == "struct":
            r = self.operator(op, a, b)
            if r is None:
                raise self.R("operator `%s` on %r and %r" % (op, a[1], b[1]))
            return r
        if a[1].kind == "bool" and b[1].kind == "bool" and op in ("+", "-"):
            a = (self.coerce(a[0], BOOL, INT), INT)
            b = (self.coerce(b[0], BOOL, INT), INT)
        return C.Parser.binop(self, op, a, b)

    def unary(self):
        # `*ptr` on a configured opaque pointer type `X*`: the pointee, type `X`
        k, v = self.peek()
        if k == "op" and v == "*":
            self.eat()
            e = self.unary()
            if e[1].kind == "struct" and e[1].name.endswith("*") and e[1].name[:-1] in self.spec["types"]:
                return e[0], self.ctype(e[1].name[:-1])
            raise self.R("dereference of `%s` (%r) is outside the fragment" % (e[0], e[1]))
        return C.Parser.unary(self)

    def number(self, v):
        s = re.sub(r"[uUlLfF]+$", "", v)
        if re.match(r"^0*\.0*$", s) and re.search(r"\d", s):
            self.want("Ring")
            return "(Cxx.Ring.ofInt 0 : R)", DBL
        return C.Parser.number(self, v)

    def method(self, e, m, args):
        if e[1].kind in ("struct", "list"):
            cands = self.spec.get("methods", {}).get("%s.%s" % (self.canon_struct(e[1].name), m))
            if cands is not None:
                d = self.pick(cands, args, "%s.%s" % (e[1].name, m))
                if d.get("kind") == "generated":
                    txt, rt, st = self.emit_generated(d, "%s.%s" % (e[1].name, m), args, recv=e[0])
                    if st:
                        raise self.R("member call `%s.%s(…)` inside an expression assigns members" % (e[0], m))
                    return txt, rt
                ca = self.coerce_args(d, args, m)
                if d.get("class"):
                    self.want(d["class"])
                if d.get("kind") == "param":
                    if d not in [x[1] for x in self.used_params]:
                        self.used_params.append((d["lean"], d))
                return "(%s %s%s)" % (d["lean"], e[0], "".join(" " + a for a in ca)), self.ctype(d["ret"])
        return C.Parser.method(self, e, m, args)

    def call(self, name):
        d0 = self.find_call(name)
        if d0 is None:
            # constructor expression of a configured value class:  DD(x)
            tn = C.norm_type(name)
            if tn in self.spec.get("ctors", {}):
                args = self.args()
                ty = self.ctype(tn)
                return self.ctor(ty, args, "constructor expression"), ty
            return C.Parser.call(self, name)
        args = self.args()
        d = self.pick(d0, args, name)
        if d.get("kind") == "generated":
            txt, rt, st = self.emit_generated(d, name, args)
            if st:
                raise self.R("`%s` assigns members; it can only be called as a statement or in `return %s(…);`" % (name, name))
            return txt, rt
        ca = self.coerce_args(d, args, name)
        if d.get("class"):
            self.want(d["class"])
        if d.get("kind") == "param":
            if d not in [x[1] for x in self.used_params]:
                self.used_params.append((d["lean"], d))
        return "(%s%s)" % (d["lean"], "".join(" " + a for a in ca)), self.ctype(d["ret"])


# ------------------------------------------------------------------------------------------------- spec
XY = "const CoordinateXY&"
D6 = ["double"] * 6
SIG3 = "Cxx.XY R → Cxx.XY R → Cxx.XY R → Int"

PREAMBLE = """/-- `geos::math::DD` as regenerated code sees it: the two members, in declaration order -/
structure DDv (R : Type) where
  hi : R
  lo : R

/-- `DD(double hi, double lo) : hi(hi), lo(lo) {}` (text checked by the translator) -/
@[inline] def ddMk {R : Type} (hi lo : R) : DDv R := ⟨hi, lo⟩
/-- `DD(double x) : hi(x), lo(0.0) {}` (text checked by the translator) -/
@[inline] def ddOfDouble {R : Type} [Cxx.Ring R] (x : R) : DDv R := ⟨x, Cxx.Ring.ofInt 0⟩
/-- `CoordinateXY(double x, double y)`; `CoordinateXYZM(x, y, z, m)` with Z/M dropped -/
@[inline] def xyMk {R : Type} (x y : R) : Cxx.XY R := ⟨x, y⟩

/-- `algorithm::RayCrossingCounter`: the test point and the two members `countSegment` assigns -/
structure RCCv (R : Type) where
  point : Cxx.XY R
  isPointOnSegment : Bool
  crossingCount : Nat

/-- `RayCrossingCounter(p) : point(p), crossingCount(0), isPointOnSegment(false) {}` (text checked by the translator) -/
@[inline] def rccMk {R : Type} (p : Cxx.XY R) : RCCv R := ⟨p, false, 0⟩

/-- `CoordinateSequence::getAt<CoordinateXY>(i)` / `operator[]`: the i-th coordinate (an index past the end is undefined behaviour in
the C++; here it yields (0, 0)) -/
@[inline] def seqAt {R : Type} [Cxx.Ring R] (xs : List (Cxx.XY R)) (i : Nat) : Cxx.XY R :=
  xs.getD i ⟨Cxx.Ring.ofInt 0, Cxx.Ring.ofInt 0⟩"""

SPEC = {
    "id": "kernel_c07",
    "namespace": "GeosModel.Generated.KernelC07",
    "imports": ["GeosModel.Base.Kernel"],
    "prepare": prepare,
    "parser_class": KParser,
    "preamble": PREAMBLE,
    "also_reads": ["include/geos/math/DD.h", "include/geos/algorithm/Orientation.h"],
    "ignore_vars": ["z", "m"],
    "ignore_members": ["z", "m"],
    "array_state": {"intPt": ["intPt0", "intPt1"]},
    "template_methods": {"getAt": ["CoordinateXY"]},
    "type_params": ["Sf", "Cv", "En"],
    "types": {
        "CoordinateXY": {"lean": "Cxx.XY R", "fields": {"x": "double", "y": "double"},
                         "default": "(xyMk (Cxx.Ring.ofInt 0) (Cxx.Ring.ofInt 0) : Cxx.XY R)", "default_class": "Ring"},
        "CoordinateXYZM": {"alias": "CoordinateXY"},       # 2D model: Z/M dropped (see KParser)
        "C1": {"alias": "CoordinateXY"},                    # template parameters of LineIntersector's member templates
        "C2": {"alias": "CoordinateXY"},
        "DD": {"lean": "DDv R", "fields": {"hi": "double", "lo": "double"}},
        "RayCrossingCounter": {"lean": "RCCv R", "fields": {"point": "CoordinateXY", "isPointOnSegment": "bool", "crossingCount": "std::size_t"}},
        "CoordinateSequence": {"lean": "List (Cxx.XY R)", "list": "CoordinateXY"},
        "CoordinateSequence*": {"lean": "List (Cxx.XY R)", "list": "CoordinateXY"},
        # abstract geometry objects of SimplePointInAreaLocator::locatePointInSurface
        "Surface": {"lean": "Sf", "opaque": True}, "Curve": {"lean": "Cv", "opaque": True}, "Curve*": {"lean": "Cv", "opaque": True},
        "Envelope*": {"lean": "En", "opaque": True},
        "Location": {"lean": "Kernel.Loc", "enum": {
            "INTERIOR": "Kernel.Loc.interior", "BOUNDARY": "Kernel.Loc.boundary", "EXTERIOR": "Kernel.Loc.exterior",
            "Location::INTERIOR": "Kernel.Loc.interior", "Location::BOUNDARY": "Kernel.Loc.boundary", "Location::EXTERIOR": "Kernel.Loc.exterior",
            "geom::Location::INTERIOR": "Kernel.Loc.interior", "geom::Location::BOUNDARY": "Kernel.Loc.boundary",
            "geom::Location::EXTERIOR": "Kernel.Loc.exterior"}},
    },
    "ctors": {
        "DD": [{"lean": "ddMk", "args": ["double", "double"]}, {"lean": "ddOfDouble", "args": ["double"], "class": "Ring"}],
        "CoordinateXY": [{"lean": "xyMk", "args": ["double", "double"]}],
        "RayCrossingCounter": [{"lean": "rccMk", "args": [XY]}],
    },
    "operators": {
        "CoordinateXY": {"==": {"lean": "xyEq", "args": [XY, XY]}},
        "DD": {"<": {"lean": "ddLt", "member": True, "args": ["DD"]}, ">": {"lean": "ddGt", "member": True, "args": ["DD"]},
               "+": {"lean": "ddAdd", "args": ["DD", "DD"]}, "-": {"lean": "ddSub", "args": ["DD", "DD"]},
               "*": {"lean": "ddMul", "args": ["DD", "DD"]}},
    },
    "methods": {
        "CoordinateXY.equals2D": [{"lean": "equals2D", "kind": "generated", "args": [XY]}],
        "DD.selfAdd": [{"lean": "selfAddDD", "kind": "generated", "args": ["DD"]}],
        "DD.selfSubtract": [{"lean": "selfSubtractDD", "kind": "generated", "args": ["DD"]}],
        "DD.selfMultiply": [{"lean": "selfMultiplyDD", "kind": "generated", "args": ["DD"]}],
        "RayCrossingCounter.countSegment": [{"lean": "countSegment", "kind": "generated", "args": [XY, XY]}],
        "RayCrossingCounter.isOnSegment": [{"lean": "rccIsOnSegment", "kind": "generated", "args": []}],
        "RayCrossingCounter.getLocation": [{"lean": "getLocation", "kind": "generated", "args": []}],
        "CoordinateSequence.size": [{"lean": "List.length", "kind": "def", "args": [], "ret": "std::size_t"}],
        "CoordinateSequence.getSize": [{"lean": "List.length", "kind": "def", "args": [], "ret": "std::size_t"}],
        "CoordinateSequence.getAt": [{"lean": "seqAt", "kind": "def", "args": ["std::size_t"], "ret": "CoordinateXY", "class": "Ring"}],
        # SimplePointInAreaLocator: the geometry accessors are abstract
        "Surface.isEmpty": [{"lean": "isEmpty", "kind": "param", "sig": "Sf → Bool", "args": [], "ret": "bool"}],
        "Surface.getEnvelopeInternal": [{"lean": "surfaceEnvelope", "kind": "param", "sig": "Sf → En", "args": [], "ret": "Envelope*"}],
        "Surface.getExteriorRing": [{"lean": "getExteriorRing", "kind": "param", "sig": "Sf → Cv", "args": [], "ret": "Curve*"}],
        "Surface.getNumInteriorRing": [{"lean": "getNumInteriorRing", "kind": "param", "sig": "Sf → Nat", "args": [], "ret": "std::size_t"}],
        "Surface.getInteriorRingN": [{"lean": "getInteriorRingN", "kind": "param", "sig": "Sf → Nat → Cv", "args": ["std::size_t"], "ret": "Curve*"}],
        "Curve.getEnvelopeInternal": [{"lean": "curveEnvelope", "kind": "param", "sig": "Cv → En", "args": [], "ret": "Envelope*"}],
        "Envelope.contains": [{"lean": "envelopeContains", "kind": "param", "sig": "En → Cxx.XY R → Bool", "args": [XY], "ret": "bool"}],
    },
    "calls": {
        # abstract: the exact orientation predicates (their own translation is below; the ray / segment code is bridged over Int
        # with the exact sign in their place, the orientation code over rounded dyadic arithmetic)
        "Orientation::index": {"lean": "orientIndex", "kind": "param", "sig": SIG3, "args": [XY, XY, XY], "ret": "int"},
        "CGAlgorithmsDD::orientationIndex": [
            {"lean": "ddOrientationIndex", "kind": "param", "sig": SIG3, "args": [XY, XY, XY], "ret": "int"},
            {"lean": "orientationIndex", "kind": "generated", "args": D6}],
        "orientationIndex": [{"lean": "orientationIndex", "kind": "generated", "args": D6}],
        "std::isfinite": {"lean": "isFinite", "kind": "param", "sig": "R → Bool", "args": ["double"], "ret": "bool"},
        "intersection": {"lean": "intersection", "kind": "param", "sig": "Cxx.XY R → Cxx.XY R → Cxx.XY R → Cxx.XY R → Cxx.XY R",
                         "args": [XY, XY, XY, XY], "ret": "CoordinateXY"},
        "geom::Envelope::intersects": [{"lean": "envIntersectsPt", "kind": "generated", "args": [XY, XY, XY]},
                                       {"lean": "envIntersectsSeg", "kind": "generated", "args": [XY, XY, XY, XY]}],
        "orientationIndexFilter": {"lean": "orientationIndexFilter", "kind": "generated", "args": D6},
        "OrientationDD": {"lean": "orientationDD", "kind": "generated", "args": ["DD"]},
        "selfAdd": [{"lean": "selfAdd", "kind": "generated", "args": ["double", "double"]}],
        "selfMultiply": [{"lean": "selfMultiply", "kind": "generated", "args": ["double", "double"]}],
        "getLocation": {"lean": "getLocation", "kind": "generated", "args": []},
        "zmGetOrInterpolateCopy": {"lean": "zmGetOrInterpolateCopy", "kind": "generated", "args": [XY, XY, XY]},
        "computeCollinearIntersection": {"lean": "computeCollinearIntersection", "kind": "generated", "args": [XY, XY, XY, XY]},
        "isOnSegment": {"lean": "isOnSegment", "kind": "generated", "args": [XY, XY, XY]},
        "RayCrossingCounter::locatePointInRing": [
            {"lean": "locatePointInRing", "kind": "generated", "args": [XY, "const CoordinateSequence&"]},
            {"lean": "locatePointInCurve", "kind": "param", "sig": "Cxx.XY R → Cv → Kernel.Loc", "args": [XY, "const Curve&"], "ret": "Location"}],
        "PointLocation::locateInRing": [
            {"lean": "locateInCurve", "kind": "param", "sig": "Cxx.XY R → Cv → Kernel.Loc", "args": [XY, "const Curve&"], "ret": "Location"}],
    },
    "functions": [
        # ---- coordinates, envelopes
        {"file": "include/geos/geom/Coordinate.h", "name": "equals2D", "params": [XY], "ret": "bool", "lean": "equals2D",
         "fields": {"x": "double", "y": "double"}},
        {"file": "include/geos/geom/Coordinate.h", "name": "operator==", "params": [XY, XY], "ret": "bool", "lean": "xyEq"},
        {"file": "src/geom/Envelope.cpp", "name": "Envelope::intersects", "params": [XY, XY, XY], "ret": "bool", "lean": "envIntersectsPt"},
        {"file": "include/geos/geom/Envelope.h", "name": "intersects", "params": [XY, XY, XY, XY], "ret": "bool", "lean": "envIntersectsSeg"},
        # ---- ray crossing counter, point location
        {"file": "src/algorithm/RayCrossingCounter.cpp", "name": "RayCrossingCounter::countSegment", "params": [XY, XY], "ret": "void",
         "lean": "countSegment", "fields": {"point": "CoordinateXY"}, "state": {"isPointOnSegment": "bool", "crossingCount": "std::size_t"}},
        {"file": "src/algorithm/RayCrossingCounter.cpp", "name": "RayCrossingCounter::getLocation", "params": [], "ret": "Location",
         "lean": "getLocation", "fields": {"isPointOnSegment": "bool", "crossingCount": "std::size_t"}},
        {"file": "src/algorithm/RayCrossingCounter.cpp", "name": "RayCrossingCounter::isPointInPolygon", "params": [], "ret": "bool",
         "lean": "isPointInPolygon", "fields": {"isPointOnSegment": "bool", "crossingCount": "std::size_t"}},
        {"file": "src/algorithm/PointLocation.cpp", "name": "PointLocation::isOnSegment", "params": [XY, XY, XY], "ret": "bool",
         "lean": "isOnSegment"},
        {"file": "src/algorithm/Orientation.cpp", "name": "Orientation::index", "params": [XY, XY, XY], "ret": "int", "lean": "orientationIndexOf"},
        {"file": "include/geos/algorithm/RayCrossingCounter.h", "name": "isOnSegment", "params": [], "ret": "bool", "lean": "rccIsOnSegment",
         "fields": {"isPointOnSegment": "bool"}},
        # the loop starts at i = 1, so `i - 1` does not wrap
        {"file": "src/algorithm/RayCrossingCounter.cpp", "name": "RayCrossingCounter::locatePointInRing",
         "params": [XY, "const CoordinateSequence&"], "ret": "Location", "lean": "locatePointInRing", "nat_sub_ok": True},
        {"file": "src/algorithm/PointLocation.cpp", "name": "PointLocation::locateInRing", "params": [XY, "const CoordinateSequence&"],
         "ret": "Location", "lean": "locateInRing"},
        {"file": "src/algorithm/PointLocation.cpp", "name": "PointLocation::isOnLine", "params": [XY, "const CoordinateSequence*"],
         "ret": "bool", "lean": "isOnLine", "nat_sub_ok": True},
        {"file": "src/algorithm/locate/SimplePointInAreaLocator.cpp", "name": "SimplePointInAreaLocator::locatePointInSurface",
         "params": [XY, "const Surface&"], "ret": "Location", "lean": "locatePointInSurface"},
        # ---- orientation: filter, double-double arithmetic, the index
        {"file": "include/geos/algorithm/CGAlgorithmsDD.h", "name": "orientationIndexFilter", "params": D6, "ret": "int",
         "lean": "orientationIndexFilter"},
        {"file": "src/math/DD.cpp", "name": "DD::selfAdd", "params": ["double", "double"], "ret": "void", "lean": "selfAdd",
         "state": {"hi": "double", "lo": "double"}},
        {"file": "src/math/DD.cpp", "name": "DD::selfAdd", "params": ["const DD&"], "ret": "void", "lean": "selfAddDD",
         "state": {"hi": "double", "lo": "double"}},
        {"file": "src/math/DD.cpp", "name": "DD::selfSubtract", "params": ["const DD&"], "ret": "void", "lean": "selfSubtractDD",
         "state": {"hi": "double", "lo": "double"}},
        {"file": "src/math/DD.cpp", "name": "DD::selfMultiply", "params": ["double", "double"], "ret": "void", "lean": "selfMultiply",
         "state": {"hi": "double", "lo": "double"}},
        {"file": "src/math/DD.cpp", "name": "DD::selfMultiply", "params": ["const DD&"], "ret": "void", "lean": "selfMultiplyDD",
         "state": {"hi": "double", "lo": "double"}},
        {"file": "src/math/DD.cpp", "name": "operator+", "params": ["const DD&", "const DD&"], "ret": "DD", "lean": "ddAdd"},
        {"file": "src/math/DD.cpp", "name": "operator-", "params": ["const DD&", "const DD&"], "ret": "DD", "lean": "ddSub"},
        {"file": "src/math/DD.cpp", "name": "operator*", "params": ["const DD&", "const DD&"], "ret": "DD", "lean": "ddMul"},
        {"file": "include/geos/math/DD.h", "name": "operator<", "params": ["const DD&"], "ret": "bool", "lean": "ddLt",
         "fields": {"hi": "double", "lo": "double"}},
        {"file": "include/geos/math/DD.h", "name": "operator>", "params": ["const DD&"], "ret": "bool", "lean": "ddGt",
         "fields": {"hi": "double", "lo": "double"}},
        {"file": "src/algorithm/CGAlgorithmsDD.cpp", "name": "OrientationDD", "params": ["const DD&"], "ret": "int", "lean": "orientationDD"},
        {"file": "src/algorithm/CGAlgorithmsDD.cpp", "name": "CGAlgorithmsDD::orientationIndex", "params": D6, "ret": "int",
         "lean": "orientationIndex", "monad": "except"},
        {"file": "src/algorithm/CGAlgorithmsDD.cpp", "name": "CGAlgorithmsDD::orientationIndex", "params": [XY, XY, XY], "ret": "int",
         "lean": "orientationIndexXY", "monad": "except"},
        # ---- LineIntersector
        {"file": "include/geos/algorithm/LineIntersector.h", "name": "zmGetOrInterpolateCopy", "params": ["const C1&", "const C2&", "const C2&"],
         "ret": "CoordinateXYZM", "lean": "zmGetOrInterpolateCopy"},
        {"file": "include/geos/algorithm/LineIntersector.h", "name": "computeCollinearIntersection",
         "params": ["const C1&", "const C1&", "const C2&", "const C2&"], "ret": "uint8_t", "lean": "computeCollinearIntersection",
         "state": {"intPt0": "CoordinateXY", "intPt1": "CoordinateXY"}},
        {"file": "include/geos/algorithm/LineIntersector.h", "name": "computeIntersect",
         "params": ["const C1&", "const C1&", "const C2&", "const C2&"], "ret": "uint8_t", "lean": "computeIntersect",
         "state": {"isProperVar": "bool", "intPt0": "CoordinateXY", "intPt1": "CoordinateXY"}},
    ],
}
