"""C04 — noding::snapround::HotPixel (Model/Precision/HotPixel.lean is the hand-written model over Int)."""
import cxx2lean as C


def prepare(spec, repo):
    v = C.find_constant(repo, "include/geos/noding/snapround/HotPixel.h", r"static\s+constexpr\s+double\s+TOLERANCE\s*=\s*([0-9.eE+-]+)\s*;")
    if float(v) != 0.5:
        raise C.Refuse("HotPixel::TOLERANCE is %s; the model (pixel = centre ± 1/2) assumes 0.5" % v)


SPEC = {
    "id": "hotpixel",
    "namespace": "GeosModel.Generated.HotPixel",
    "imports": [],
    "prepare": prepare,
    "also_reads": ["include/geos/noding/snapround/HotPixel.h"],
    "types": {"CoordinateXY": {"lean": "Cxx.XY R", "fields": {"x": "double", "y": "double"}}},
    "calls": {
        "CGAlgorithmsDD::orientationIndex": {"lean": "orientationIndex", "kind": "param", "sig": "R → R → R → R → R → R → Int",
                                              "args": ["double"] * 6, "ret": "int"},
        "scale": {"lean": "scale", "kind": "generated", "args": ["double"], "ret": "double"},
        "intersectsScaled": {"lean": "intersectsScaled", "kind": "generated", "args": ["double"] * 4, "ret": "bool"},
    },
    "functions": [
        # TOLERANCE (= 0.5, checked by prepare) is passed as the parameter `TOLERANCE` so that the definition can be instantiated
        # with exact integers in units of one half
        {"file": "include/geos/noding/snapround/HotPixel.h", "name": "scale", "params": ["double"], "ret": "double", "lean": "scale",
         "fields": {"scaleFactor": "double"}},
        {"file": "src/noding/snapround/HotPixel.cpp", "name": "HotPixel::intersectsScaled", "params": ["double"] * 4, "ret": "bool",
         "lean": "intersectsScaled", "fields": {"hpx": "double", "hpy": "double", "TOLERANCE": "double"}},
        {"file": "src/noding/snapround/HotPixel.cpp", "name": "HotPixel::intersects", "params": ["const CoordinateXY&"], "ret": "bool",
         "lean": "intersectsPt", "fields": {"scaleFactor": "double", "hpx": "double", "hpy": "double", "TOLERANCE": "double"}},
        {"file": "src/noding/snapround/HotPixel.cpp", "name": "HotPixel::intersects", "params": ["const CoordinateXY&", "const CoordinateXY&"],
         "ret": "bool", "lean": "intersectsSeg", "fields": {"scaleFactor": "double", "hpx": "double", "hpy": "double", "TOLERANCE": "double"}},
    ],
}
