"""C10 — the configuration / ordinate-flag / number-layout decisions of WKTWriter, WKTReader, OrdinateSet and PrecisionModel
(hand-written model: lean/GeosModel/Model/WKT/{Write,Read}.lean, Model/Num/Fixed.lean; vocabulary in Model/WKT/Cxx.lean).

OrdinateSet.h   setZ setM hasZ hasM size           (the value class: `m_value` bit set X|Y|Z|M and the `changesAllowed` latch)
WKTWriter       setRoundingPrecision (clamp), setOutputDimension (2..4 or IllegalArgumentException), setTrim, setOld3D,
                writeFormatted — the statement selecting `decimalPlaces` (region), writeNumber(double) — the clamp to an
                unsigned precision, appendGeometryTaggedText — the choice of the output ordinates up to `indent(...)` (region;
                the `while` loop runs on fuel), appendOrdinateText (tag text), appendCoordinate (which ordinates are written),
                writeTrimmedNumber (which of fixed / scientific / adjusted-precision formatting a double gets)
PrecisionModel  getMaximumSignificantDigits        (what `decimalPlaces` is when the rounding precision is −1)
WKTReader       isTypeName, readOrdinateFlags, getNextEmptyOrOpener (the Z / M / ZM state machine), getPreciseCoordinate
                (undeclared Z / M detection on the first coordinate), readGeometryTaggedText — head (flags a tagged geometry
                starts with) and tail ("Cannot mix dimensionality") as regions

How C++ things are seen (translate/specs/t9_ext.py):  a `double` is an opaque value of the type parameter `D`, every operation on
it an explicit abstract parameter (`dlit dlt dle deq dneg ddiv dtoU32 …`, `fabs`, `isfinite`, `log10`, `floor`, …);
`Writer&` is the list of strings written so far; `StringTokenizer*` is the remaining token list, consumed by the threaded
calls `getNextWord` / `getNextNumber`; `OrdinateSet` is `WKT.Flags` with the methods of Model/WKT/Cxx.lean (which the
translation of OrdinateSet.h is bridged to); `char* buf` + the returned length of `writeTrimmedNumber` are the string written."""
import re
import cxx_ext            # first: makes `cxx2lean` the running translator module
import cxx2lean as C
from specs import t9_ext

OS = "include/geos/io/OrdinateSet.h"
WW = "src/io/WKTWriter.cpp"
WH = "include/geos/io/WKTWriter.h"
WR = "src/io/WKTReader.cpp"
PM = "src/geom/PrecisionModel.cpp"


def prepare(spec, repo):
    consts = {}
    src0 = C.read_source(repo, OS)
    m0 = re.search(r"enum\s+Ordinate\s*:\s*unsigned\s+char\s*\{(.*?)\}", src0, re.S)
    if not m0:
        raise C.Refuse("enum Ordinate : unsigned char not found in " + OS)
    ords = {}
    for item in m0.group(1).split(","):
        mm = re.match(r"^\s*(\w+)\s*=\s*(\d+)\s*$", item)
        if mm:
            ords[mm.group(1)] = int(mm.group(2))
        elif item.strip():
            raise C.Refuse("OrdinateSet::Ordinate: cannot read enumerator `%s`" % item.strip())
    for k, v in ords.items():
        consts["Ordinate::" + k] = {"type": "unsigned char", "value": v}
    if (ords.get("X"), ords.get("Y")) != (1, 2):
        raise C.Refuse("OrdinateSet::Ordinate X, Y are %r, %r; `Flags.value` assumes 1, 2" % (ords.get("X"), ords.get("Y")))
    spec["consts"] = consts
    src = C.read_source(repo, OS)
    # the representation `Flags.value` is bridged against: XY = X|Y and createXY() builds it with changesAllowed = true
    if not re.search(r"XY\s*=\s*Ordinate::X\s*\|\s*Ordinate::Y\s*,", src) or \
            not re.search(r"explicit\s+OrdinateSet\s*\(\s*Ordinates\s+o\s*\)\s*:\s*m_value\s*\(\s*o\s*\)\s*,\s*m_changesAllowed\s*\(\s*true\s*\)", src) or \
            not re.search(r"static\s+OrdinateSet\s+createXY\s*\(\s*\)\s*\{\s*return\s+OrdinateSet\s*\(\s*Ordinates::XY\s*\)\s*;", src):
        raise C.Refuse("OrdinateSet.h: createXY() is no longer `OrdinateSet(Ordinates::XY)` with m_changesAllowed(true)")
    if not re.search(r"bool\s+changesAllowed\s*\(\s*\)\s*const\s*\{\s*return\s+m_changesAllowed\s*;\s*\}", src) or \
            not re.search(r"void\s+setChangesAllowed\s*\(\s*bool\s+allowed\s*\)\s*\{\s*m_changesAllowed\s*=\s*allowed\s*;\s*\}", src) or \
            not re.search(r"bool\s+operator==\s*\(\s*const\s+OrdinateSet&\s+other\s*\)\s*const\s*\{\s*return\s+this->m_value\s*==\s*other\.m_value\s*;\s*\}", src) or \
            not re.search(r"bool\s+operator!=\s*\(\s*const\s+OrdinateSet&\s+other\s*\)\s*const\s*\{\s*return\s*!\s*\(\s*\*this\s*==\s*other\s*\)\s*;\s*\}", src):
        raise C.Refuse("OrdinateSet.h: changesAllowed / setChangesAllowed / operator== / operator!= are no longer the plain accessors the "
                       "model's Flags.changesAllowed / setChangesAllowed / ne stand for")
    # the constructor defaults the model's `Cfg` defaults stand for
    w = C.read_source(repo, WW)
    m = re.search(r"WKTWriter::WKTWriter\s*\(\s*\)\s*:(.*?)\{", w, re.S)
    if not m:
        raise C.Refuse("WKTWriter::WKTWriter() not found")
    inits = dict(re.findall(r"(\w+)\s*\(\s*([-\w]+)\s*\)", m.group(1)))
    want = {"roundingPrecision": "-1", "trim": "true", "defaultOutputDimension": "4", "old3D": "false"}
    for k, v in want.items():
        if inits.get(k) != v:
            raise C.Refuse("WKTWriter::WKTWriter() initialises %s with %r; the model's default Cfg assumes %s" % (k, inits.get(k), v))
    h = C.read_source(repo, WH)
    if not re.search(r"bool\s+removeEmptyDimensions\s*=\s*false\s*;", h):
        raise C.Refuse("WKTWriter.h: removeEmptyDimensions no longer defaults to false (the model writes the declared dimensions)")
    # the buffer `fmt_len_le` (at most 24 characters) is about: writeNumber copies into `char buf[N]` and appends a NUL
    n = int(C.find_constant(repo, WW, r"char\s+buf\s*\[\s*(\d+)\s*\]\s*;\s*int\s+len\s*=\s*writeTrimmedNumber\s*\(\s*d\s*,\s*precision\s*,\s*buf\s*\)\s*;"))
    if n < 25:
        raise C.Refuse("WKTWriter::writeNumber formats into char buf[%d]; theorem fmt_len_le (24 characters + NUL) needs at least 25" % n)
    if not re.search(r"if\s*\(\s*trim\s*\)\s*\{\s*char\s+buf", w):
        raise C.Refuse("WKTWriter::writeNumber(d, trim, precision) no longer selects the Ryu path with `if (trim)`")
    ph = C.read_source(repo, "include/geos/geom/PrecisionModel.h")
    mt = re.search(r"typedef\s+enum\s*\{(.*?)\}\s*Type\s*;", ph, re.S)
    pmt = [x.strip() for x in mt.group(1).split(",")] if mt else None
    if pmt != ["FIXED", "FLOATING", "FLOATING_SINGLE"]:
        raise C.Refuse("PrecisionModel::Type has enumerators %s" % pmt)


FLAGS = {"lean": "WKT.Flags", "opaque": True, "ne": "WKT.Flags.ne"}
TYPES = {
    "double": {"lean": "D", "opaque": True},
    "Ordinates": {"alias": "unsigned char"},
    "OrdinateSet": FLAGS,
    "Geometry": {"lean": "G", "opaque": True},
    "Geometry*": {"lean": "G", "opaque": True},
    "PrecisionModel*": {"lean": "PM", "opaque": True},
    "Writer": {"lean": "WKT.Writer", "opaque": True},
    "Writer*": {"lean": "WKT.Writer", "opaque": True},
    "StringTokenizer*": {"lean": "TS", "opaque": True},
    "CheckOrdinatesFilter": {"lean": "COF", "opaque": True, "ctor": {"args": ["OrdinateSet"], "lean": "cofNew"}},
    "CoordinateXYZM": {"lean": "WKT.XYZM D", "fields": {"x": "double", "y": "double", "z": "double", "m": "double"}},
    "Type": {"lean": "WKT.PMType", "enum": {"FIXED": "WKT.PMType.fixed", "FLOATING": "WKT.PMType.floating",
                                           "FLOATING_SINGLE": "WKT.PMType.floatingSingle"}},
    "char*": {"lean": "Buf", "opaque": True},
    "OutLen": {"lean": "S", "opaque": True},
    "FlagsPair": {"lean": "(WKT.Flags × WKT.Flags)", "opaque": True},
    "GeometryTypeId*": {"lean": "GT", "opaque": True},
}

SPEC = {
    "id": "wkt_io",
    "namespace": "GeosModel.Generated.WktIO",
    "imports": ["GeosModel.Model.WKT.Cxx"],
    "prepare": prepare,
    "parser_class": t9_ext.T9Parser,
    "also_reads": [WH, "include/geos/geom/PrecisionModel.h"],
    "types": TYPES,
    "type_params": ["D", "G", "PM", "TS", "COF", "Buf", "S", "GT"],
    "methods": {
        "OrdinateSet.hasZ": {"lean": "WKT.Flags.hasZ", "args": [], "ret": "bool"},
        "OrdinateSet.hasM": {"lean": "WKT.Flags.hasM", "args": [], "ret": "bool"},
        "OrdinateSet.size": {"lean": "WKT.Flags.size", "args": [], "ret": "int"},
        "OrdinateSet.changesAllowed": {"lean": "WKT.Flags.changesAllowed", "args": [], "ret": "bool"},
        "Geometry.hasZ": {"lean": "gHasZ", "kind": "param", "sig": "G → Bool", "args": [], "ret": "bool"},
        "Geometry.hasM": {"lean": "gHasM", "kind": "param", "sig": "G → Bool", "args": [], "ret": "bool"},
        "Geometry.isEmpty": {"lean": "gIsEmpty", "kind": "param", "sig": "G → Bool", "args": [], "ret": "bool"},
        "Geometry*.getPrecisionModel": {"lean": "getPrecisionModel", "kind": "param", "sig": "G → PM", "args": [], "ret": "PrecisionModel*"},
        "PrecisionModel*.getMaximumSignificantDigits": {"lean": "getMaximumSignificantDigits", "kind": "param", "sig": "PM → Int", "args": [], "ret": "int"},
        "CheckOrdinatesFilter.getFoundOrdinates": {"lean": "cofFound", "kind": "param", "sig": "COF → WKT.Flags", "args": [], "ret": "OrdinateSet"},
    },
    "mutators": {
        ".setZ": {"lean": "WKT.Flags.setZ", "args": ["bool"], "monadic": True},
        ".setM": {"lean": "WKT.Flags.setM", "args": ["bool"], "monadic": True},
        ".setChangesAllowed": {"lean": "WKT.Flags.setChangesAllowed", "args": ["bool"]},
        ".write": {"lean": "WKT.Writer.write", "args": ["std::string"]},
    },
    "arg_mutators": {
        ".apply_ro": {"lean": "applyRo", "kind": "param", "sig": "G → COF → COF", "args": ["CheckOrdinatesFilter"], "mutates": 0, "recv": "Geometry"},
        ".makePrecise": {"lean": "makePrecise", "kind": "param", "sig": "PM → WKT.XYZM D → WKT.XYZM D", "args": ["CoordinateXYZM"], "mutates": 0,
                         "recv": "PrecisionModel*"},
        "readOrdinateFlags": {"lean": "readOrdinateFlags", "kind": "param", "sig": "String → WKT.Flags → Except String WKT.Flags",
                              "args": ["std::string", "OrdinateSet"], "mutates": 1, "monadic": True},
    },
    "threaded": {
        "getNextWord": {"lean": "getNextWord", "kind": "param", "sig": "TS → Except String (String × TS)", "state": "tokenizer",
                        "args": ["StringTokenizer*"], "ret": "std::string"},
        "getNextNumber": {"lean": "getNextNumber", "kind": "param", "sig": "TS → Except String (D × TS)", "state": "tokenizer",
                          "args": ["StringTokenizer*"], "ret": "double"},
    },
    "calls": {
        "hasZ": {"lean": "hasZ", "kind": "generated", "args": [], "ret": "bool"},
        "hasM": {"lean": "hasM", "kind": "generated", "args": [], "ret": "bool"},
        "OrdinateSet::createXY": {"lean": "WKT.Flags.createXY", "kind": "def", "args": [], "ret": "OrdinateSet"},
        "cofNew": {"lean": "cofNew", "kind": "param", "sig": "WKT.Flags → COF", "args": ["OrdinateSet"], "ret": "CheckOrdinatesFilter"},
        "writeNumber": [
            {"lean": "writeNumber3", "kind": "param", "sig": "D → Bool → Nat → String", "args": ["double", "bool", "uint32_t"], "ret": "std::string"},
            {"lean": "writeNumber", "kind": "param", "sig": "D → String", "args": ["double"], "ret": "std::string"},
        ],
        "getScale": {"lean": "getScale", "kind": "param", "sig": "D", "args": [], "ret": "double"},
        "std::log": {"lean": "log", "kind": "param", "sig": "D → D", "args": ["double"], "ret": "double"},
        "std::ceil": {"lean": "ceil", "kind": "param", "sig": "D → D", "args": ["double"], "ret": "double"},
        "std::floor": {"lean": "floor", "kind": "param", "sig": "D → D", "args": ["double"], "ret": "double"},
        "floor": {"lean": "floor", "kind": "param", "sig": "D → D", "args": ["double"], "ret": "double"},
        "log10": {"lean": "log10", "kind": "param", "sig": "D → D", "args": ["double"], "ret": "double"},
        "std::fabs": {"lean": "fabs", "kind": "param", "sig": "D → D", "args": ["double"], "ret": "double"},
        "std::isfinite": {"lean": "isfinite", "kind": "param", "sig": "D → Bool", "args": ["double"], "ret": "bool"},
        "geos_d2sfixed_buffered_n": {"lean": "d2sfixed", "kind": "param", "sig": "D → Nat → Buf → S", "args": ["double", "uint32_t", "char*"], "ret": "OutLen"},
        "geos_d2sexp_buffered_n": {"lean": "d2sexp", "kind": "param", "sig": "D → Nat → Buf → S", "args": ["double", "uint32_t", "char*"], "ret": "OutLen"},
        "isNumberNext": {"lean": "isNumberNext", "kind": "param", "sig": "TS → Bool", "args": ["StringTokenizer*"], "ret": "bool"},
        "util::endsWith": [
            {"lean": "WKT.endsWithS", "kind": "def", "args": ["std::string", "std::string"], "ret": "bool"},
            {"lean": "WKT.endsWithC", "kind": "def", "args": ["std::string", "char"], "ret": "bool"},
        ],
    },
    "functions": [
        # ---- OrdinateSet.h
        {"file": OS, "class": "OrdinateSet", "name": "hasZ", "params": [], "ret": "bool", "lean": "hasZ", "fields": {"m_value": "Ordinates"}},
        {"file": OS, "class": "OrdinateSet", "name": "hasM", "params": [], "ret": "bool", "lean": "hasM", "fields": {"m_value": "Ordinates"}},
        {"file": OS, "class": "OrdinateSet", "name": "size", "params": [], "ret": "int", "lean": "size", "fields": {"m_value": "Ordinates"}},
        {"file": OS, "class": "OrdinateSet", "name": "setZ", "params": ["bool"], "ret": "void", "lean": "setZ", "monad": "except",
         "fields": {"m_changesAllowed": "bool"}, "state": {"m_value": "Ordinates"}},
        {"file": OS, "class": "OrdinateSet", "name": "setM", "params": ["bool"], "ret": "void", "lean": "setM", "monad": "except",
         "fields": {"m_changesAllowed": "bool"}, "state": {"m_value": "Ordinates"}},
        # ---- WKTWriter configuration
        {"file": WW, "name": "WKTWriter::setRoundingPrecision", "params": ["int"], "ret": "void", "lean": "setRoundingPrecision",
         "state": {"roundingPrecision": "int"}},
        {"file": WW, "name": "WKTWriter::setOutputDimension", "params": ["uint8_t"], "ret": "void", "lean": "setOutputDimension",
         "monad": "except", "state": {"defaultOutputDimension": "uint8_t"}},
        {"file": WW, "name": "WKTWriter::setTrim", "params": ["bool"], "ret": "void", "lean": "setTrim", "state": {"trim": "bool"}},
        {"file": WH, "class": "WKTWriter", "name": "setOld3D", "params": ["bool"], "ret": "void", "lean": "setOld3D", "state": {"old3D": "bool"}},
        # ---- decimal places
        {"file": WW, "name": "WKTWriter::writeFormatted", "params": ["const Geometry*", "bool", "Writer*"], "ret": "void",
         "lean": "writeFormatted_decimalPlaces", "fields": {"roundingPrecision": "int"}, "state": {"decimalPlaces": "int"},
         "region": {"from": "decimalPlaces =", "until": "appendGeometryTaggedText (", "outputs": []},
         "uses": ["getMaximumSignificantDigits", "getPrecisionModel"]},
        {"file": WW, "name": "WKTWriter::writeNumber", "params": ["double"], "ret": "std::string", "lean": "writeNumber1",
         "fields": {"decimalPlaces": "int", "trim": "bool"}, "int_to_nat_ok": True, "uses": ["writeNumber3"]},
        {"file": PM, "name": "PrecisionModel::getMaximumSignificantDigits", "params": [], "ret": "int", "lean": "getMaximumSignificantDigits",
         "fields": {"modelType": "Type"}, "uses": ["dOfInt", "dlt", "ddiv", "dlit", "dtoInt", "log", "getScale", "ceil", "floor"]},
        # ---- output ordinates and their text
        {"file": WW, "name": "WKTWriter::appendGeometryTaggedText", "params": ["const Geometry&", "OrdinateSet", "int", "Writer&"], "ret": "OrdinateSet",
         "lean": "appendGeometryTaggedText_ordinates", "monad": "except",
         "fields": {"whileFuel": "std::size_t", "removeEmptyDimensions": "bool", "defaultOutputDimension": "int"},
         "region": {"from": "OrdinateSet outputOrdinates =", "until": "indent ( level , & writer ) ;", "outputs": ["outputOrdinates"]},
         "uses": ["gIsEmpty", "gHasZ", "gHasM", "cofNew", "applyRo", "cofFound"]},
        {"file": WW, "name": "WKTWriter::appendOrdinateText", "params": ["OrdinateSet", "Writer&"], "ret": "void", "lean": "appendOrdinateText",
         "fields": {"old3D": "bool"}, "state": {"writer": "Writer"}, "inout": {"writer": "Writer"}},
        {"file": WW, "name": "WKTWriter::appendCoordinate", "params": ["const CoordinateXYZM&", "OrdinateSet", "Writer&"], "ret": "void",
         "lean": "appendCoordinate", "state": {"writer": "Writer"}, "inout": {"writer": "Writer"}, "uses": ["writeNumber"]},
        # ---- which formatting a double gets
        {"file": WW, "name": "WKTWriter::writeTrimmedNumber", "params": ["double", "uint32_t", "char*"], "ret": "OutLen", "lean": "writeTrimmedNumber",
         "uses": ["fabs", "isfinite", "deq", "dlit", "dle", "dlt", "dneg", "dtoU32", "floor", "log10", "d2sfixed", "d2sexp"]},
        # ---- WKTReader
        {"file": WR, "name": "WKTReader::isTypeName", "params": ["const std::string &", "const std::string &"], "ret": "bool", "lean": "isTypeName"},
        {"file": WR, "name": "WKTReader::readOrdinateFlags", "params": ["const std::string &", "OrdinateSet&"], "ret": "void",
         "lean": "readOrdinateFlags", "monad": "except", "state": {"ordinateFlags": "OrdinateSet"}, "inout": {"ordinateFlags": "OrdinateSet"}},
        {"file": WR, "name": "WKTReader::getNextEmptyOrOpener", "params": ["StringTokenizer*", "OrdinateSet&"], "ret": "std::string",
         "lean": "getNextEmptyOrOpener", "monad": "except",
         "state": {"tokenizer": "StringTokenizer*", "ordinateFlags": "OrdinateSet"},
         "inout": {"tokenizer": "StringTokenizer*", "ordinateFlags": "OrdinateSet"}, "uses": ["getNextWord"]},
        {"file": WR, "name": "WKTReader::getPreciseCoordinate", "params": ["StringTokenizer*", "OrdinateSet&", "CoordinateXYZM&"], "ret": "void",
         "lean": "getPreciseCoordinate", "monad": "except", "fields": {"precisionModel": "PrecisionModel*"},
         "state": {"tokenizer": "StringTokenizer*", "ordinateFlags": "OrdinateSet", "coord": "CoordinateXYZM"},
         "inout": {"tokenizer": "StringTokenizer*", "ordinateFlags": "OrdinateSet", "coord": "CoordinateXYZM"},
         "uses": ["getNextNumber", "isNumberNext", "makePrecise"]},
        {"file": WR, "name": "WKTReader::readGeometryTaggedText", "params": ["StringTokenizer*", "OrdinateSet&", "const GeometryTypeId*"],
         "ret": "FlagsPair", "lean": "readGeometryTaggedText_flags", "monad": "except",
         "fields": {"type": "std::string"},
         "region": {"from": "OrdinateSet origFlags =", "until": "if ( isTypeName ( type , \"POINT\" ) )", "outputs": ["origFlags", "newFlags"]},
         "uses": ["readOrdinateFlags"]},
        {"file": WR, "name": "WKTReader::readGeometryTaggedText", "params": ["StringTokenizer*", "OrdinateSet&", "const GeometryTypeId*"],
         "ret": "void", "lean": "readGeometryTaggedText_mixCheck", "monad": "except",
         "fields": {"origFlags": "OrdinateSet", "newFlags": "OrdinateSet"},
         "region": {"after": "throw ParseException ( \"Unknown type\" , type ) ; }", "until": "return geom ;", "outputs": []}},
    ],
}
