"""C19 — the arithmetic of geos::linearref (Model/LinRef/Map.lean, Project.lean are the hand-written models):
LinearLocation (normalize, compareTo, compareLocationValues, isVertex, pointAlongSegmentByFraction), LengthIndexedLine
(positiveIndex, clampIndex), LengthLocationMap (getLocation, getLocationForward, getLength), LengthIndexOfPoint
(segmentNearestMeasure, indexOfFromStart), and the coordinate arithmetic they rest on (CoordinateXY::equals2D / distance,
Distance::pointToSegment, LineSegment::projectionFactor / segmentFraction / distance / getLength).

`std::sqrt` is an abstract parameter `sqrt : R → R` (as in the hand-written model), so the regenerated code can be
instantiated with exact rationals."""
import os, re, sys
import sys
_main = sys.modules.get("__main__")
if getattr(_main, "__file__", "").endswith("cxx2lean.py"):      # run as `python3 cxx2lean.py <spec>`: share the one module (Refuse!)
    sys.modules.setdefault("cxx2lean", _main)
import cxx2lean as C
sys.path.insert(0, os.path.dirname(os.path.abspath(__file__)))
import t6_ext


def squash(s):
    return re.sub(r"\s+", "", s)


def prepare(spec, repo):
    # the 3-argument constructor of LinearLocation is member initialisation followed by normalize(): the translated
    # `normalize` + the glue `LinearLocation3` of the preamble describe it only if the source still reads like this
    src = C.read_source(repo, "src/linearref/LinearLocation.cpp")
    m = re.search(r"LinearLocation::LinearLocation\s*\(\s*std::size_t\s+p_componentIndex\s*,\s*std::size_t\s+p_segmentIndex\s*,\s*double\s+p_segmentFraction\s*\)(.*?)\}", src, re.S)
    want = ":componentIndex(p_componentIndex),segmentIndex(p_segmentIndex),segmentFraction(p_segmentFraction){normalize();"
    if not m or squash(m.group(1)) != want:
        raise C.Refuse("LinearLocation(size_t, size_t, double) is no longer `members := arguments; normalize();` (found: %s)"
                       % (squash(m.group(1)) if m else "nothing"))
    # the default constructor is (0, 0, 0.0)
    hdr = C.read_source(repo, "include/geos/linearref/LinearLocation.h")
    m = re.search(r"LinearLocation\s*\(\s*std::size_t\s+segmentIndex\s*=\s*0\s*,\s*double\s+segmentFraction\s*=\s*0\.0\s*\)", hdr)
    m2 = re.search(r"LinearLocation::LinearLocation\s*\(\s*std::size_t\s+p_segmentIndex\s*,\s*double\s+p_segmentFraction\s*\)(.*?)\}", src, re.S)
    want2 = ":componentIndex(0),segmentIndex(p_segmentIndex),segmentFraction(p_segmentFraction){"
    if not m or not m2 or squash(m2.group(1)) != want2:
        raise C.Refuse("LinearLocation() is no longer (component 0, segment 0, fraction 0.0) without normalisation")
    # getStartIndex() is the literal 0.0 — translated; DoubleInfinity is +inf
    v = C.find_constant(repo, "include/geos/constants.h", r"constexpr\s+double\s+DoubleInfinity\s*=\s*([^;]+?)\s*;")
    if squash(v) not in ("(std::numeric_limits<double>::infinity)()", "std::numeric_limits<double>::infinity()"):
        raise C.Refuse("DoubleInfinity is `%s`; the model of indexOfFromStart assumes +infinity" % v)


XY = "CoordinateXY"
LL_FIELDS = {"componentIndex": "std::size_t", "segmentIndex": "std::size_t", "segmentFraction": "double"}

PREAMBLE = """/-- `geom::Coordinate` (x, y, z) as regenerated code sees it -/
structure XYZ (R : Type) where
  x : R
  y : R
  z : R

def XYZ.xy {R : Type} (p : XYZ R) : Cxx.XY R := ⟨p.x, p.y⟩

/-- `geom::LineSegment` (the two end points; only x and y are read by the translated functions) -/
structure Seg (R : Type) where
  p0 : Cxx.XY R
  p1 : Cxx.XY R

/-- one position of `LinearIterator`: component index, vertex index, `isEndOfLine()`, `getSegmentStart()`, `getSegmentEnd()` -/
structure ItPos (R : Type) where
  c : Nat
  v : Nat
  eol : Bool
  p0 : XYZ R
  p1 : XYZ R"""

SPEC = t6_ext.install({
    "id": "linref",
    "namespace": "GeosModel.Generated.LinRefGen",
    "imports": ["GeosModel.Model.LinRef.Map"],
    "prepare": prepare,
    "preamble": PREAMBLE,
    "also_reads": ["include/geos/linearref/LinearLocation.h", "include/geos/constants.h"],
    "type_params": ["G"],
    "types": {
        XY: {"lean": "Cxx.XY R", "fields": {"x": "double", "y": "double"},
             "eq": {"lean": "equals2D", "kind": "generated", "fmt": "({fn} {0}.x {0}.y {1})"}},
        "Coordinate": {"lean": "XYZ R", "fields": {"x": "double", "y": "double", "z": "double"}, "upcast": {XY: "{0}.xy"}},
        "LineSegment": {"lean": "Seg R", "fields": {"p0": XY, "p1": XY},
                        # `LineSegment seg;` — both end points (0, 0); every translated use assigns p0 and p1 first
                        "default": "(Seg.mk ⟨Cxx.Ring.ofInt 0, Cxx.Ring.ofInt 0⟩ ⟨Cxx.Ring.ofInt 0, Cxx.Ring.ofInt 0⟩)", "addr_of": True},
        "LineSegment*": {"alias": "LineSegment"},
        "LinearLocation": {"lean": "LinRef.Loc R",
                           "fields": {"componentIndex": {"type": "std::size_t", "lean": "comp"},
                                      "segmentIndex": {"type": "std::size_t", "lean": "seg"},
                                      "segmentFraction": {"type": "double", "lean": "frac"}}},
        "Geometry*": {"lean": "G", "opaque": True},
        "LinearIterator": {"iterator": {"over": "Geometry*", "elem": "LinearIterator::pos", "items": "positions",
                                        "items_param": {"lean": "positions", "kind": "param", "sig": "G → List (ItPos R)"}}},
        "LinearIterator::pos": {"lean": "ItPos R", "fields": {}},
    },
    "calls": {
        "std::sqrt": {"lean": "sqrt", "kind": "param", "sig": "R → R", "args": ["double"], "ret": "double"},
        "pointToSegment": {"lean": "pointToSegment", "kind": "generated", "args": [XY, XY, XY], "ret": "double"},
        "projectionFactor": {"lean": "projectionFactor", "kind": "generated", "args": [XY], "ret": "double"},
        "Coordinate": {"lean": "XYZ.mk", "args": ["double"] * 3, "ret": "Coordinate"},
        "positiveIndex": {"lean": "positiveIndex", "kind": "generated", "args": ["double"], "ret": "double"},
        "getStartIndex": {"lean": "getStartIndex", "kind": "generated", "args": [], "ret": "double"},
        "getEndIndex": {"lean": "getEndIndex", "kind": "generated", "args": [], "ret": "double"},
        "getLocationForward": {"lean": "getLocationForward", "kind": "param", "sig": "R → LinRef.Loc R", "args": ["double"], "ret": "LinearLocation"},
        "LinearLocation": [
            {"lean": "LinRef.Loc.mk", "args": [], "ret": "LinearLocation", "fmt": "(LinRef.Loc.mk 0 0 (Cxx.Ring.ofInt 0 : R))", "class": "Ring"},
            {"lean": "normalize", "kind": "generated", "args": ["std::size_t", "std::size_t", "double"], "ret": "LinearLocation",
             "fmt": "(LinRef.Loc.mk {0} ({fn} {1} {2}).1 ({fn} {1} {2}).2)"}],
        "getEndLocation": {"lean": "endLocation", "kind": "param", "sig": "G → LinRef.Loc R", "args": ["Geometry*"], "ret": "LinearLocation"},
        "segmentNearestMeasure": {"lean": "segmentNearestMeasure", "kind": "generated", "args": ["LineSegment*", "Coordinate", "double"], "ret": "double"},
        "resolveHigher": {"lean": "resolveHigher", "kind": "param", "sig": "LinRef.Loc R → LinRef.Loc R", "args": ["LinearLocation"], "ret": "LinearLocation"},
    },
    "methods": {
        XY + ".distance": {"lean": "ptDistance", "kind": "generated", "args": [XY], "ret": "double", "fmt": "({fn} {0}.x {0}.y {1})"},
        "LineSegment.projectionFactor": {"lean": "projectionFactor", "kind": "generated", "args": [XY], "ret": "double",
                                         "fmt": "({fn} {0}.p0 {0}.p1 {1})"},
        "LineSegment.getLength": {"lean": "lsLength", "kind": "generated", "args": [], "ret": "double", "fmt": "({fn} {0}.p0 {0}.p1)"},
        "Coordinate.distance": {"lean": "ptDistance", "kind": "generated", "args": [XY], "ret": "double", "fmt": "({fn} {0}.x {0}.y {1})"},
        "LineSegment.distance": {"lean": "lsDistance", "kind": "generated", "args": [XY], "ret": "double", "fmt": "({fn} {0}.p0 {0}.p1 {1})"},
        "LinearIterator::pos.isEndOfLine": {"lean": "ItPos.eol", "args": [], "ret": "bool", "fmt": "{0}.eol"},
        "LinearIterator::pos.getComponentIndex": {"lean": "ItPos.c", "args": [], "ret": "std::size_t", "fmt": "{0}.c"},
        "LinearIterator::pos.getVertexIndex": {"lean": "ItPos.v", "args": [], "ret": "std::size_t", "fmt": "{0}.v"},
        "LinearIterator::pos.getSegmentStart": {"lean": "ItPos.p0", "args": [], "ret": "Coordinate", "fmt": "{0}.p0"},
        "LinearIterator::pos.getSegmentEnd": {"lean": "ItPos.p1", "args": [], "ret": "Coordinate", "fmt": "{0}.p1"},
        "LinearLocation.getComponentIndex": {"lean": "getComponentIndex", "kind": "generated", "args": [], "ret": "std::size_t", "fmt": "({fn} {0}.comp)"},
        "LinearLocation.getSegmentIndex": {"lean": "getSegmentIndex", "kind": "generated", "args": [], "ret": "std::size_t", "fmt": "({fn} {0}.seg)"},
        "LinearLocation.getSegmentFraction": {"lean": "getSegmentFraction", "kind": "generated", "args": [], "ret": "double", "fmt": "({fn} {0}.frac)"},
        "Geometry*.getLength": {"lean": "geomLength", "kind": "param", "sig": "G → R", "args": [], "ret": "double"},
    },
    "functions": [
        {"file": "include/geos/geom/Coordinate.h", "name": "equals2D", "params": ["const CoordinateXY&"], "ret": "bool", "lean": "equals2D",
         "fields": {"x": "double", "y": "double"}},
        {"file": "include/geos/geom/Coordinate.h", "name": "distance", "params": ["const CoordinateXY&"], "ret": "double", "lean": "ptDistance",
         "fields": {"x": "double", "y": "double"}},
        {"file": "src/algorithm/Distance.cpp", "name": "Distance::pointToSegment", "params": ["const geom::CoordinateXY&"] * 3, "ret": "double",
         "lean": "pointToSegment"},
        {"file": "src/geom/LineSegment.cpp", "name": "LineSegment::projectionFactor", "params": ["const CoordinateXY&"], "ret": "double",
         "lean": "projectionFactor", "fields": {"p0": XY, "p1": XY}},
        {"file": "src/geom/LineSegment.cpp", "name": "LineSegment::segmentFraction", "params": ["const CoordinateXY&"], "ret": "double",
         "lean": "segmentFraction", "fields": {"p0": XY, "p1": XY}},
        {"file": "include/geos/geom/LineSegment.h", "name": "distance", "params": ["const CoordinateXY&"], "ret": "double", "lean": "lsDistance",
         "fields": {"p0": XY, "p1": XY}},
        {"file": "include/geos/geom/LineSegment.h", "name": "getLength", "params": [], "ret": "double", "lean": "lsLength",
         "fields": {"p0": XY, "p1": XY}},
        {"file": "src/linearref/LengthIndexOfPoint.cpp", "name": "LengthIndexOfPoint::segmentNearestMeasure",
         "params": ["const LineSegment*", "const Coordinate&", "double"], "ret": "double", "lean": "segmentNearestMeasure"},
        {"file": "src/linearref/LinearLocation.cpp", "name": "LinearLocation::pointAlongSegmentByFraction",
         "params": ["const Coordinate&", "const Coordinate&", "double"], "ret": "Coordinate", "lean": "pointAlongSegmentByFraction"},
        {"file": "src/linearref/LinearLocation.cpp", "name": "LinearLocation::normalize", "params": [], "ret": "void", "lean": "normalize",
         "state": {"segmentIndex": "std::size_t", "segmentFraction": "double"}},
        {"file": "src/linearref/LinearLocation.cpp", "name": "LinearLocation::isVertex", "params": [], "ret": "bool", "lean": "isVertex",
         "fields": {"segmentFraction": "double"}},
        {"file": "src/linearref/LinearLocation.cpp", "name": "LinearLocation::compareTo", "params": ["const LinearLocation&"], "ret": "int",
         "lean": "compareTo", "fields": LL_FIELDS},
        {"file": "src/linearref/LinearLocation.cpp", "name": "LinearLocation::compareLocationValues",
         "params": ["std::size_t", "std::size_t", "double"], "ret": "int", "lean": "compareLocationValues", "fields": LL_FIELDS},
        {"file": "src/linearref/LengthIndexedLine.cpp", "name": "LengthIndexedLine::getStartIndex", "params": [], "ret": "double",
         "lean": "getStartIndex"},
        {"file": "src/linearref/LengthIndexedLine.cpp", "name": "LengthIndexedLine::getEndIndex", "params": [], "ret": "double",
         "lean": "getEndIndex", "fields": {"linearGeom": "Geometry*"}},
        {"file": "src/linearref/LengthIndexedLine.cpp", "name": "LengthIndexedLine::positiveIndex", "params": ["double"], "ret": "double",
         "lean": "positiveIndex", "fields": {"linearGeom": "Geometry*"}},
        {"file": "src/linearref/LengthIndexedLine.cpp", "name": "LengthIndexedLine::clampIndex", "params": ["double"], "ret": "double",
         "lean": "clampIndex", "fields": {"linearGeom": "Geometry*"}},
        {"file": "src/linearref/LinearLocation.cpp", "name": "LinearLocation::getComponentIndex", "params": [], "ret": "std::size_t",
         "lean": "getComponentIndex", "fields": {"componentIndex": "std::size_t"}},
        {"file": "src/linearref/LinearLocation.cpp", "name": "LinearLocation::getSegmentIndex", "params": [], "ret": "std::size_t",
         "lean": "getSegmentIndex", "fields": {"segmentIndex": "std::size_t"}},
        {"file": "src/linearref/LinearLocation.cpp", "name": "LinearLocation::getSegmentFraction", "params": [], "ret": "double",
         "lean": "getSegmentFraction", "fields": {"segmentFraction": "double"}},
        {"file": "src/linearref/LengthLocationMap.cpp", "name": "LengthLocationMap::getLocationForward", "params": ["double"],
         "ret": "LinearLocation", "lean": "getLocationForward", "fields": {"linearGeom": "Geometry*"}},
        {"file": "src/linearref/LengthLocationMap.cpp", "name": "LengthLocationMap::getLength", "params": ["const LinearLocation&"],
         "ret": "double", "lean": "getLength", "fields": {"linearGeom": "Geometry*"}},
        {"file": "src/linearref/LengthIndexOfPoint.cpp", "name": "LengthIndexOfPoint::indexOfFromStart", "params": ["const Coordinate&", "double"],
         "ret": "double", "lean": "indexOfFromStart", "fields": {"linearGeom": "Geometry*", "DoubleInfinity": "double"}},
        {"file": "src/linearref/LengthLocationMap.cpp", "name": "LengthLocationMap::getLocation", "params": ["double"], "ret": "LinearLocation",
         "lean": "getLocation", "fields": {"linearGeom": "Geometry*"}},
        {"file": "src/linearref/LengthLocationMap.cpp", "name": "LengthLocationMap::getLocation", "params": ["double", "bool"],
         "ret": "LinearLocation", "lean": "getLocationR", "fields": {"linearGeom": "Geometry*"}},
    ],
})
