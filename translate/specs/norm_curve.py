"""C20 — SimpleCurve (LineString / LinearRing) in normalisation (Model/Norm/Normalize.lean is the hand-written model):
isEmpty, isClosed, compareToSameClass (→ `cmpSeq`) and normalize (→ `normLinePts`: closed curves go to normalizeClosed, open
ones are reversed when the first differing pair of mirrored points compares greater).

`std::size_t j = npts - 1 - i` is translated with truncating subtraction (`nat_sub_ok`): the loop runs for `i < npts / 2`, so
`npts - 1 - i` never wraps.  `util::ensureNoCurvedComponents(*this)` (throws for curved types, modelled by `unsupported`) and
`assert` are skipped."""
import os, sys
import sys
_main = sys.modules.get("__main__")
if getattr(_main, "__file__", "").endswith("cxx2lean.py"):      # run as `python3 cxx2lean.py <spec>`: share the one module (Refuse!)
    sys.modules.setdefault("cxx2lean", _main)
import cxx2lean as C
sys.path.insert(0, os.path.dirname(os.path.abspath(__file__)))
import t6_ext

XY = "CoordinateXY"
ZERO = "⟨Cxx.Ring.ofInt 0, Cxx.Ring.ofInt 0⟩"
SEQ = "CoordinateSequence*"

PREAMBLE = """/-- a `SimpleCurve` as the translated functions see it: its coordinate sequence -/
structure Curve (R : Type) where
  points : List (Cxx.XY R)"""

SPEC = t6_ext.install({
    "id": "norm_curve",
    "namespace": "GeosModel.Generated.NormCurve",
    "imports": [],
    "preamble": PREAMBLE,
    "strip_template_args": ["getAt", "front", "back"],
    "ignore_statements": ["assert", "util::ensureNoCurvedComponents"],
    "types": {
        XY: {"lean": "Cxx.XY R", "fields": {"x": "double", "y": "double"},
             "eq": {"lean": "equals2D", "kind": "generated", "fmt": "({fn} {0}.x {0}.y {1})"}},
        SEQ: {"lean": "List (Cxx.XY R)", "list": XY},
        "Geometry*": {"lean": "Curve R", "fields": {}, "downcast": {"SimpleCurve*": "{0}"}},
        "SimpleCurve*": {"lean": "Curve R", "fields": {"points": SEQ}},
    },
    "calls": {
        "isEmpty": {"lean": "isEmpty", "kind": "generated", "args": [], "ret": "bool"},
        "isClosed": {"lean": "isClosed", "kind": "generated", "args": [], "ret": "bool"},
        "normalizeClosed": {"lean": "normalizeClosed", "kind": "param", "sig": "List (Cxx.XY R) → List (Cxx.XY R)", "args": [], "ret": "void",
                            "updates": ["points"]},
    },
    "methods": {
        SEQ + ".isEmpty": {"lean": "List.isEmpty", "args": [], "ret": "bool", "fmt": "{0}.isEmpty"},
        SEQ + ".getSize": {"lean": "List.length", "args": [], "ret": "std::size_t", "fmt": "{0}.length"},
        SEQ + ".getAt": {"lean": "List.getD", "args": ["std::size_t"], "ret": XY, "fmt": "({0}.getD {1} " + ZERO + ")", "class": "Ring"},
        SEQ + ".front": {"lean": "List.headD", "args": [], "ret": XY, "fmt": "({0}.headD " + ZERO + ")", "class": "Ring"},
        SEQ + ".back": {"lean": "List.getLastD", "args": [], "ret": XY, "fmt": "({0}.getLastD " + ZERO + ")", "class": "Ring"},
        SEQ + ".reverse": {"lean": "List.reverse", "args": [], "ret": "void", "updates": ["points"], "no_recv": True},
        XY + ".equals2D": {"lean": "equals2D", "kind": "generated", "args": [XY], "ret": "bool", "fmt": "({fn} {0}.x {0}.y {1})"},
        XY + ".compareTo": {"lean": "compareToXY", "kind": "generated", "args": [XY], "ret": "int", "fmt": "({fn} {0}.x {0}.y {1})"},
    },
    "functions": [
        {"file": "include/geos/geom/Coordinate.h", "name": "equals2D", "params": ["const CoordinateXY&"], "ret": "bool", "lean": "equals2D",
         "fields": {"x": "double", "y": "double"}},
        {"file": "include/geos/geom/Coordinate.h", "name": "compareTo", "params": ["const CoordinateXY&"], "ret": "int", "lean": "compareToXY",
         "fields": {"x": "double", "y": "double"}},
        {"file": "src/geom/SimpleCurve.cpp", "name": "SimpleCurve::isEmpty", "params": [], "ret": "bool", "lean": "isEmpty",
         "fields": {"points": SEQ}},
        {"file": "src/geom/SimpleCurve.cpp", "name": "SimpleCurve::isClosed", "params": [], "ret": "bool", "lean": "isClosed",
         "fields": {"points": SEQ}},
        {"file": "src/geom/SimpleCurve.cpp", "name": "SimpleCurve::compareToSameClass", "params": ["const Geometry*"], "ret": "int",
         "lean": "compareToSameClass", "fields": {"points": SEQ}},
        {"file": "src/geom/SimpleCurve.cpp", "name": "SimpleCurve::normalize", "params": [], "ret": "void", "lean": "normalize",
         "state": {"points": SEQ}, "nat_sub_ok": True},
    ],
})
