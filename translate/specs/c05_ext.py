"""translate/specs/c05_ext.py — extensions of the cxx2lean fragment used by the C05 specs (`node_topology`, `valid_pair_rule`,
`valid_ring_nested`, `valid_rule_order`).  NOT a spec itself: the specs set `SPEC["parser_class"] = c05_ext.VParser`.

Like the base translator every extension either recognises the exact syntax named here or raises `Refuse`; nothing is guessed.

pointers to values   a configured struct type `T*` with `"pointee": "T"` (both mapped to the SAME Lean type): declarations
                     `const T* p = e;`, assignment `p = q;`, `*p` (the pointee), `&x` / `&(e)` of an expression of type `T`
                     (the pointer), `p->field`.  The translated functions never compare such pointers or do arithmetic on them
                     (both are refused: there is no comparison on struct types and no arithmetic), so the pointer is
                     represented by the value it points to.  Types with `"nullable": True` additionally accept `nullptr`
                     (as `none`), `p == nullptr` / `p != nullptr` (`Option.isNone` / `Option.isSome`), and a value of the
                     pointee type assigned to them is wrapped with `some`; `*p` on a nullable pointer is refused unless the
                     spec gives `"deref": "<lean fn>"`.
opaque pointers      `T* x = e;` for configured opaque types; `a == b` / `a != b` on opaque types with `"eq": <lean fn>` (an
                     abstract parameter registered through `calls`).
template arguments   `name<Type>(…)` for names listed in `spec["strip_template_args"]`: the explicit template argument is dropped.
Except calls         a call of another function of the spec that is declared `monad: except` is emitted as `(← f …)` (the
                     caller must be `monad: except` too); refused in the right operand of `&&` / `||` and in the arms of `?:`
                     (C++ evaluates those conditionally, `←` would hoist them).
message streams      `std::ostringstream s;` and `s << … ;` (building the text of an exception; the translator drops messages)
                     are skipped after checking that the statement has no assignment, increment or call other than `.str()`.
abstract procedures  statement calls `f(args);` / `obj.m(args);` of a descriptor with `"updates": [state members]` and kind `param`:
                     `members := f members… args…` (the Lean function takes the current values of the members first and
                     returns their new values; one member: the value itself, several: a tuple).  With `"ret"` other than
                     void the call is an expression statement form `T x = f(args);`, returning `(value, members…)`.
object declarations  `T obj(args);` for a configured type with `"ctor": <call name>`: `let obj := ctor args`.
while loops          `while (c) S` in functions with a declared read-only member/parameter named by `f["while_fuel"]`
                     (a Lean expression of type Nat over the function's binders): emitted as a `for` loop over
                     `[0:fuel]` that `break`s when `c` is false.  If the loop is still running after `fuel` iterations the
                     generated function (which must be `monad: except`) throws "while: out of fuel" — so whenever the
                     result is `ok v` the C++ loop terminates and yields `v`.
"""
import os, re, sys

_main = sys.modules.get("__main__")
if "cxx2lean" not in sys.modules and getattr(_main, "translate_function", None) is not None and \
        os.path.basename(getattr(_main, "__file__", "") or "") == "cxx2lean.py":
    sys.modules["cxx2lean"] = _main
import cxx2lean as C

T, INT, NAT, DBL, BOOL, VOID = C.T, C.INT, C.NAT, C.DBL, C.BOOL, C.VOID
NULL = T("null")


def strip_debug_blocks(rel, src, allowed=r"^std::cerr\s*<<[^;{}]*;$"):
    """remove `#if GEOS_DEBUG … #endif` blocks after checking that they only write to std::cerr"""
    out, skipping = [], False
    for line in src.split("\n"):
        s = line.strip()
        if not skipping and re.match(r"^#\s*if\s+GEOS_DEBUG\s*$", s):
            skipping = True
            continue
        if skipping:
            if re.match(r"^#\s*endif\b", s):
                skipping = False
                continue
            if s.startswith("#"):
                raise C.Refuse("nested preprocessor directive inside `#if GEOS_DEBUG` of %s" % rel)
            if s and not re.match(allowed, re.sub(r'"(?:\\.|[^"\\])*"', '""', s)):
                raise C.Refuse("`#if GEOS_DEBUG` block of %s contains more than std::cerr output: `%s`" % (rel, s))
            continue
        out.append(line)
    if skipping:
        raise C.Refuse("unterminated `#if GEOS_DEBUG` in %s" % rel)
    return "\n".join(out)


class VParser(C.Parser):
    def __init__(self, spec, f, repo, toks, params):
        toks = self._strip_templates(spec, toks)
        C.Parser.__init__(self, spec, f, repo, toks, params)
        self.msg_streams = set()
        self.effect = False            # the expression parsed last contains a `(← …)`

    # ------------------------------------------------------------------ tokens
    @staticmethod
    def _strip_templates(spec, toks):
        names = set(spec.get("strip_template_args", ()))
        if not names:
            return toks
        out, i = [], 0
        while i < len(toks):
            k, v = toks[i]
            out.append((k, v))
            if k == "id" and v.split("::")[-1] in names and i + 1 < len(toks) and toks[i + 1] == ("op", "<"):
                # name < Type > (   — a single type name only
                if i + 4 < len(toks) and toks[i + 2][0] == "id" and toks[i + 3] == ("op", ">") and toks[i + 4] == ("op", "("):
                    i += 4
                    continue
                raise C.Refuse("%s<…>: explicit template arguments other than one type name" % v)
            i += 1
        return out

    # ------------------------------------------------------------------ types
    def tdict(self, t):
        return self.spec.get("types", {}).get(t.name, {}) if t.name else {}

    def pointee(self, t):
        d = self.tdict(t)
        return self.ctype(d["pointee"]) if "pointee" in d else None

    def pointer_to(self, t):
        for tn, d in self.spec.get("types", {}).items():
            if d.get("pointee") and C.norm_type(d["pointee"]) == t.name and not d.get("nullable"):
                return T("struct", tn)
        return None

    def nullable(self, t):
        return bool(self.tdict(t).get("nullable"))

    def is_type_start(self):
        # `[const] T * name` where only `T*` is a configured type
        j = self.p
        while j < len(self.t) and self.t[j][1] in ("const", "static", "constexpr"):
            j += 1
        if j + 2 < len(self.t) and self.t[j][0] == "id" and self.t[j + 1] == ("op", "*") and C.norm_type(self.t[j][1]) + "*" in self.spec.get("types", {}):
            j2 = j + 2
            while j2 < len(self.t) and self.t[j2][1] == "const":
                j2 += 1
            return j2 < len(self.t) and self.t[j2][0] == "id"
        return C.Parser.is_type_start(self)

    def parse_type(self):
        """as the base class, but `T*` is accepted when `T*` is a configured type"""
        words = []
        while self.peek()[1] in ("const", "static", "constexpr"):
            self.eat()
        while self.peek()[0] == "id" and self.peek()[1] in ("unsigned", "signed", "long", "short"):
            words.append(self.eat())
        k, v = self.peek()
        nt = C.norm_type(v) if k == "id" else None
        if k == "id" and (not words or nt in ("int", "char", "long")):
            words.append(self.eat())
        elif not words:
            raise self.R("type expected, found `%s`" % v)
        base = " ".join(words)
        while self.peek()[1] in ("&", "*", "const"):
            if self.peek()[1] == "*":
                cand = C.norm_type(base) + "*"
                if cand not in self.spec.get("types", {}):
                    raise self.R("pointer declaration `%s*`: the type is not configured in the spec" % base)
                base = cand
            self.eat()
        return base

    def lean_type(self, t):
        if t.kind == "null":
            raise self.R("`nullptr` where its type cannot be determined")
        return C.Parser.lean_type(self, t)

    # ------------------------------------------------------------------ coercions
    def coerce(self, e, t, to, what="operand"):
        if t == to:
            return e
        if t.kind == "null":
            if self.nullable(to):
                return "none"
            raise self.R("`nullptr` converted to %r, which is not configured nullable (%s)" % (to, what))
        if self.nullable(to) and t.kind == "struct":
            pe = self.pointee(to)
            if pe == t or (self.pointee(t) == pe and not self.nullable(t)):
                return "(some %s)" % e
        if t.kind == "struct" and to.kind == "struct" and to.name in self.tdict(t).get("upcast", ()):
            if self.tdict(t).get("lean") != self.tdict(to).get("lean"):
                raise self.R("upcast %s -> %s between types with different Lean carriers" % (t.name, to.name))
            return e
        if t.kind == "int" and to.kind == "nat":
            m = re.match(r"^\((\d+) : Int\)$", e)
            if m:                                   # a non-negative integer literal converts to unsigned without changing its value
                return "(%s : Nat)" % m.group(1)
            m = re.match(r"^\(if (.*) then \((\d+) : Int\) else \((\d+) : Int\)\)$", e)
            if m:                                   # `c ? a : b` with non-negative integer literal arms
                return "(if %s then (%s : Nat) else (%s : Nat))" % (m.group(1), m.group(2), m.group(3))
        # T* <-> T never converts implicitly; two pointer types with the same pointee and nullability are the same type name
        return C.Parser.coerce(self, e, t, to, what)

    def compare(self, op, a, b):
        if op in ("==", "!="):
            for x, y in ((a, b), (b, a)):
                if y[1].kind == "null":
                    if not self.nullable(x[1]):
                        raise self.R("comparison of a %r with nullptr (type not configured nullable)" % x[1])
                    return "(Option.%s %s)" % ("isNone" if op == "==" else "isSome", x[0]), BOOL
            if a[1] == b[1] and a[1].kind == "struct" and self.tdict(a[1]).get("eq"):
                d = self.spec["calls"][self.tdict(a[1])["eq"]]
                txt, _ = self.apply_param(d, [a, b], "operator== on " + a[1].name)
                return (txt if op == "==" else "(!%s)" % txt), BOOL
        return C.Parser.compare(self, op, a, b)

    def truth(self, e, t):
        if t.kind == "struct" and self.nullable(t):
            return "(Option.isSome %s)" % e
        if t.kind == "struct" and self.tdict(t).get("truth"):
            txt, _ = self.apply_param(self.spec["calls"][self.tdict(t)["truth"]], [(e, t)], "conversion of a %s to bool" % t.name)
            return txt
        return C.Parser.truth(self, e, t)

    def cast(self, e, ty):
        if e[1].kind == "struct" and ty.kind == "struct" and e[1] != ty:
            a, b = self.tdict(e[1]), self.tdict(ty)
            if a.get("opaque") and b.get("opaque") and a.get("lean") == b.get("lean") and (e[1].name in b.get("upcast", ()) or ty.name in a.get("upcast", ())):
                return e[0], ty             # static_cast along the class hierarchy; both types share one Lean carrier
            raise self.R("static_cast %r -> %r" % (e[1], ty))
        return C.Parser.cast(self, e, ty)

    # ------------------------------------------------------------------ expressions
    def unary(self):
        k, v = self.peek()
        if k == "op" and v == "*":
            self.eat()
            e = self.unary()
            pe = self.pointee(e[1]) if e[1].kind == "struct" else None
            if pe is None:
                raise self.R("`*` applied to a %r, which is not a configured pointer-to-value type" % e[1])
            if self.nullable(e[1]):
                fn = self.tdict(e[1]).get("deref")
                if not fn:
                    raise self.R("`*` on the nullable pointer `%s`" % e[0])
                return "(%s %s)" % (fn, e[0]), pe
            return e[0], pe
        if k == "op" and v == "&":
            self.eat()
            e = self.unary()
            pt = self.pointer_to(e[1]) if e[1].kind == "struct" else None
            if pt is None:
                raise self.R("`&` applied to a %r: no pointer type with this pointee is configured" % e[1])
            return e[0], pt
        return C.Parser.unary(self)

    def primary(self):
        k, v = self.peek()
        if k == "id" and v == "nullptr":
            self.eat()
            return "none", NULL
        return C.Parser.primary(self)

    def field(self, e, m):
        if e[1].kind == "struct" and self.nullable(e[1]):
            raise self.R("member `%s` of the nullable pointer `%s`" % (m, e[0]))
        return C.Parser.field(self, e, m)

    def _guard_effect(self, parse_right, what):
        save = self.effect
        self.effect = False
        r = parse_right()
        if self.effect:
            raise self.R("a call that can throw in %s is outside the fragment (C++ evaluates it conditionally)" % what)
        self.effect = save
        return r

    def or_(self):
        e = self.and_()
        while self.at("||"):
            self.eat()
            r = self._guard_effect(self.and_, "the right operand of `||`")
            e = ("(%s || %s)" % (self.truth(*e), self.truth(*r)), BOOL)
        return e

    def and_(self):
        e = self.eq()
        while self.at("&&"):
            self.eat()
            r = self._guard_effect(self.eq, "the right operand of `&&`")
            e = ("(%s && %s)" % (self.truth(*e), self.truth(*r)), BOOL)
        return e

    def expr(self):
        c = self.or_()
        if self.at("?"):
            self.eat("?")
            a = self._guard_effect(self.expr, "an arm of `?:`")
            self.eat(":")
            b = self._guard_effect(self.expr, "an arm of `?:`")
            ea, eb, ty = self.unify(a[0], a[1], b[0], b[1], "?:")
            return "(if %s then %s else %s)" % (self.truth(*c), ea, eb), ty
        return c

    # ------------------------------------------------------------------ calls
    def apply_param(self, d, args, what):
        ats = d.get("args", [])
        if len(ats) != len(args):
            raise self.R("%s called with %d argument(s), spec says %d" % (what, len(args), len(ats)))
        ca = [self.coerce(a[0], a[1], self.ctype(t), "argument of " + what) for a, t in zip(args, ats)]
        if d.get("class"):
            self.want(d["class"])
        if d.get("kind") == "param":
            if d not in [x[1] for x in self.used_params]:
                self.used_params.append((d["lean"], d))
        return "(%s%s)" % (d["lean"], "".join(" " + a for a in ca)), self.ctype(d["ret"])

    def pick(self, d, args, what):
        if not isinstance(d, list):
            return d
        ok = []
        for x in d:
            ats = x.get("args", [])
            if len(ats) != len(args):
                continue
            good = True
            for a, t in zip(args, ats):
                tt = self.ctype(t)
                if a[1].kind == "struct" or tt.kind == "struct":
                    if a[1] != tt and not (a[1].kind == "null" and self.nullable(tt)) and not (self.nullable(tt) and self.pointee(tt) in (a[1], self.pointee(a[1]) if a[1].kind == "struct" else None)):
                        good = False
            if good:
                ok.append(x)
        if len(ok) != 1:
            raise self.R("%s with argument types %s matches %d configured overloads" % (what, [a[1] for a in args], len(ok)))
        return ok[0]

    def configured_call(self, name, args):
        calls = self.spec.get("calls", {})
        d = None
        for key in (name, name.split("::")[-1]):
            if key in calls:
                d = calls[key]; break
        if d is None:
            raise self.R("call of `%s` is not configured in the spec" % name)
        d = self.pick(d, args, "call of `%s`" % name)
        if d.get("updates"):
            raise self.R("`%s` assigns members; it can only be called as a statement" % name)
        if d.get("kind") == "generated":
            callee = next((x for x in self.spec["functions"] if x["lean"] == d["lean"]), None)
            saved = self.spec.get("calls")
            # the base class looks the descriptor up again by name: hand it the chosen overload
            self.spec["calls"] = dict(saved); self.spec["calls"][name] = d
            try:
                txt, ty = C.Parser.configured_call(self, name, args)
            finally:
                self.spec["calls"] = saved
            if callee is not None and callee.get("monad") == "except":
                if self.monad != "except":
                    raise self.R("`%s` can throw; `%s` is not declared `monad: except`" % (name, self.name))
                self.effect = True
                txt = "(← %s)" % txt
            return txt, ty
        return self.apply_param(d, args, "`%s`" % name)

    def method(self, e, m, args):
        ms = self.spec.get("methods", {})
        cands = [ms.get("%s.%s" % (e[1].name, m)) if e[1].name else None, ms.get("." + m)]
        d = next((c for c in cands if c), None)
        if d is None:
            raise self.R("method call `%s.%s(…)` is not configured in the spec" % (e[0], m))
        d = self.pick(d, args, "method `%s`" % m)
        if d.get("updates"):
            raise self.R("method `%s` assigns members; it can only be called as a statement" % m)
        recv_t = d.get("recv")
        if recv_t is not None and self.ctype(recv_t) != e[1] and not (self.pointee(e[1]) == self.ctype(recv_t) and not self.nullable(e[1])):
            raise self.R("method `%s` is configured for receivers of type %s, found %r" % (m, recv_t, e[1]))
        if d.get("kind") in ("param", "def", None) and "fmt" not in d:
            ats = d.get("args", [])
            if len(ats) != len(args):
                raise self.R("method `%s` called with %d argument(s), spec says %d" % (m, len(args), len(ats)))
            ca = [self.coerce(a[0], a[1], self.ctype(t), "argument of " + m) for a, t in zip(args, ats)]
            if d.get("class"):
                self.want(d["class"])
            if d.get("kind") == "param" and d not in [x[1] for x in self.used_params]:
                self.used_params.append((d["lean"], d))
            return "(%s %s%s)" % (d["lean"], e[0], "".join(" " + a for a in ca)), self.ctype(d["ret"])
        if d.get("kind") == "generated" and "fmt" in d:
            g = self.spec.get("_generated", {}).get(d["lean"])
            if g is None:
                raise self.R("`%s` calls method `%s`, whose translation must be listed BEFORE it in the spec" % (self.name, m))
            self.want(g["need"])
            for up in g["used_params"]:
                if up[1] not in [x[1] for x in self.used_params]:
                    self.used_params.append(up)
            ats = d.get("args", [])
            if len(ats) != len(args):
                raise self.R("method `%s` called with %d argument(s), spec says %d" % (m, len(args), len(ats)))
            ca = [self.coerce(a[0], a[1], self.ctype(t), "argument of " + m) for a, t in zip(args, ats)]
            fn = d["lean"] + "".join(" " + up[0] for up in g["used_params"])
            return d["fmt"].format(e[0], *ca, fn=fn), self.ctype(d["ret"])
        raise self.R("method descriptor of `%s` is outside the fragment" % m)

    # ------------------------------------------------------------------ stable signature
    def stmts_until_end(self):
        r = C.Parser.stmts_until_end(self)
        every = []
        for tab in (self.spec.get("calls", {}), self.spec.get("methods", {})):
            for d in tab.values():
                every += d if isinstance(d, list) else [d]
        for u in self.f.get("uses", ()):                      # abstract parameters the function always takes (used or not)
            ds = [d for d in every if d.get("kind") == "param" and d["lean"] == u]
            if not ds:
                raise self.R("`uses` names `%s`, which is not an abstract parameter of the spec" % u)
            if ds[0] not in [x[1] for x in self.used_params]:
                self.used_params.append((u, ds[0]))
        # two descriptors may name one abstract function (the same accessor reached through two static types)
        seen, uniq = {}, []
        for ln, d in self.used_params:
            if ln in seen:
                if seen[ln]["sig"] != d["sig"]:
                    raise self.R("abstract parameter `%s` is configured with two different signatures" % ln)
                continue
            seen[ln] = d
            uniq.append((ln, d))
        self.used_params[:] = uniq
        order = list(self.spec.get("param_order", ()))
        if order:
            for ln, d in self.used_params:
                if ln not in order:
                    raise self.R("abstract parameter `%s` is missing from spec[\"param_order\"]" % ln)
            self.used_params.sort(key=lambda x: order.index(x[0]))
        return r

    # ------------------------------------------------------------------ statements
    def stmt(self):
        """statements of calls hoisted out of the expressions of this statement (value-returning procedures that assign members,
        functions of the spec with state) are emitted in front of it; every statement has its own list"""
        outer, self.hoisted = getattr(self, "hoisted", []), []
        try:
            lines, term = self.stmt0()
            return self.hoisted + lines, term
        finally:
            self.hoisted = outer

    def for_stmt(self):
        r = C.Parser.for_stmt(self)
        if self.hoisted:
            raise self.R("a call that assigns members in a `for` header is outside the fragment")
        return r

    def stmt0(self):
        k, v = self.peek()
        # `p.reset(nullptr);` on a nullable member
        if k == "id" and self.lookup(v) is not None and self.peek(1) == ("op", ".") and self.peek(2) == ("id", "reset") and self.peek(3) == ("op", "(") \
                and self.peek(4) == ("id", "nullptr") and self.peek(5) == ("op", ")") and self.peek(6) == ("op", ";"):
            ln, ty = self.lvalue()
            if not self.nullable(ty):
                raise self.R("`%s.reset(nullptr)` on a %r that is not configured nullable" % (v, ty))
            for _ in range(6):
                self.eat()
            self.assigned[-1].add(ln)
            return [(0, "%s := none" % ln)], False
        if k == "id" and v in self.spec.get("ignore_decls", ()) and self.peek(1)[0] == "id" and self.peek(2) == ("op", ";"):
            # a local object that is declared and never used (its constructor has no effect the fragment can see)
            name = self.peek(1)[1]
            if sum(1 for (k2, v2) in self.t if k2 == "id" and (v2 == name or v2.startswith(name + "::"))) != 1:
                raise self.R("`%s %s;` is configured as an unused declaration, but `%s` is used" % (v, name, name))
            self.eat(); self.eat(); self.eat(";")
            return [], False
        if k == "id" and v in ("std::ostringstream", "std::stringstream") and self.peek(1)[0] == "id" and self.peek(2) == ("op", ";"):
            self.eat(); self.msg_streams.add(self.eat()); self.eat(";")
            return [], False
        if k == "id" and v in self.msg_streams and self.peek(1) == ("op", "<<"):
            self.eat()
            while not self.at(";"):
                k2, v2 = self.peek()
                if k2 is None:
                    raise self.R("unterminated `%s << …`" % v)
                if k2 == "op" and v2 in ("=", "++", "--", "+=", "-=", "*=", "/=", "(", ")", "{", "}"):
                    raise self.R("`%s << …` (message text) contains `%s`" % (v, v2))
                self.eat()
            self.eat(";")
            return [], False
        if k == "id" and v == "while":
            return self.while_stmt()
        if k == "id" and self.peek(1) == ("op", "(") and self.proc_descriptor(v) is not None:
            return self.proc_stmt(v, None)
        if k == "id" and self.lookup(v) is not None and self.peek(1)[1] in (".", "->") and self.peek(2)[0] == "id" and self.peek(3) == ("op", "("):
            d = self.spec.get("methods", {}).get("." + self.peek(2)[1])
            if d is not None and not isinstance(d, list) and d.get("updates") is not None:
                return self.proc_stmt(self.peek(2)[1], v)
        return C.Parser.stmt(self)

    def hoist_stateful(self, name, args):
        """a call, inside an expression, of a value-returning abstract procedure or of a function of the spec with state: its
        statements are hoisted in front of the current statement; returns (value text, T) or None if `name` is no such call"""
        calls = self.spec.get("calls", {})
        d = None
        for key in (name, name.split("::")[-1]):
            if key in calls:
                d = calls[key]; break
        if d is None:
            return None
        ds = d if isinstance(d, list) else [d]
        def stateful(x):
            if x.get("updates") is not None:
                return True
            if x.get("kind") == "generated":
                callee = next((y for y in self.spec["functions"] if y["lean"] == x["lean"]), None)
                return bool(callee and callee.get("state"))
            return False
        if not any(stateful(x) for x in ds):
            return None
        d = self.pick(d, args, "call of `%s`" % name)
        if not stateful(d):
            return None
        self.effect = True                       # refused in conditionally evaluated positions
        if d.get("updates") is not None:
            rt = self.ctype(d.get("ret", "void"))
            if rt.kind == "void":
                raise self.R("`%s` returns void; it can only be called as a statement" % name)
            txt, ups = self.proc_apply(d, args, "`%s`" % name)
            self.tmp += 1
            r = self.fresh("r")
            n = 1 + len(ups)
            self.hoisted.append((0, "let %s := %s" % (r, txt)))
            for i, u in enumerate(ups):
                self.hoisted.append((0, "%s := %s" % (u, r + ".2" * (i + 1) + (".1" if i + 1 < n - 1 else ""))))
            return (r + (".1" if n > 1 else ""), rt)
        callee = next(y for y in self.spec["functions"] if y["lean"] == d["lean"])
        rt = self.ctype(callee.get("ret", "bool"))
        if rt.kind == "void":
            raise self.R("`%s` returns void; it can only be called as a statement" % name)
        lines, val = self.stateful_call_lines(d, callee, name, args)
        self.hoisted += lines
        return (val, rt)

    def call(self, name):
        save = self.p
        calls = self.spec.get("calls", {})
        if name in calls or name.split("::")[-1] in calls:
            args = self.args()
            r = self.hoist_stateful(name, args)
            if r is not None:
                return r
            return self.configured_call(name, args)
        return C.Parser.call(self, name)

    def proc_descriptor(self, name):
        calls = self.spec.get("calls", {})
        for key in (name, name.split("::")[-1]):
            if key in calls:
                d = calls[key]
                ds = d if isinstance(d, list) else [d]
                if any(x.get("updates") is not None for x in ds):
                    return d
        return None

    def proc_apply(self, d, args, what, recv=None):
        """text of the application of an abstract procedure and the list of updated lean variables"""
        ups = []
        for m in d["updates"]:
            ent = self.lookup(m)
            if ent is None or not ent[2]:
                raise self.R("%s assigns member `%s`, which `%s` does not declare as state" % (what, m, self.name))
            if ent[0] not in self.all_assigned():
                raise self.R("member `%s` may be read before assignment" % m)
            ups.append(ent[0])
        allargs = ([recv] if recv is not None else []) + list(args)
        d2 = dict(d)
        if recv is not None:
            d2["args"] = [recv[1].name] + list(d.get("args", []))
        ats = d2.get("args", [])
        if len(ats) != len(allargs):
            raise self.R("%s called with %d argument(s), spec says %d" % (what, len(allargs), len(ats)))
        ca = [self.coerce(a[0], a[1], self.ctype(t), "argument of " + what) for a, t in zip(allargs, ats)]
        if d.get("kind") != "param":
            raise self.R("%s: only abstract procedures (kind param) are supported" % what)
        if d not in [x[1] for x in self.used_params]:
            self.used_params.append((d["lean"], d))
        return "(%s%s%s)" % (d["lean"], "".join(" " + u for u in ups), "".join(" " + a for a in ca)), ups

    def proc_stmt(self, name, recv_name):
        if recv_name is not None:
            # `obj.m(args);` — the method assigns the object itself: obj := m obj args
            d = self.spec["methods"]["." + name]
            ln, ty = self.lvalue()
            if ln not in self.all_assigned():
                raise self.R("`%s` may be read before assignment" % recv_name)
            self.eat()                      # . or ->
            self.eat(kind="id")
            args = self.args()
            self.eat(";")
            if d["updates"] != ["<receiver>"] or d.get("kind") != "param":
                raise self.R("method `%s`: only abstract procedures updating their receiver are supported" % name)
            if d.get("recv") is not None and self.ctype(d["recv"]) != ty:
                raise self.R("method `%s` is configured for receivers of type %s, found %r" % (name, d["recv"], ty))
            ats = d.get("args", [])
            if len(ats) != len(args):
                raise self.R("method `%s` called with %d argument(s), spec says %d" % (name, len(args), len(ats)))
            ca = [self.coerce(a[0], a[1], self.ctype(t), "argument of " + name) for a, t in zip(args, ats)]
            if d not in [x[1] for x in self.used_params]:
                self.used_params.append((d["lean"], d))
            return [(0, "%s := (%s %s%s)" % (ln, d["lean"], ln, "".join(" " + a for a in ca)))], False
        else:
            self.eat(kind="id")
            recv = None
            d = self.proc_descriptor(name)
        args = self.args()
        self.eat(";")
        d = self.pick(d, args, "call of `%s`" % name)
        if self.ctype(d.get("ret", "void")).kind != "void":
            raise self.R("the value of `%s` is discarded" % name)
        txt, ups = self.proc_apply(d, args, "`%s`" % name, recv)
        if not ups:
            raise self.R("`%s(…);` has no effect in the fragment" % name)
        lhs = ups[0] if len(ups) == 1 else "(" + ", ".join(ups) + ")"
        if len(ups) == 1:
            return [(0, "%s := %s" % (lhs, txt))], False
        self.tmp += 1
        r = self.fresh("r")
        lines = [(0, "let %s := %s" % (r, txt))]
        for i, u in enumerate(ups):
            lines.append((0, "%s := %s" % (u, r + ".2" * i + (".1" if i < len(ups) - 1 else ""))))
        return lines, False

    def decl_stmt(self):
        # `T obj(args);` of a configured class with a constructor descriptor, and `T x = proc(args);` of a value-returning procedure
        save = self.p
        tyt = self.parse_type()
        nt = C.norm_type(tyt)
        d = self.spec.get("types", {}).get(nt, {})
        if self.peek()[0] == "id" and self.peek(1) == ("op", "(") and d.get("ctor"):
            name = self.eat(kind="id")
            args = self.args()
            self.eat(";")
            cd = self.spec["calls"][d["ctor"]]
            txt, ty = self.apply_param(cd, args, "constructor of " + nt)
            ln = self.declare(name, self.ctype(tyt), False, True)
            return [(0, "let %s : %s := %s" % (ln, self.lean_type(self.ctype(tyt)), txt))], False
        if self.peek()[0] == "id" and self.peek(1) == ("op", "=") and self.peek(2)[0] == "id" and self.peek(3) == ("op", "(") \
                and self.proc_descriptor(self.peek(2)[1]) is not None:
            name = self.eat(kind="id"); self.eat("=")
            pname = self.eat(kind="id")
            args = self.args()
            self.eat(";")
            pd = self.pick(self.proc_descriptor(pname), args, "call of `%s`" % pname)
            rt = self.ctype(pd.get("ret", "void"))
            ty = rt if nt == "auto" else self.ctype(tyt)
            if rt.kind == "void" or rt != ty:
                raise self.R("`%s %s = %s(…)`: the procedure returns %r" % (tyt, name, pname, rt))
            txt, ups = self.proc_apply(pd, args, "`%s`" % pname)
            self.tmp += 1
            r = self.fresh("r")
            lines = [(0, "let %s := %s" % (r, txt))]
            n = 1 + len(ups)
            ln = self.declare(name, ty, True, True)
            lines.append((0, "let mut %s : %s := %s" % (ln, self.lean_type(ty), r + (".1" if n > 1 else ""))))
            for i, u in enumerate(ups):
                lines.append((0, "%s := %s" % (u, r + ".2" * (i + 1) + (".1" if i + 1 < n - 1 else ""))))
            return lines, False
        if self.peek()[0] == "id" and self.peek(1) == ("op", "=") and self.peek(2)[0] == "id" and self.peek(3) == ("op", "(") \
                and self.stateful_generated(self.peek(2)[1]) is not None:
            # `T x = f(args);` where f is another function of the spec that assigns members: the callee's state is threaded through
            name = self.eat(kind="id"); self.eat("=")
            fname = self.eat(kind="id")
            d, callee = self.stateful_generated(fname)
            args = self.args()
            self.eat(";")
            rt = self.ctype(callee.get("ret", "bool"))
            ty = rt if nt == "auto" else self.ctype(tyt)
            if rt.kind == "void":
                raise self.R("`%s %s = %s(…)`: the function returns void" % (tyt, name, fname))
            lines, val = self.stateful_call_lines(d, callee, fname, args)
            ln = self.declare(name, ty, True, True)
            lines.append((0, "let mut %s : %s := %s" % (ln, self.lean_type(ty), self.coerce(val, rt, ty, "initialiser of " + name))))
            return lines, False
        self.p = save
        return C.Parser.decl_stmt(self)

    def stateful_generated(self, name):
        calls = self.spec.get("calls", {})
        for key in (name, name.split("::")[-1]):
            d = calls.get(key)
            if d is not None and not isinstance(d, list) and d.get("kind") == "generated":
                callee = next((x for x in self.spec["functions"] if x["lean"] == d["lean"]), None)
                if callee is not None and callee.get("state"):
                    return d, callee
        return None

    def stateful_call_lines(self, d, callee, what, args):
        """`let r := f params fields state args`, then the caller's copies of the members the callee assigns are updated from r;
        returns (lines, text of the returned value or None)"""
        g = self.spec.get("_generated", {}).get(d["lean"])
        if g is None:
            raise self.R("`%s` calls `%s`, which must be listed BEFORE it in the spec" % (self.name, what))
        if callee.get("monad") == "except" and self.monad != "except":
            raise self.R("`%s` can throw; `%s` is not declared `monad: except`" % (what, self.name))
        self.want(g["need"])
        for up in g["used_params"]:
            if up[1] not in [x[1] for x in self.used_params]:
                self.used_params.append(up)
        ats = d.get("args", [])
        if len(ats) != len(args):
            raise self.R("`%s` called with %d argument(s), spec says %d" % (what, len(args), len(ats)))
        ca = [self.coerce(a[0], a[1], self.ctype(t), "argument of " + what) for a, t in zip(args, ats)]

        def member(m, need_mut):
            ent = self.lookup(m)
            if ent is None or (need_mut and not ent[2]):
                raise self.R("`%s` %s member `%s`, which `%s` does not declare (%s)" % (what, "assigns" if need_mut else "reads", m, self.name, "state" if need_mut else "fields/state"))
            if ent[0] not in self.all_assigned():
                raise self.R("member `%s` may be read before assignment" % m)
            return ent[0]
        fields = [member(m, False) for m in callee.get("fields", {})]
        state = [member(m, True) for m in callee.get("state", {})]
        extra = [up[0] for up in g["used_params"]]
        txt = "(%s)" % " ".join([d["lean"]] + extra + fields + state + ca)
        if callee.get("monad") == "except":
            txt = "(← %s)" % txt
        rt = self.ctype(callee.get("ret", "bool"))
        n = (0 if rt.kind == "void" else 1) + len(state)
        self.tmp += 1
        r = self.fresh("r")
        lines = [(0, "let %s := %s" % (r, txt))]

        def proj(i):
            return r if n == 1 else r + ".2" * i + (".1" if i < n - 1 else "")
        k = 0 if rt.kind == "void" else 1
        for i, sv in enumerate(state):
            lines.append((0, "%s := %s" % (sv, proj(k + i))))
        return lines, (proj(0) if k else None)

    def while_stmt(self):
        fuel = self.f.get("while_fuel")
        if not fuel:
            raise self.R("`while` in a function without `while_fuel` in the spec")
        if self.monad != "except":
            raise self.R("`while` needs `monad: except` (running out of fuel is an exception)")
        self.eat("while"); self.eat("(")
        p0 = self.p
        c = self.expr()
        if self.effect:
            raise self.R("a call that can throw in a `while` condition is outside the fragment")
        p1 = self.p
        self.eat(")")
        cond = self.truth(*c)
        self.in_loop += 1
        self.assigned.append(set())
        body, term = self.block_or_stmt()
        self.assigned.pop()
        self.in_loop -= 1
        for ind, t in body:
            if t in ("break", "continue"):
                raise self.R("`break` / `continue` inside a `while` body is outside the fragment")
        # the condition after the loop, re-parsed in the state after the loop (same text: the variables are `let mut`)
        self.tmp += 1
        lines = [(0, "for _ in [0:%s] do" % fuel)] + C.indent([(0, "if !%s then" % cond), (1, "break")] + body)
        lines += [(0, "if %s then" % cond), (1, "throw \"while: out of fuel\"")]
        return lines, False
