"""C17 — the per-type decision functions of geom::util::GeometryFixer (hand-written model: lean/GeosModel/Model/Fix/Dispatch.lean,
vocabulary in Model/Fix/Cxx.lean).

Every input pointer (`const Geometry*`, `const Point*`, … and the `CoordinateSequence*` taken from it) is the model's `Shape`;
every result (`std::unique_ptr<Geometry>` …) is an `Option Res` (`nullptr` = none).  Accessors read the corresponding field
of the shape; `GeometryFactory::createX` yields the `Res` of the kind it creates.  Geometric sub-operations are oracles
(function parameters of the generated definitions; the bridge theorems state what the model assumes of them):
  fixRing(ring)                the buffer-by-zero of a ring                               (model: `shellArea`)
  polygonWithHoles(poly, shell) everything fixPolygonElement does after `if (getNumInteriorRing() == 0)` — fixHoles,
                               classifyHoles, difference, union (vectors of geometries)    (model: `withHoles`)
  ring->isValid()              validity of the rebuilt ring                               (model: `ringValid`)
  unionOf(collection)          OverlayNGRobust::Union of the fixed elements of a MultiPolygon      (model: `unionTy`)
  getResultOf(fixer)           `elemFixer.getResult()` in fixCollection — the recursion        (model: `fix keep elem`)
The element loops fixMultiPoint / fixMultiLineString / fixMultiPolygon / fixCollection are regenerated as definitions of
their own (`…Loop`: index loop over getGeometryN(i), `continue`, emplace_back into a vector = append to a list); getResult
takes them as oracles and the bridge theorems tie the knot.  fixHoles / classifyHoles / difference / unionGeometry (range-for
over vectors of raw pointers, PreparedGeometry) are not translated."""
import cxx_ext            # first: makes `cxx2lean` the running translator module
import cxx2lean as C

F = "src/geom/util/GeometryFixer.cpp"
SHAPE_PTRS = ["Geometry*", "Point*", "LineString*", "LinearRing*", "Polygon*", "MultiPoint*", "MultiLineString*", "MultiPolygon*",
              "GeometryCollection*", "CoordinateSequence*", "CoordinateSequence", "CoordinateXY*"]
MEMBERS = {"isKeepCollapsed": "bool", "factory": "GeometryFactory*"}


def prepare(spec, repo):
    v = C.find_constant(repo, "include/geos/geom/LinearRing.h", r"static\s+const\s+unsigned\s+int\s+MINIMUM_VALID_SIZE\s*=\s*(\d+)\s*;")
    spec["consts"] = {"LinearRing::MINIMUM_VALID_SIZE": {"type": "unsigned int", "value": int(v)}}
    # the static fix(): a fresh fixer (isKeepCollapsed = false in the constructor) — what fixCollection's elements get
    h = C.read_source(repo, "include/geos/geom/util/GeometryFixer.h")
    import re
    if not re.search(r",\s*isKeepCollapsed\s*\(\s*false\s*\)", h):
        raise C.Refuse("GeometryFixer's constructor no longer initialises isKeepCollapsed(false)")


def types():
    t = {p: {"lean": "Fix.Shape", "opaque": True} for p in SHAPE_PTRS}
    t.update({
        "UPtr_Geometry": {"lean": "Option Fix.Res", "opaque": True, "nullable": True},
        "UPtr_Point": {"lean": "Option Fix.Res", "opaque": True, "nullable": True},
        "UPtr_LineString": {"lean": "Fix.Shape", "opaque": True, "owned": True},      # only: the shell re-read as a line (an input)
        "UPtr_CoordinateSequence": {"lean": "Nat", "opaque": True},                   # a cleaned sequence, seen through size() only
        "Coordinate": {"lean": "Unit", "opaque": True},
        "Vec_Geometry": {"lean": "Fix.Vec", "opaque": True, "empty": "[]"},
        "Vec_Point": {"lean": "Fix.Vec", "opaque": True, "empty": "[]"},
        "UPtr_GeometryCollection": {"lean": "Option Fix.Res", "opaque": True, "nullable": True},
        "GeometryFixer": {"lean": "Fix.Fixer", "opaque": True, "ctor": {"args": ["Geometry*"], "lean": "Fix.Fixer.mk'"}},
        "GeometryFactory*": {"lean": "Fix.Factory", "opaque": True},
        "GeometryTypeId": {"lean": "Fix.Ty", "enum": {
            "GEOS_POINT": "Fix.Ty.point", "GEOS_LINESTRING": "Fix.Ty.lineString", "GEOS_LINEARRING": "Fix.Ty.linearRing",
            "GEOS_POLYGON": "Fix.Ty.polygon", "GEOS_MULTIPOINT": "Fix.Ty.multiPoint", "GEOS_MULTILINESTRING": "Fix.Ty.multiLineString",
            "GEOS_MULTIPOLYGON": "Fix.Ty.multiPolygon", "GEOS_GEOMETRYCOLLECTION": "Fix.Ty.collection"}},
    })
    return t


def oracle(name, arg):
    return {"lean": name, "kind": "param", "sig": "Fix.Shape → Option Fix.Res", "args": [arg], "ret": "UPtr_Geometry"}


def gen(name, arg, ret="UPtr_Geometry"):
    return {"lean": name, "kind": "generated", "args": [arg], "ret": ret}


SPEC = {
    "id": "geometry_fixer",
    "namespace": "GeosModel.Generated.GeometryFixer",
    "imports": ["GeosModel.Model.Fix.Cxx"],
    "prepare": prepare,
    "parser_class": cxx_ext.ExtParser,
    "also_reads": ["include/geos/geom/LinearRing.h", "include/geos/geom/util/GeometryFixer.h"],
    "types": types(),
    "methods": {
        ".isEmpty": {"lean": "Fix.Shape.emptyFlag", "args": [], "ret": "bool"},
        "UPtr_Geometry.isEmpty": {"lean": "Fix.resIsEmpty", "args": [], "ret": "bool"},
        ".getCoordinate": {"lean": "id", "args": [], "ret": "CoordinateXY*"},
        "CoordinateXY*.isValid": {"lean": "Fix.Shape.validCoord", "args": [], "ret": "bool"},
        "UPtr_Geometry.isValid": {"lean": "isValid", "kind": "param", "sig": "Option Fix.Res → Bool", "args": [], "ret": "bool"},
        "UPtr_Geometry.getCoordinates": {"lean": "Fix.resCoords", "args": [], "ret": "UPtr_CoordinateSequence"},
        "UPtr_Geometry.getGeometryTypeId": {"lean": "Fix.resTy", "args": [], "ret": "GeometryTypeId"},
        "Point*.clone": {"lean": "Fix.Shape.clonePoint", "args": [], "ret": "UPtr_Point"},
        "Geometry*.clone": {"lean": "Fix.Shape.cloneEmpty", "args": [], "ret": "UPtr_Geometry"},
        ".getCoordinatesRO": {"lean": "id", "args": [], "ret": "CoordinateSequence*"},
        "UPtr_CoordinateSequence.size": {"lean": "id", "args": [], "ret": "std::size_t"},
        "UPtr_CoordinateSequence.getAt": {"lean": "Fix.coordAt", "args": ["std::size_t"], "ret": "Coordinate"},
        ".getExteriorRing": {"lean": "id", "args": [], "ret": "LinearRing*"},
        ".getNumInteriorRing": {"lean": "Fix.Shape.nHoles", "args": [], "ret": "std::size_t"},
        ".getNumGeometries": {"lean": "Fix.Shape.numGeometries", "args": [], "ret": "std::size_t"},
        ".getGeometryTypeId": {"lean": "Fix.Shape.ty", "args": [], "ret": "GeometryTypeId"},
        "GeometryFactory*.createPoint": [
            {"lean": "Fix.createPointEmpty", "args": [], "ret": "UPtr_Point"},
            {"lean": "Fix.createPointAt", "args": ["Coordinate"], "ret": "UPtr_Point"}],
        "GeometryFactory*.createLineString": [
            {"lean": "Fix.createLineStringEmpty", "args": [], "ret": "UPtr_Geometry"},
            {"lean": "Fix.createLineStringOf", "args": ["UPtr_CoordinateSequence"], "ret": "UPtr_Geometry"},
            {"lean": "Fix.createLineOfShell", "args": ["CoordinateSequence"], "ret": "UPtr_LineString"}],
        "GeometryFactory*.createLinearRing": [
            {"lean": "Fix.createLinearRingEmpty", "args": [], "ret": "UPtr_Geometry"},
            {"lean": "Fix.createLinearRingOf", "args": ["UPtr_CoordinateSequence"], "ret": "UPtr_Geometry"}],
        "GeometryFactory*.createPolygon": [{"lean": "Fix.createPolygonEmpty", "args": [], "ret": "UPtr_Geometry"}],
        "GeometryFactory*.createGeometryCollection": [
            {"lean": "Fix.createGeometryCollectionOf", "args": ["Vec_Geometry"], "ret": "UPtr_GeometryCollection"}],
        "GeometryFactory*.createMultiLineString": [{"lean": "Fix.createMultiLineStringOf", "args": ["Vec_Geometry"], "ret": "UPtr_Geometry"}],
        "GeometryFactory*.createMultiPoint": [{"lean": "Fix.createMultiPointOf", "args": ["Vec_Point"], "ret": "UPtr_Geometry"}],
        "GeometryFactory*.createMultiPolygon": [{"lean": "Fix.createMultiPolygonEmpty", "args": [], "ret": "UPtr_Geometry"}],
        ".getGeometryN": {"lean": "Fix.Shape.elemAt", "args": ["std::size_t"], "ret": "Geometry*"},
        "Vec_Geometry.size": {"lean": "Fix.Vec.size", "args": [], "ret": "std::size_t"},
        "Vec_Geometry.empty": {"lean": "Fix.Vec.empty", "args": [], "ret": "bool"},
        "Vec_Geometry.at": {"lean": "Fix.Vec.at", "args": ["std::size_t"], "ret": "UPtr_Geometry"},
        "GeometryFixer.getResult": {"lean": "getResultOf", "kind": "param", "sig": "Fix.Fixer → Option Fix.Res", "args": [], "ret": "UPtr_Geometry"},
    },
    "mutators": {
        ".emplace_back": {"lean": "Fix.Vec.push", "args": ["UPtr_Geometry"]},
        ".setKeepCollapsed": {"lean": "Fix.Fixer.setKeepCollapsed", "args": ["bool"]},
    },
    "calls": {
        "RepeatedPointRemover::removeRepeatedAndInvalidPoints": {"lean": "Fix.Shape.clean", "kind": "def", "args": ["CoordinateSequence*"],
                                                                  "ret": "UPtr_CoordinateSequence"},
        "isValidPoint": {"lean": "isValidPoint", "kind": "generated", "args": ["Point*"], "ret": "bool"},
        "fixPointElement": gen("fixPointElement", "Point*", "UPtr_Point"),
        "fixPoint": gen("fixPoint", "Point*", "UPtr_Point"),
        "fixLineStringElement": gen("fixLineStringElement", "LineString*"),
        "fixLineString": gen("fixLineString", "LineString*"),
        "fixLinearRingElement": gen("fixLinearRingElement", "LinearRing*"),
        "fixLinearRing": gen("fixLinearRing", "LinearRing*"),
        "fixPolygonElement": gen("fixPolygonElement", "Polygon*"),
        "fixPolygon": gen("fixPolygon", "Polygon*"),
        "fixRing": oracle("fixRing", "LinearRing*"),
        "polygonWithHoles": {"lean": "polygonWithHoles", "kind": "param", "sig": "Fix.Shape → Option Fix.Res → Option Fix.Res",
                             "args": ["Polygon*", "UPtr_Geometry"], "ret": "UPtr_Geometry"},
        "OverlayNGRobust::Union": {"lean": "unionOf", "kind": "param", "sig": "Option Fix.Res → Option Fix.Res",
                                   "args": ["UPtr_GeometryCollection"], "ret": "UPtr_Geometry"},
        "fixMultiPoint": oracle("fixMultiPoint", "MultiPoint*"),
        "fixMultiLineString": oracle("fixMultiLineString", "MultiLineString*"),
        "fixMultiPolygon": oracle("fixMultiPolygon", "MultiPolygon*"),
        "fixCollection": oracle("fixCollection", "GeometryCollection*"),
    },
    "functions": [
        {"file": F, "name": "GeometryFixer::isValidPoint", "params": ["const Point*"], "ret": "bool", "lean": "isValidPoint"},
        {"file": F, "name": "GeometryFixer::fixPointElement", "params": ["const Point*"], "ret": "UPtr_Point", "lean": "fixPointElement"},
        {"file": F, "name": "GeometryFixer::fixPoint", "params": ["const Point*"], "ret": "UPtr_Point", "lean": "fixPoint",
         "fields": {"factory": "GeometryFactory*"}},
        {"file": F, "name": "GeometryFixer::fixLineStringElement", "params": ["const LineString*"], "ret": "UPtr_Geometry",
         "lean": "fixLineStringElement", "fields": MEMBERS},
        {"file": F, "name": "GeometryFixer::fixLineString", "params": ["const LineString*"], "ret": "UPtr_Geometry", "lean": "fixLineString",
         "fields": MEMBERS},
        {"file": F, "name": "GeometryFixer::fixLinearRingElement", "params": ["const LinearRing*"], "ret": "UPtr_Geometry",
         "lean": "fixLinearRingElement", "fields": MEMBERS},
        {"file": F, "name": "GeometryFixer::fixLinearRing", "params": ["const LinearRing*"], "ret": "UPtr_Geometry", "lean": "fixLinearRing",
         "fields": MEMBERS},
        {"file": F, "name": "GeometryFixer::fixPolygonElement", "params": ["const Polygon*"], "ret": "UPtr_Geometry",
         "lean": "fixPolygonElement", "fields": MEMBERS,
         "region": {"from": "const LinearRing* shell =", "until": "std::vector<std::unique_ptr<Geometry>> holesFixed = fixHoles ( p_geom ) ;"},
         "rest": {"call": "polygonWithHoles(p_geom, std::move(fixShell))"}},
        {"file": F, "name": "GeometryFixer::fixPolygon", "params": ["const Polygon*"], "ret": "UPtr_Geometry", "lean": "fixPolygon",
         "fields": MEMBERS},
        # the element loops, each as its own definition (getResult above takes them as oracles; the bridge ties the knot)
        {"file": F, "name": "GeometryFixer::fixMultiPoint", "params": ["const MultiPoint*"], "ret": "UPtr_Geometry", "lean": "fixMultiPointLoop",
         "fields": MEMBERS},
        {"file": F, "name": "GeometryFixer::fixMultiLineString", "params": ["const MultiLineString*"], "ret": "UPtr_Geometry",
         "lean": "fixMultiLineStringLoop", "fields": MEMBERS},
        {"file": F, "name": "GeometryFixer::fixMultiPolygon", "params": ["const MultiPolygon*"], "ret": "UPtr_Geometry",
         "lean": "fixMultiPolygonLoop", "fields": MEMBERS},
        {"file": F, "name": "GeometryFixer::fixCollection", "params": ["const GeometryCollection*"], "ret": "UPtr_Geometry",
         "lean": "fixCollectionLoop", "fields": MEMBERS},
        {"file": F, "name": "GeometryFixer::getResult", "params": [], "ret": "UPtr_Geometry", "lean": "getResult", "monad": "except",
         "fields": {"isKeepCollapsed": "bool", "factory": "GeometryFactory*", "geom": "Geometry*"}},
    ],
}
