"""C04 (numeric part) — the rounding rule: util::java_math_round / util::round (src/util/math.cpp, include/geos/util/math.h),
PrecisionModel::makePrecise / setScale / snapToInt (src/geom/PrecisionModel.cpp).
Hand-written models: Model/Precision/Round.lean (exact layer over Rat: javaRound, makePreciseQ; binary64 layer over F64.Val:
PM.makePrecise, PM.setScale, snapToInt).  Bridge: Props/C04GenRound.lean.

The math library (`std::floor`, `std::ceil`, `std::modf`, `std::round`, `static_cast<float>`) enters as abstract parameters, in
the fixed order of `param_order`; see specs/xparser.py."""
import re
import cxx2lean as C
from specs import xparser

PM_CPP = "src/geom/PrecisionModel.cpp"
PM_H = "include/geos/geom/PrecisionModel.h"
MATH_CPP = "src/util/math.cpp"
MATH_H = "include/geos/util/math.h"


def prepare(spec, repo):
    # the tolerance of snapToInt in setScale: a file-level constant of PrecisionModel.cpp
    v = C.find_constant(repo, PM_CPP, r"const\s+double\s+GRIDSIZE_INTEGER_TOLERANCE\s*=\s*([0-9.eE+-]+)\s*;")
    spec["consts"] = {"GRIDSIZE_INTEGER_TOLERANCE": {"type": "double", "value": v}}
    # the three model types exist under these names (the Lean type Precision.ModelType has exactly these constructors)
    h = C.read_source(repo, PM_H)
    m = re.search(r"typedef\s+enum\s*\{(.*?)\}\s*Type\s*;", h, re.S) or re.search(r"enum\s+(?:class\s+)?Type\s*\{(.*?)\}", h, re.S)
    if not m:
        raise C.Refuse("enum PrecisionModel::Type not found in %s" % PM_H)
    names = [re.sub(r"=.*$", "", x).strip() for x in m.group(1).split(",") if x.strip()]
    if sorted(names) != ["FIXED", "FLOATING", "FLOATING_SINGLE"]:
        raise C.Refuse("PrecisionModel::Type has enumerators %s; the model knows FIXED, FLOATING, FLOATING_SINGLE" % names)
    # `#if GEOS_DEBUG` blocks inside makePrecise: resolved for GEOS_DEBUG = 0
    # the constructor PrecisionModel(double newScale) as a pseudo member function (member initialisers first, then the body)
    xparser.prepare_sources(spec, repo, {PM_CPP: {"ctors": [{"class": "PrecisionModel", "params": ["double"], "name": "__ctor_scale"}]}})


_P = lambda lean, n=1, ret="double": {"lean": lean, "kind": "param", "sig": " → ".join(["R"] * (n + 1)), "args": ["double"] * n, "ret": ret}

SPEC = {
    "id": "precision_round",
    "namespace": "GeosModel.Generated.PrecisionRound",
    "imports": ["GeosModel.Model.Precision.Round"],
    "prepare": prepare,
    "parser_class": xparser.XParser,
    "also_reads": [PM_H],
    "param_order": ["floor", "ceil", "modfInt", "modfFrac", "stdRound", "toFloat"],
    "types": {
        "Type": {"lean": "Precision.ModelType", "enum": {"FIXED": "Precision.ModelType.fixed", "FLOATING": "Precision.ModelType.floating",
                                                         "FLOATING_SINGLE": "Precision.ModelType.floatingSingle"}},
    },
    "calls": {
        "floor": _P("floor"), "ceil": _P("ceil"), "modfInt": _P("modfInt"), "modfFrac": _P("modfFrac"),
        "std::round": _P("stdRound"), "(float)": _P("toFloat"),
        "java_math_round": {"lean": "java_math_round", "kind": "generated", "args": ["double"], "ret": "double"},
        "sym_round": {"lean": "sym_round", "kind": "generated", "args": ["double"], "ret": "double"},
        "util::round": {"lean": "round", "kind": "generated", "args": ["double"], "ret": "double"},
        "snapToInt": {"lean": "snapToInt", "kind": "generated", "args": ["double", "double"], "ret": "double"},
        "setScale": {"lean": "setScale", "kind": "generated", "args": ["double"], "ret": "void"},
    },
    "functions": [
        {"file": MATH_CPP, "name": "java_math_round", "params": ["double"], "ret": "double", "lean": "java_math_round",
         "uses": ["floor", "ceil", "modfInt", "modfFrac"]},
        {"file": MATH_CPP, "name": "sym_round", "params": ["double"], "ret": "double", "lean": "sym_round",
         "uses": ["floor", "ceil", "modfInt", "modfFrac"]},
        {"file": MATH_H, "name": "round", "params": ["double"], "ret": "double", "lean": "round",
         "uses": ["floor", "ceil", "modfInt", "modfFrac"]},
        {"file": PM_CPP, "name": "PrecisionModel::makePrecise", "params": ["double"], "ret": "double", "lean": "makePrecise",
         "fields": {"modelType": "Type", "scale": "double", "gridSize": "double"},
         "uses": ["floor", "ceil", "modfInt", "modfFrac", "(float)"]},
        {"file": PM_CPP, "name": "PrecisionModel::snapToInt", "params": ["double", "double"], "ret": "double", "lean": "snapToInt",
         "uses": ["std::round"]},
        {"file": PM_CPP, "name": "PrecisionModel::setScale", "params": ["double"], "ret": "void", "lean": "setScale",
         "state": {"scale": "double", "gridSize": "double"}, "uses": ["std::round"]},
        {"file": PM_CPP, "name": "PrecisionModel::__ctor_scale", "source_name": "PrecisionModel::PrecisionModel(double newScale)", "params": ["double"],
         "ret": "void", "lean": "pmCtorScale", "state": {"modelType": "Type", "scale": "double", "gridSize": "double"}, "uses": ["std::round"]},
    ],
}
