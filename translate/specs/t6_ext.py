"""Extensions of the generic translator used by the specs of C18 / C19 / C20 (dp_simplify, linref, norm_compare).

`ExtParser` subclasses `cxx2lean.Parser` (the generic translator is shared and not edited) and accepts a little more C++,
always by *configuration in the spec*, never by guessing; everything else still raises `Refuse`:

* calls configured in `spec["calls"]` take precedence over the built-in `std::` table (so `std::sqrt` can be an abstract
  parameter `sqrt : R → R`, which lets a `Field` carrier such as `Rat` instantiate code that takes square roots);
* call / method descriptors may be of kind `param` / `generated` for *methods* too (`spec["methods"]`), and may carry a
  `fmt` (`"({fn} {0}.x {0}.y {1})"`) saying how receiver / arguments are passed to the Lean function (`{fn}` is the function
  together with the abstract parameters it forwards);
* `a == b` / `a != b` on configured structs: `types[T]["eq"]` is the call descriptor of `operator==` for `T`;
  derived → base conversion of arguments: `types[D]["upcast"] = {"B": "{0}.xy"}`;
* `this` as a value when the spec lists a member named `this` in `fields`;
* arithmetic on `bool` operands (`(d > 0) - (d < 0)`): integral promotion;
* constructor declarations `T x(a, b);` for configured structs (`types[T]["ctor"]` = call descriptor);
* element assignment `v[i] = e;` on configured list types (`List.set`);
* *statement calls* `f(a, b);` / `obj.m(a);` of descriptors with `"updates": [vars]`: emitted as `vars := f … vars`
  (the Lean function takes the updated variables last and returns their new values) — used for `points->reverse()`, and
  for the recursive calls of `simplifySection`, whose callee is an abstract parameter `rec`;
* `while (it.hasNext()) { …; it.next(); }` over a configured iterator type (`types[T]["iterator"]`): emitted as
  `for it in <items> do`, the trailing `it.next();` is required and must be the last statement of the body, `continue` /
  other uses of `next` are refused;
* template arguments of configured accessor names (`getAt<CoordinateXY>(i)`) are dropped (`spec["strip_template_args"]`).
"""
import re
import cxx2lean as C

T = C.T


class ExtParser(C.Parser):
    def __init__(self, spec, f, repo, toks, params):
        toks = self._strip_templates(spec, f, toks)
        C.Parser.__init__(self, spec, f, repo, toks, params)

    @staticmethod
    def _strip_templates(spec, f, toks):
        names = set(spec.get("strip_template_args", ()))
        if not names:
            return toks
        out, i = [], 0
        while i < len(toks):
            k, v = toks[i]
            out.append(toks[i]); i += 1
            if k == "id" and v.split("::")[-1] in names and i < len(toks) and toks[i] == ("op", "<"):
                j = i + 1
                while j < len(toks) and toks[j] != ("op", ">"):
                    if not (toks[j][0] == "id" or toks[j][1] in ("*", "&")):
                        raise C.Refuse("%s: template argument list after `%s` is outside the fragment" % (f["name"], v))
                    j += 1
                if j >= len(toks):
                    raise C.Refuse("%s: unterminated template argument list after `%s`" % (f["name"], v))
                i = j + 1
        return out

    # ------------------------------------------------------------------ calls
    def apply_call(self, name, d, args, recv=None):
        """emit the call described by `d` (a descriptor of spec["calls"] / ["methods"] / types[..]["eq"|"ctor"])"""
        if isinstance(d, list):
            dd = [x for x in d if len(x.get("args", [])) == len(args)]
            if len(dd) != 1:
                raise self.R("call of `%s` with %d arguments matches %d configured overloads" % (name, len(args), len(dd)))
            d = dd[0]
        ats = d.get("args", [])
        if len(ats) != len(args):
            raise self.R("`%s` called with %d argument(s), spec says %d" % (name, len(args), len(ats)))
        ca = [self.coerce(a[0], a[1], self.ctype(t), "argument of " + name) for a, t in zip(args, ats)]
        if recv is not None:
            ca = [recv[0]] + ca
        if d.get("class"):
            self.want(d["class"])
        kind = d.get("kind", "def")
        ln = d["lean"]
        extra, fields = "", ""
        if kind == "param":
            same = [x for x in self.used_params if x[0] == ln]
            if same and same[0][1].get("sig") != d.get("sig"):
                raise self.R("abstract parameter `%s` configured with two different signatures" % ln)
            if not same:
                self.used_params.append((ln, d))
        elif kind == "generated":
            g = self.spec["_generated"].get(ln)
            if g is None:
                raise self.R("`%s` calls `%s`, which must be listed BEFORE it in the spec" % (self.name, name))
            self.want(g["need"])
            for up in g["used_params"]:
                if up[1] not in [x[1] for x in self.used_params]:
                    self.used_params.append(up)
            extra = "".join(" " + up[0] for up in g["used_params"])
            if "fmt" not in d:
                if any(self.lookup(fn) is None for fn in g["fields"]):
                    raise self.R("`%s` reads members %s that `%s` does not declare" % (name, g["fields"], self.name))
                fields = "".join(" " + self.lookup(fn)[0] for fn in g["fields"])
        fn = ln + extra
        if "fmt" in d:
            kw = {"fn": fn}
            if "{this}" in d["fmt"]:
                ent = self.lookup("this")
                if ent is None:
                    raise self.R("`%s` is called on `this`, but no member `this` is configured" % name)
                kw["this"] = ent[0]
            text = d["fmt"].format(*ca, **kw)
        else:
            text = "(%s%s%s)" % (fn, fields, "".join(" " + a for a in ca))
        rt = self.ctype(d["ret"]) if d.get("ret", "void") != "void" else C.VOID
        return text, rt

    def find_call(self, name):
        calls = self.spec.get("calls", {})
        for key in (name, name.split("::")[-1]):
            if key in calls:
                return calls[key]
        return None

    def call(self, name):
        d = self.find_call(name)
        if d is not None:
            e = self.apply_call(name, d, self.args())
            if e[1].kind == "void":
                raise self.R("void call `%s` used as a value" % name)
            return e
        return C.Parser.call(self, name)

    def find_method(self, e, m):
        ms = self.spec.get("methods", {})
        cands = [ms.get("%s.%s" % (e[1].name, m)) if e[1].name else None, ms.get("." + m)]
        return next((c for c in cands if c), None)

    def method(self, e, m, args):
        d = self.find_method(e, m)
        if d is None:
            raise self.R("method call `%s.%s(…)` is not configured in the spec" % (e[0], m))
        r = self.apply_call(m, d, args, recv=e)
        if r[1].kind == "void":
            raise self.R("void method `%s` used as a value" % m)
        return r

    # ------------------------------------------------------------------ conversions / operators
    def coerce(self, e, t, to, what="operand"):
        if t != to and t.kind == "struct" and to.kind == "struct":
            up = self.spec["types"][t.name].get("upcast", {})
            if to.name in up:
                return up[to.name].format(e)
        return C.Parser.coerce(self, e, t, to, what)

    def unify(self, a, ta, b, tb, op):
        # unsigned ⊕ non-negative integer literal: the literal converts to unsigned without change of value
        if {ta.kind, tb.kind} == {"int", "nat"}:
            lit, other = (a, b) if ta.kind == "int" else (b, a)
            m = re.match(r"^\((\d+) : Int\)$", lit)
            if m:
                nl = "(%s : Nat)" % m.group(1)
                return (nl, b, C.NAT) if ta.kind == "int" else (a, nl, C.NAT)
        return C.Parser.unify(self, a, ta, b, tb, op)

    def compare(self, op, a, b):
        if a[1].kind == "struct" or b[1].kind == "struct":
            if op not in ("==", "!="):
                raise self.R("comparison `%s` on %r" % (op, a[1]))
            if a[1].kind != "struct" or b[1].kind != "struct":
                raise self.R("comparison `%s` of %r with %r" % (op, a[1], b[1]))
            types = self.spec["types"]
            cands = [a[1].name, b[1].name] + list(types[a[1].name].get("upcast", {})) + list(types[b[1].name].get("upcast", {}))
            for tn in cands:
                d = types.get(tn, {}).get("eq")
                if not d:
                    continue
                tt = T("struct", tn)
                try:
                    ea = self.coerce(a[0], a[1], tt)
                    eb = self.coerce(b[0], b[1], tt)
                except C.Refuse:
                    continue
                dd = dict(d); dd["args"] = [tn, tn]; dd["ret"] = "bool"
                e, _ = self.apply_call("operator==", dd, [(ea, tt), (eb, tt)])
                return (e if op == "==" else "(!%s)" % e), C.BOOL
            raise self.R("`%s` on %r / %r: no `eq` configured in the spec" % (op, a[1], b[1]))
        return C.Parser.compare(self, op, a, b)

    def binop(self, op, a, b):
        if a[1].kind == "bool" and b[1].kind in ("bool", "int") or b[1].kind == "bool" and a[1].kind == "int":
            a = (self.coerce(a[0], a[1], C.INT), C.INT)
            b = (self.coerce(b[0], b[1], C.INT), C.INT)
        return C.Parser.binop(self, op, a, b)

    def number(self, v):
        # `0.0`, `0.`, `0e0` … are the integer 0 (the generic translator only strips trailing zeros of non-zero mantissas)
        s = re.sub(r"[uUlLfF]+$", "", v)
        if re.match(r"^(?:0*\.0*|0+\.?0*)(?:[eE][-+]?\d+)?$", s) and not re.match(r"^\d+$", s) and s not in (".",):
            self.want("Ring")
            return "(Cxx.Ring.ofInt 0 : R)", C.DBL
        return C.Parser.number(self, v)

    def unary(self):
        # `&x` of a local struct whose type is configured `addr_of` (passed to a `const T*` parameter): the object itself
        if self.peek() == ("op", "&") and self.peek(1)[0] == "id":
            ent = self.lookup(self.peek(1)[1])
            if ent is not None and ent[1].kind == "struct" and self.spec["types"][ent[1].name].get("addr_of"):
                self.eat()
                return self.read_var(self.eat(kind="id"))
        return C.Parser.unary(self)

    def primary(self):
        k, v = self.peek()
        if k == "id" and v.split("::")[-1] == "down_cast" and self.peek(1) == ("op", "<"):
            self.eat(); self.eat("<")
            words = []
            while not self.at(">"):
                words.append(self.eat())
            self.eat(">"); self.eat("(")
            e = self.expr()
            self.eat(")")
            return self.cast(e, self.ctype(" ".join(words)))
        if k == "id" and v == "this":
            ent = self.lookup("this")
            if ent is None:
                raise self.R("`this` used as a value (no member `this` configured)")
            self.eat()
            return ent[0], ent[1]
        return C.Parser.primary(self)

    def truth(self, e, t):
        if t.kind == "struct" and self.spec["types"][t.name].get("nonnull"):
            return self.spec["types"][t.name]["nonnull"].format(e)
        return C.Parser.truth(self, e, t)

    # ------------------------------------------------------------------ statements
    def stmt(self):
        k, v = self.peek()
        if k == "id" and v == "while":
            return self.while_iter_stmt()
        return C.Parser.stmt(self)

    def is_type_start(self):
        j = self.p
        while j < len(self.t) and self.t[j] == ("id", "const"):
            j += 1
        if j + 1 < len(self.t) and self.t[j][0] == "id" and self.t[j + 1] == ("op", "*") and \
                C.norm_type(self.t[j][1] + "*") in self.spec.get("types", {}):
            return True
        return C.Parser.is_type_start(self)

    def cast(self, e, ty):
        # pointer / reference conversions between configured class types (down_cast, static_cast): as configured
        if e[1] != ty and e[1].kind == "struct" and ty.kind == "struct":
            for key in ("downcast", "upcast"):
                m = self.spec["types"][e[1].name].get(key, {})
                if ty.name in m:
                    return m[ty.name].format(e[0]), ty
        return C.Parser.cast(self, e, ty)

    def pointer_decl(self):
        """`[const] T* name = init;` for a configured pointer type `T*` (the pointer is never re-seated: an immutable alias)"""
        j = self.p
        while j < len(self.t) and self.t[j] == ("id", "const"):
            j += 1
        if j + 3 >= len(self.t) or self.t[j][0] != "id" or self.t[j + 1] != ("op", "*"):
            return None
        tn = C.norm_type(self.t[j][1] + "*")
        if tn not in self.spec.get("types", {}):
            return None
        j += 2
        while j < len(self.t) and self.t[j] == ("id", "const"):
            j += 1
        if self.t[j][0] != "id" or self.t[j + 1] != ("op", "="):
            return None
        name = self.t[j][1]
        self.p = j + 2
        init = self.expr()
        self.eat(";")
        ty = self.ctype(tn)
        e = self.coerce(init[0], init[1], ty, "initialiser of " + name)
        if name in self.scopes[-1]:
            raise self.R("redeclaration of `%s`" % name)
        ln = self.declare(name, ty, False, True)
        return [(0, "let %s : %s := %s" % (ln, self.lean_type(ty), e))], False

    def decl_stmt(self):
        r = self.pointer_decl()
        if r is not None:
            return r
        # `T x(a, b, …);` with a configured constructor
        save = self.p
        tyt = self.parse_type()
        nt = C.norm_type(tyt)
        d = self.spec.get("types", {}).get(nt, {})
        if "ctor" in d and self.peek()[0] == "id" and self.peek(1) == ("op", "("):
            name = self.eat(kind="id")
            args = self.args()
            self.eat(";")
            ty = self.ctype(tyt)
            e, rt = self.apply_call(nt, d["ctor"], args)
            if rt != ty:
                raise self.R("constructor of %s returns %r" % (nt, rt))
            if name in self.scopes[-1]:
                raise self.R("redeclaration of `%s`" % name)
            ln = self.declare(name, ty, True, True)
            return [(0, "let mut %s : %s := %s" % (ln, self.lean_type(ty), e))], False
        if "iterator" in d and self.peek()[0] == "id" and self.peek(1) == ("op", "("):
            # `LinearIterator it(linearGeom);` — remembered; the loop `while (it.hasNext())` ranges over the configured items
            name = self.eat(kind="id")
            args = self.args()
            self.eat(";")
            its = d["iterator"]
            if len(args) != 1:
                raise self.R("iterator `%s` constructed with %d arguments" % (name, len(args)))
            src = self.coerce(args[0][0], args[0][1], self.ctype(its["over"]), "iterator source")
            self.iters = getattr(self, "iters", {})
            self.iters[name] = (nt, "(%s %s)" % (its["items"], src) if its.get("items") else src)
            if its.get("items_param"):
                pd = its["items_param"]
                if pd not in [x[1] for x in self.used_params]:
                    self.used_params.append((pd["lean"], pd))
            return [], False
        if "default" in d and self.peek()[0] == "id" and self.peek(1) == ("op", ";"):
            # `T x;` — default construction of a configured struct
            name = self.eat(kind="id")
            self.eat(";")
            ty = self.ctype(tyt)
            if name in self.scopes[-1]:
                raise self.R("redeclaration of `%s`" % name)
            ln = self.declare(name, ty, True, True)
            lt = self.lean_type(ty)
            if "Cxx.Ring" in d["default"]:
                self.want("Ring")
            return [(0, "let mut %s : %s := %s" % (ln, lt, d["default"]))], False
        self.p = save
        return C.Parser.decl_stmt(self)

    def while_iter_stmt(self):
        """`while (it.hasNext()) { body; it.next(); }` → `for it in items do body`"""
        self.eat("while"); self.eat("(")
        itn = self.eat(kind="id")
        iters = getattr(self, "iters", {})
        if itn not in iters:
            raise self.R("`while` over something that is not a configured iterator")
        self.eat("."); m = self.eat(kind="id")
        if m != "hasNext":
            raise self.R("`while (%s.%s…` is outside the fragment" % (itn, m))
        self.eat("("); self.eat(")"); self.eat(")")
        tn, items = iters[itn]
        its = self.spec["types"][tn]["iterator"]
        # the body must be a block whose last statement is `it.next();` and which does not mention `next` elsewhere
        self.eat("{")
        depth, j = 1, self.p
        while j < len(self.t) and depth:
            if self.t[j] == ("op", "{"):
                depth += 1
            if self.t[j] == ("op", "}"):
                depth -= 1
            j += 1
        if depth:
            raise self.R("unbalanced loop body")
        close = j - 1
        tail = self.t[close - 6:close]
        if tail != [("id", itn), ("op", "."), ("id", "next"), ("op", "("), ("op", ")"), ("op", ";")]:
            raise self.R("iterator loop must end with `%s.next();`" % itn)
        body_toks = self.t[self.p:close - 6]
        if any(t == ("id", "next") or t == ("id", "continue") for t in body_toks):
            raise self.R("`next` / `continue` inside the iterator loop is outside the fragment")
        # parse the body with the loop variable in scope
        save_t = self.t
        self.t = self.t[:close - 6] + [("op", "}")] + self.t[close + 1:]
        self.scopes.append({})
        ety = self.ctype(its["elem"])
        ln = self.declare(itn, ety, False, True)
        self.in_loop += 1
        self.assigned.append(set())
        body, _ = self.stmts_until("}")
        self.assigned.pop()
        self.in_loop -= 1
        self.scopes.pop()
        self.eat("}")
        return [(0, "for %s in %s do" % (ln, items))] + C.indent(body or [(0, "pure ()")]), False

    def expr_stmt(self):
        k, v = self.peek()
        if k == "id":
            # element assignment  v[i] = e;
            ent = self.lookup(v)
            if ent is not None and ent[1].kind == "list" and self.peek(1) == ("op", "["):
                ln, ty, mut = ent
                if not mut:
                    raise self.R("assignment to an element of `%s`, which is not declared mutable in the spec" % v)
                self.eat(); self.eat("[")
                i = self.expr()
                self.eat("]"); self.eat("=")
                rhs = self.expr()
                self.eat(";")
                if i[1].kind != "nat":
                    raise self.R("index of type %r" % i[1])
                e = self.coerce(rhs[0], rhs[1], ty.elem, "right-hand side")
                return [(0, "%s := %s.set %s %s" % (ln, ln, i[0], e))], False
            # member assignment  s.f = e;  on a local struct
            if ent is not None and ent[1].kind == "struct" and self.peek(1)[1] in (".", "->") and self.peek(2)[0] == "id" \
                    and self.peek(3) == ("op", "="):
                ln, ty, mut = ent
                if not mut:
                    raise self.R("assignment to a member of `%s`, which is not mutable" % v)
                self.eat(); self.eat(); fld = self.eat(kind="id"); self.eat("=")
                rhs = self.expr()
                self.eat(";")
                _, fty = self.field((ln, ty), fld)
                fd = self.spec["types"][ty.name]["fields"][fld]
                lf = fld if isinstance(fd, str) else fd.get("lean", fld)
                e = self.coerce(rhs[0], rhs[1], fty, "right-hand side")
                return [(0, "%s := { %s with %s := %s }" % (ln, ln, lf, e))], False
            # statement call of a configured function / method with `updates`
            d, recv = None, None
            if self.peek(1) == ("op", "("):
                d = self.find_call(v)
                name = v
                if d is not None and not (isinstance(d, dict) and d.get("updates") is not None):
                    d = None
            elif ent is not None and self.peek(1)[1] in (".", "->") and self.peek(2)[0] == "id" and self.peek(3) == ("op", "("):
                d = self.find_method((ent[0], ent[1]), self.peek(2)[1])
                name = self.peek(2)[1]
                if d is not None and d.get("updates") is None:
                    d = None
                if d is not None:
                    recv = self.read_var(v)
            if d is not None:
                if recv is not None:
                    self.eat(); self.eat()
                self.eat()
                args = self.args()
                self.eat(";")
                ups = []
                for u in d["updates"]:
                    ue = self.lookup(u)
                    if ue is None or not ue[2]:
                        raise self.R("statement call `%s` updates `%s`, which is not a mutable variable here" % (name, u))
                    ups.append(ue[0])
                dd = dict(d)
                if recv is not None and d.get("no_recv"):
                    recv = None
                e, _ = self.apply_call(name, dd, args, recv=recv)
                e = "(%s%s)" % (e[1:-1] if e.startswith("(") and e.endswith(")") else e, "".join(" " + u for u in ups))
                if not ups:
                    return [], False
                lhs = ups[0] if len(ups) == 1 else "(" + ", ".join(ups) + ")"
                return [(0, "%s := %s" % (lhs, e))], False
        return C.Parser.expr_stmt(self)


def install(spec):
    spec["parser_class"] = ExtParser
    return spec
