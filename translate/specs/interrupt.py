"""C14 — geos::util::Interrupt (src/util/Interrupt.cpp) and its C API entry points (capi/geos_c.cpp).

The two file-static variables `requested` (std::atomic<bool>) and `callback` (std::atomic<Callback*>) are the `state` /
`fields` of the functions.  A `Callback*` is `Option C` for an arbitrary type `C` of callback behaviours; calling it,
`(*cb)()`, is the abstract parameter `invoke : Option C → Bool → Bool` (what the user's callback does to `requested`; the
callback can do that only through Interrupt::request / cancel).  `Interrupt::interrupt` and `Interrupt::process` throw:
their Lean result is `(thrown, requested)`.  Model: lean/GeosModel/Model/Interrupt/Proto.lean; bridge: Props/C14Gen.lean."""
import os, re, sys
sys.path.insert(0, os.path.dirname(os.path.abspath(__file__)))
import cxx2lean as C
import t4ext

CPP = "src/util/Interrupt.cpp"
HDR = "include/geos/util/Interrupt.h"
CAPI = "capi/geos_c.cpp"
CAPI_TS = "capi/geos_ts_c.cpp"


def _block(src, start):
    """src[start] is just after an opening brace: index just after the matching closing brace"""
    j, depth = start, 1
    while j < len(src) and depth:
        depth += {"{": 1, "}": -1}.get(src[j], 0)
        j += 1
    if depth:
        raise C.Refuse("unbalanced braces in %s" % CPP)
    return j


FUNC_RE = re.compile(r"(?:(?<=[;{}])|^)\s*((?:static\s+|inline\s+|constexpr\s+)*[\w:<>\*&]+(?:\s+[\w:<>\*&]+)*?)\s+(\w+)\s*\(([^()]*)\)\s*(?:const\s*)?(?:noexcept\s*)?\{", re.S)


def discover_state(src):
    """The file-level state of Interrupt.cpp: one bool flag and one callback pointer (plain or std::atomic), either as two
    variables or grouped in one struct with a single instance, plus helper functions defined next to them.  Anything else at
    file level is state the model does not have -> Refuse.  Returns dict(flag, cb, obj, struct, helpers=[(name, ret, body, in_struct)])."""
    m = re.search(r"\bnamespace\s+geos\b", src)
    region = src[:m.start()] if m else src
    region = "\n".join(l for l in region.split("\n") if not l.strip().startswith("#"))
    ns = re.search(r"\bnamespace\s*\{", region)
    if ns:
        end = _block(region, ns.end())
        rest = region[:ns.start()] + region[end:]
        if rest.strip():
            raise C.Refuse("file-level declarations outside the anonymous namespace of %s: %s" % (CPP, rest.strip()[:80]))
        region = region[ns.end():end - 1]
    cbt = {"Callback", "Interrupt::Callback", "util::Interrupt::Callback", "geos::util::Interrupt::Callback"}
    for um in list(re.finditer(r"\busing\s+(\w+)\s*=\s*([\w:]+)\s*;", region)) + list(re.finditer(r"\btypedef\s+([\w:]+)\s+(\w+)\s*;", region)):
        a_, b_ = um.group(1), um.group(2)
        if um.group(0).startswith("typedef"):
            a_, b_ = b_, a_
        if b_ in cbt:
            cbt.add(a_)
        else:
            raise C.Refuse("type alias `%s` in %s is not an alias of Interrupt::Callback" % (um.group(0).strip(), CPP))
        region = region.replace(um.group(0), " ")
    info = {"obj": None, "struct": None, "helpers": []}
    text = region
    sm = re.search(r"\b(?:struct|class)\s+(\w+)\s*\{", region)
    if sm:
        end = _block(region, sm.end())
        body = region[sm.end():end - 1]
        after = region[:sm.start()] + region[end:]
        im = re.fullmatch(r"\s*;\s*(?:static\s+)?%s\s+(\w+)\s*(?:\{\s*\})?\s*;\s*|\s*(\w+)\s*;\s*" % re.escape(sm.group(1)), after)
        if not im:
            raise C.Refuse("file-level declarations besides one instance of struct %s in %s: %s" % (sm.group(1), CPP, after.strip()[:80]))
        info["struct"], info["obj"] = sm.group(1), im.group(1) or im.group(2)
        text = re.sub(r"\b(?:public|private)\s*:", " ", body)
    # helper functions
    while True:
        fm = FUNC_RE.search(text)
        if not fm:
            break
        end = _block(text, fm.end())
        if fm.group(3).strip() not in ("", "void"):
            raise C.Refuse("helper `%s` of %s takes parameters — outside what the spec can wire automatically" % (fm.group(2), CPP))
        info["helpers"].append((fm.group(2), C.norm_type(fm.group(1)), text[fm.end():end - 1]))
        text = text[:fm.start()] + ";" + text[end:]
    decls = [d.strip() for d in text.split(";") if d.strip()]
    init = r"(?:\{\s*(\w*)\s*\}|=\s*(\w+)|\(\s*(\w+)\s*\))?"
    flag = cb = None
    for d in decls:
        m1 = re.fullmatch(r"(?:static\s+)?(?:std::atomic\s*<\s*bool\s*>|std::atomic_bool|bool)\s+(\w+)\s*" + init, d)
        m2 = re.fullmatch(r"(?:static\s+)?(?:std::atomic\s*<\s*([\w:]+)\s*\*\s*>|([\w:]+)\s*\*)\s*(\w+)\s*" + init, d)
        if m1 and flag is None:
            iv = next((g for g in m1.groups()[1:] if g), "false")
            if iv not in ("false", "0"):
                raise C.Refuse("the request flag `%s` is initialised to %s; the model (State.init0) starts with no request pending" % (m1.group(1), iv))
            flag = m1.group(1)
        elif m2 and cb is None and (m2.group(1) or m2.group(2)) in cbt:
            iv = next((g for g in m2.groups()[3:] if g), "nullptr")
            if iv not in ("nullptr", "NULL", "0"):
                raise C.Refuse("the callback pointer `%s` is initialised to %s; the model (State.init0) starts with no callback" % (m2.group(3), iv))
            cb = m2.group(3)
        else:
            raise C.Refuse("file-level state `%s` in %s: the model has only the request flag and the callback pointer" % (d, CPP))
    if flag is None or cb is None:
        raise C.Refuse("request flag / callback pointer not found among the file-level variables of %s (found %s)" % (CPP, decls))
    info["flag"], info["cb"] = flag, cb
    return info


def prepare(spec, repo):
    src = C.read_source(repo, CPP)
    st = discover_state(src)
    F, K = st["flag"], st["cb"]
    spec["atomics"] = [F, K]
    spec["state_members"] = [F, K]
    spec["types"] = dict(spec["types"])
    ptr = dict(PTR)
    ptr["invoke"] = dict(PTR["invoke"], state=[F])
    spec["types"]["Callback*"] = ptr
    helpers, calls = [], dict(spec["calls"])
    for name, ret, body in st["helpers"]:
        def touched(m):
            return re.search(r"\b%s\b" % re.escape(m), body) is not None
        def assigned(m):
            return re.search(r"\b%s\s*(?:=(?!=)|\.store\s*\(|\.exchange\s*\(|\+\+|--|[-+*/|&^]=)" % re.escape(m), body) is not None
        if ret not in ("bool", "void"):
            raise C.Refuse("helper `%s` of %s returns %s — outside what the spec can wire automatically" % (name, CPP, ret))
        f = {"file": CPP, "name": (st["struct"] + "::" + name) if st["struct"] else name, "params": [], "ret": ret, "lean": "helper_" + name,
             "fields": {}, "state": {}}
        for m, ty in ((F, "bool"), (K, "Callback*")):
            if assigned(m):
                f["state"][m] = ty
            elif touched(m):
                f["fields"][m] = ty
        if re.search(r"\bthrow\b", body):
            if ret != "void":
                raise C.Refuse("helper `%s` both returns a value and throws" % name)
            f["ret"], f["throws"] = "bool", ["InterruptedException"]
        helpers.append(f)
        calls[name] = {"lean": f["lean"], "kind": "generated", "args": [], "ret": f["ret"]}
    if st["obj"]:
        spec["state_object"] = {"name": st["obj"], "methods": [h[0] for h in st["helpers"]]}
    spec["calls"] = calls
    # the spec's functions, with the discovered member names
    fs = []
    for f in spec["functions"]:
        f = dict(f)
        for key in ("state", "fields"):
            if key in f:
                f[key] = {{"requested": F, "callback": K}.get(k, k): v for k, v in f[key].items()}
        fs.append(f)
    spec["functions"] = helpers + fs
    # the poll macro is a plain call of process()
    hdr = C.read_source(repo, HDR)
    m = re.search(r"#\s*define\s+GEOS_CHECK_FOR_INTERRUPTS\s*\(\s*\)[ \t]*(.*)", hdr)
    if not m:
        raise C.Refuse("macro GEOS_CHECK_FOR_INTERRUPTS() not found in %s" % HDR)
    body = re.sub(r"\s+", "", m.group(1))
    if body not in ("geos::util::Interrupt::process()", "::geos::util::Interrupt::process()"):
        raise C.Refuse("GEOS_CHECK_FOR_INTERRUPTS() expands to `%s`; the model polls by calling Interrupt::process()" % m.group(1).strip())
    # GEOS_init_r: allocates a context and cancels a pending request (`geosInit = cancel` in the model); `new` is outside the
    # fragment, so only its statement list is checked
    ts = C.read_source(repo, CAPI_TS)
    names, b = C.find_function(ts, "GEOS_init_r", [], CAPI_TS)
    stmts = [re.sub(r"\s+", "", s_) for s_ in b.split(";") if s_.strip()]
    want = ["GEOSContextHandleInternal_t*handle=newGEOSContextHandleInternal_t()", "geos::util::Interrupt::cancel()",
            "returnstatic_cast<GEOSContextHandle_t>(handle)"]
    if stmts != want:
        raise C.Refuse("GEOS_init_r is no longer `new context; Interrupt::cancel(); return context` (the model's geosInit): %s" % stmts)


PTR = {"lean": "Option C", "opaque": True, "truth": "Option.isSome {e}", "null": "none",
       "invoke": {"lean": "invoke", "sig": "Option C → Bool → Bool", "state": ["requested"]}}

SPEC = {
    "id": "interrupt",
    "namespace": "GeosModel.Generated.Interrupt",
    "imports": [],
    "prepare": prepare,
    "parser_class": t4ext.XParser,
    "also_reads": [HDR, CAPI_TS],
    # "atomics", "state_members", "state_object" and the helper functions are filled in by prepare() from the source
    "types": {
        "Callback*": PTR,
        "Callback": {"alias": "Callback*"},                     # only so that `Callback* cb = …` is recognised as a declaration
        "Interrupt::Callback*": {"alias": "Callback*"},
        "GEOSInterruptCallback*": {"alias": "Callback*"},
    },
    "type_params": ["C"],
    "calls": {
        "request": {"lean": "request", "kind": "generated", "args": [], "ret": "void"},
        "cancel": {"lean": "cancel", "kind": "generated", "args": [], "ret": "void"},
        "interrupt": {"lean": "interrupt", "kind": "generated", "args": [], "ret": "bool"},
        "registerCallback": {"lean": "registerCallback", "kind": "generated", "args": ["Callback*"], "ret": "Callback*"},
    },
    "functions": [
        {"file": CPP, "name": "Interrupt::request", "params": [], "ret": "void", "lean": "request", "state": {"requested": "bool"}},
        {"file": CPP, "name": "Interrupt::cancel", "params": [], "ret": "void", "lean": "cancel", "state": {"requested": "bool"}},
        {"file": CPP, "name": "Interrupt::check", "params": [], "ret": "bool", "lean": "check", "fields": {"requested": "bool"}},
        {"file": CPP, "name": "Interrupt::registerCallback", "params": ["Interrupt::Callback*"], "ret": "Interrupt::Callback*",
         "lean": "registerCallback", "state": {"callback": "Callback*"}},
        {"file": CPP, "name": "Interrupt::interrupt", "params": [], "ret": "bool", "lean": "interrupt", "state": {"requested": "bool"},
         "throws": ["InterruptedException"]},
        {"file": CPP, "name": "Interrupt::process", "params": [], "ret": "bool", "lean": "process", "fields": {"callback": "Callback*"},
         "state": {"requested": "bool"}, "throws": ["InterruptedException"]},
        # the C API entry points
        {"file": CAPI, "name": "GEOS_interruptRequest", "params": [], "ret": "void", "lean": "capiRequest", "state": {"requested": "bool"}},
        {"file": CAPI, "name": "GEOS_interruptCancel", "params": [], "ret": "void", "lean": "capiCancel", "state": {"requested": "bool"}},
        {"file": CAPI, "name": "GEOS_interruptRegisterCallback", "params": ["GEOSInterruptCallback*"], "ret": "GEOSInterruptCallback*",
         "lean": "capiRegisterCallback", "state": {"callback": "Callback*"}},
    ],
}
